"""Robustness experiment (DESIGN 8.11): harmless edits of the library must not make any check report a VIOLATION or an engine error.

usage: python3-vt tools/harmless_edits.py pass|rename [Cxx ...]

  pass    a `pass` statement is inserted as the first statement (after the docstring) of EVERY function body of the library (all line numbers shift)
  rename  in every function, the first plain local variable (assigned by a simple `name = ...` statement, not a parameter, not global/nonlocal,
          not used in a nested def / lambda / comprehension) is renamed consistently to `<name>_rn`

The edited copy lives under /tmp/harmless/<kind>/src and is removed afterwards; the quick checks run against it through PYVC_REPO_SRC (5 at a time).
Expected: no VIOLATION line, no ENGINE-ERROR line.  `pass`: every check exits 0.  `rename`: exit 0 or 2 (units whose contract names the renamed local become
undecided -- "contract binding error" -- and the property's runtime batteries, which then run, pass)."""
import ast, os, re, shutil, subprocess, sys
from concurrent.futures import ThreadPoolExecutor

HERE = os.path.dirname(os.path.dirname(os.path.abspath(__file__)))
kind = sys.argv[1]
props = sys.argv[2:] or [f'C{i:02d}' for i in range(1, 21)]
root = f'/tmp/harmless/{kind}'
shutil.rmtree(root, ignore_errors=True)
os.makedirs(root)
shutil.copytree('/repo/src', root + '/src')
n_edits = 0


def body_start(fn):
    b = fn.body
    if b and isinstance(b[0], ast.Expr) and isinstance(b[0].value, ast.Constant) and isinstance(b[0].value.value, str):
        b = b[1:]
    return b[0] if b else None


def edit_pass(path):
    global n_edits
    src = open(path).read()
    lines = src.split('\n')
    ins = []
    for fn in ast.walk(ast.parse(src)):
        if isinstance(fn, (ast.FunctionDef, ast.AsyncFunctionDef)):
            first = body_start(fn)
            if first is None or first.lineno == fn.lineno:
                continue
            ln = min([first.lineno] + [d.lineno for d in getattr(first, 'decorator_list', [])])
            ins.append((ln, first.col_offset))
    for ln, col in sorted(set(ins), reverse=True):
        lines.insert(ln - 1, ' ' * col + 'pass')
        n_edits += 1
    new = '\n'.join(lines)
    ast.parse(new)
    open(path, 'w').write(new)


def edit_rename(path):
    global n_edits
    src = open(path).read()
    tree = ast.parse(src)
    edits = []      # (lineno, col, old, new)
    for fn in ast.walk(tree):
        if not isinstance(fn, (ast.FunctionDef, ast.AsyncFunctionDef)):
            continue
        params = {a.arg for a in fn.args.posonlyargs + fn.args.args + fn.args.kwonlyargs} | {x.arg for x in (fn.args.vararg, fn.args.kwarg) if x}
        banned = set(params)
        for x in ast.walk(fn):
            if isinstance(x, (ast.Global, ast.Nonlocal)):
                banned |= set(x.names)
            if x is not fn and isinstance(x, (ast.FunctionDef, ast.AsyncFunctionDef, ast.Lambda, ast.ListComp, ast.SetComp, ast.DictComp, ast.GeneratorExp, ast.ClassDef)):
                banned |= {y.id for y in ast.walk(x) if isinstance(y, ast.Name)}
        cand = None
        for st in fn.body:
            if isinstance(st, ast.Assign) and len(st.targets) == 1 and isinstance(st.targets[0], ast.Name) and st.targets[0].id not in banned and not st.targets[0].id.startswith('_'):
                cand = st.targets[0].id
                break
        if cand is None:
            continue
        if any(isinstance(x, ast.keyword) and x.arg == cand for x in ast.walk(fn)):
            pass        # keyword arguments named like the local stay as they are (they are not Name nodes)
        for x in ast.walk(fn):
            if isinstance(x, ast.Name) and x.id == cand:
                edits.append((x.lineno, x.col_offset, cand, cand + '_rn'))
        n_edits += 1
    lines = src.split('\n')
    for ln, col, old, new in sorted(set(edits), reverse=True):
        line = lines[ln - 1]
        # col_offset counts utf-8 bytes; the library's identifiers sit on ascii prefixes
        assert line[col:col + len(old)] == old, (path, ln, col, old, line)
        lines[ln - 1] = line[:col] + new + line[col + len(old):]
    new = '\n'.join(lines)
    ast.parse(new)
    open(path, 'w').write(new)


for d, _, fs in os.walk(root + '/src/mpservice'):
    for f in fs:
        if f.endswith('.py'):
            (edit_pass if kind == 'pass' else edit_rename)(os.path.join(d, f))
print(f'{n_edits} edits ({kind}) in {root}/src', flush=True)
rc = subprocess.run(['/venv/bin/python', '-c', 'import mpservice, mpservice.mpserver, mpservice.streamer, mpservice.multiprocessing, mpservice.socket, mpservice.pipe, mpservice.queue, mpservice.threading'],
                    env=dict(os.environ, PYTHONPATH=root + '/src')).returncode
print('edited library imports:', 'ok' if rc == 0 else 'FAILS', flush=True)


def one(pid):
    env = dict(os.environ, PYVC_REPO_SRC=root + '/src/mpservice', PYVC_EVIDENCE_DIR=f'{root}/evidence-{pid}')
    r = subprocess.run(['python3-vt', '-m', 'pyvc.check', pid, '--tier', 'quick'], capture_output=True, text=True, cwd=HERE, env=env)
    o = r.stdout + r.stderr
    return pid, r.returncode, len(re.findall(r'^VIOLATION', o, re.M)), len(re.findall(r'^ENGINE-ERROR', o, re.M)), len(re.findall(r'^UNDECIDED', o, re.M)), re.findall(r'^(?:VIOLATION|ENGINE-ERROR).*$', o, re.M)[:3]


bad = 0
with ThreadPoolExecutor(5) as ex:
    for pid, rc, v, e, u, lines in ex.map(one, props):
        print(f'{pid}: exit {rc}, {v} VIOLATION, {e} ENGINE-ERROR, {u} undecided units', *lines, sep='\n   ' if lines else ' ', flush=True)
        bad += (v > 0) + (e > 0) + (rc not in ((0,) if kind == 'pass' else (0, 2)))
shutil.rmtree(root, ignore_errors=True)
print('RESULT:', 'no false alarm' if bad == 0 else f'{bad} check(s) misbehaved')
sys.exit(1 if bad else 0)
