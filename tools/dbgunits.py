"""python3-vt tools/dbgunits.py <module> <LISTNAME or UnitClass...>: like dbg.py but for arbitrary unit lists of a module"""
import sys, traceback, importlib
sys.path.insert(0, '/verif')
from pyvc import solve
from pyvc.core import Exec
from pyvc.unit import strip_docstring
mod = importlib.import_module('contracts.' + sys.argv[1])
units = []
for a in sys.argv[2:]:
    v = getattr(mod, a)
    units += list(v) if isinstance(v, (list, tuple)) else [v]
for U in units:
    u = U(); r = u.run()
    print('==', u.name, r['status'], r['error'], 'paths', r['paths'])
    if r['status'] != 'ok' and hasattr(u, 'setup'):
        try:
            fn, sha, seg = u.load(); ex = Exec(fn, u); u.ex = ex; st = u.setup(ex); outs = ex.block(strip_docstring(fn), st); u.post(ex, outs)
        except Exception:
            traceback.print_exc()
    obs = r['obligations']
    solve.discharge(obs, 10000, 4, False)
    for o in obs:
        if o.result != 'discharged':
            print('  ', o.result, o.name[:220], dict(list((getattr(o, 'model', None) or {}).items())[:8]), 'path', o.trace[-12:])
    print('  obligations', len(obs))
