#!/usr/bin/env python3
"""Regenerate MANIFEST.json from the table below (keeps it schema-valid and consistent)."""
import json
import os

HERE = os.path.dirname(os.path.dirname(os.path.abspath(__file__)))

TRUST = ('Trusted: pyvc\'s documented subset semantics of CPython (int mathematical, float real, == as logical equality); '
         'z3 soundness on QF LIA/LRA/UF/Seq/datatypes (second z3 build votes in thorough; a query both builds leave open within the budget is retried under several seeds '
         'before it counts as undecided; the one sequence lemma the engine supplies as a hint is proved on every run, DESIGN 8.18); the stdlib models and user-callable '
         'assumptions listed in evidence.coverage.trusted_base; termination is not proved (partial correctness).')

CLAIMED = {
    'C03': dict(
        text='Each stream operator (real source, re-parsed every run) is proved against a stream contract over an arbitrary, possibly failing, '
             'unbounded symbolic input: loop invariants in snoc form give out == meaning(input) for every length and content, with laziness '
             'bounds asserted at every yield; obligations are discharged by z3 with no bound on input length.',
        technique='contract-based deductive verification: AST->SMT VC generation (pyvc) over the real operator bodies, loop invariants, z3',
        ref='DESIGN.md 3/C03'),
    'C19': dict(
        text='EagerBatcher.__iter__ is proved against a partition + deadline contract on a ghost clock: for every arrival timing, batch size, '
             'wait time and end marker, batches have 1..n items, concatenate to the items taken before the end marker, and a partial batch '
             'is released exactly at the deadline or on the end marker.',
        technique='contract-based deductive verification: pyvc VCs with nested loop invariants over a timed-queue model on a ghost clock, z3',
        ref='DESIGN.md 3/C19'),
}

CLAIMED.update({
    'C01': dict(
        text='SingleLane.put/get are proved against a history contract (P == G ++ Q, FIFO, bound) under a rely/guarantee interference model; the fifo_stream '
             'feeder and consumer are proved against ONE shared per-item protocol indexed by position (item #k pairs source element #k with its own future; '
             'terminal item last, exactly once), so output #k == omap(x_k, outcome of x_k\'s future) for every input, every completion order (none occurs in '
             'the formulas) and every capacity; Parmapper/executor wrappers are proved to pass func, arguments and flags through.',
        technique='contract-based deductive verification: pyvc VCs over the real bodies; E2 rely/guarantee at Condition.wait; index-based history functions; z3',
        ref='DESIGN.md 3/C01'),
    'C05': dict(
        text='Structural end-of-stream obligations proved on every path of the real producers/consumers/finalizers: terminal item last and exactly once on every '
             'exit of each producer (Exception and StopRequested forwarded), no get after the terminal item, finalizer on every generator exit, join reached only '
             'when the worker is known dead (timed drain loops) or within the put-credit lemma (K=2 <= capacity+1). "Cannot hang" then follows by the stated '
             'meta-theorem; wall-clock bounds are not decided.',
        technique='contract-based deductive verification: pyvc VCs (exceptional postconditions, under-stop variants with no-back-edge obligations, put-credit lemma), z3',
        ref='DESIGN.md 3/C05, 2.4'),
    'C08': dict(
        text='Three counter invariants (feeder pulled-nput<=1, queue nput-nget<=maxsize, consumer nget-nyield<=1) are proved in the units of the real code, the queue '
             'sizes capacity+1 / n and max_workers == concurrency are proved at the construction sites, and a linear-arithmetic lemma adds them to capacity+3 / n+2, '
             'independent of stream length and speeds.',
        technique='contract-based deductive verification: pyvc counter invariants on the real feeder/consumer/queue code + LIA lemma, z3',
        ref='DESIGN.md 3/C08'),
    'C12': dict(
        text='SpawnProcess.run (child) is proved to send exactly (result, error) per the documented table on every path; _collect_result to resolve the future exactly '
             'once on every path including EOF at each crash point (0, 1 or 2 messages sent) and every exit code; join/result/exception/done and Thread.run/join/'
             'result/exception are proved to be functions of that single outcome, hence to agree.',
        technique='contract-based deductive verification: pyvc VCs with exceptional postconditions and crash-point enumeration as symbolic pipe scripts, z3',
        ref='DESIGN.md 3/C12'),
    'C16': dict(
        text='async_fifo_stream feeder and consumer are proved against the same protocol text and the same per-yield obligations as the sync pair (contracts/fifo.py); '
             'a relational lemma gives equal outputs; the pinned-tree defect (stale/unbound task for a rejected element) is a failing "local is bound" obligation. The asynchronous '
             'parmap variants (AsyncParmapper, AsyncParmapperAsync, ParmapperAsync and their local funcs) and AsyncServer.call/stream/_enqueue/_gather_output/_wait_for_result are '
             'proved to pass their own stream, flags, preprocessor, kwargs and capacity through and to pair each input with the awaitable of its own call.',
        technique='contract-based deductive verification: shared sidecar contract for the sync and async variants (pyvc), relational lemma, z3',
        ref='DESIGN.md 3/C16'),
})

CLAIMED.update({
    'C06': dict(
        text='Server/AsyncServer._enqueue are proved under a rely/guarantee model of the shared ledger (other enqueuers and the lock-free gather thread interfere at '
             'every ledger access and during wait): the insert keeps |ledger| <= capacity for any number of callers, a rejected request performs no write, with '
             'back-pressure no wait lies on the rejection path, without it every wait ends by the original deadline; the gather loop is proved to pop exactly the '
             'received uid and to notify once per pop for every outcome kind (cancelled included).',
        technique='contract-based deductive verification: pyvc E2 (rely/guarantee havoc at interference points, ghost clock), z3',
        ref='DESIGN.md 3/C06'),
    'C07': dict(
        text='The gather loop is proved to let no exception escape under an adversarial caller that may cancel() the shared future between any two of its actions '
             '(Future state machine model), to leave every other ledger entry alone and to keep notifying; _wait_for_result is proved to raise TimeoutError only '
             'to its own caller after cancelling. The pinned-tree check-then-act defect is a failing obligation (canary).',
        technique='contract-based deductive verification: pyvc E2 with a shared-future state machine and interference before every action, z3',
        ref='DESIGN.md 3/C07'),
    'C20': dict(
        text='The parent-side reader is proved to handle every record before the first end marker once, in order, subject to the level test; the collector is proved '
             'to put the end marker exactly once, only after it observed the child\'s exit (so after every flushed record), and to wait for the reader; the child is '
             'proved to install forwarding before and remove it only after the target; start() binds the reader to the process\'s own queue.',
        technique='contract-based deductive verification: pyvc VCs with history ghosts and event-order obligations on the real logging code paths, z3',
        ref='DESIGN.md 3/C20'),
})

CLAIMED.update({
    'C10': dict(
        text='One step of one fork (Fork.__next__, real source) is proved under interference by its peers against a fork-local invariant over an index model of the '
             'element chain: it returns element #consumed exactly once and in order, pulls the source only under the lock and only at the re-checked tip (once per '
             'element), links before publishing, pops the window only as the last consumer, releases the lock on every exit, takes the source lock only with timed '
             're-checking acquisitions (S2), and ends by StopIteration / the remembered source exception only after all elements. The proof found a residual race in '
             'the first repair (fixed: cd21f2a). The numeric window bound is not decided.',
        technique='contract-based deductive verification: pyvc E2 (rely/guarantee with monotone shared ghosts, own-contract recursion) + structural blocking obligations, z3',
        ref='DESIGN.md 3/C10'),
    'C15': dict(
        text='is_remote_exception, get_remote_traceback, RemoteTraceback, _rebuild_exception, RemoteException.__init__/__reduce__ are proved against record-level contracts '
             '(class, args, traceback, cause, text); the k-hop statement is an induction whose base and step (forwarded: identical text; re-raised: contains, with explicit '
             'witnesses) are discharged by z3. The EnsembleError branch is proved too: every bare-exception member is re-wrapped in its own slot, in place (loop invariant at a generic '
             'member index), EnsembleError keeps and pickles the very results object; only the multi-hop composition of these for nested members stays a bounded runtime battery.',
        technique='contract-based deductive verification: pyvc VCs + hop-induction lemma over strings (z3 seq); bounded battery only for the multi-hop composition of nested members',
        ref='DESIGN.md 3/C15'),
})

CLAIMED.update({
    'C09': dict(
        text='The collector (_build_input_batches, three nested loops under the shared read lock), the batch consumer (_get_input_batch on a ghost clock), both get_input '
             'generators and both worker main loops are proved: only genuine inputs reach the buffer/call (exception values and preprocess failures are short-circuited under '
             'their own uid), each item taken is dispatched exactly once, batches have 1..b consecutive items with no end marker inside, a partial batch is released at the '
             'deadline, and the collector cannot lose its wake-up (predicate tested under the waiting lock) -- the pinned tree failed that obligation (fixed: 108611a).',
        technique='contract-based deductive verification: pyvc VCs with nested loop invariants, index-based histories, ghost clock, condition-wait obligation, z3',
        ref='DESIGN.md 3/C09'),
    'C17': dict(
        text='The effect of each IterableQueue operation on the token counters and end markers (order and atomicity of its actions) is proved on the real code -- in particular '
             'that the token move and the completion test are one atomic step under the lids lock -- and a lemma over these effects gives the protocol invariant (one extra '
             'marker per round, removed by renew, nothing leaks); ResponsiveQueue is proved to slice every blocking call and poll the stop event before blocking again.',
        technique='contract-based deductive verification: pyvc effect contracts under interference + counter-invariant lemma, z3',
        ref='DESIGN.md 3/C17'),
})

CLAIMED.update({
    'C02': dict(
        text='Pairing is proved along the whole request path with index-based history functions: _enqueue records uid -> future (fresh counter uid) before enqueuing; '
             'get_input queues exactly one uid per value handed to Worker.stream; stream yields the j-th outcome for the j-th input; the main loops put output j under '
             'uid j (single and batched, zip(uids, yy)); the ensemble/switch forwarders send (uid, x) to every / the selected member; the gather loop resolves exactly '
             'ledger[uid]. EnsembleServlet._dequeue is proved per item over an abstract catalog (uid -> count, slots): member #i\'s value goes into slot i of the entry of its own uid, '
             'and every answer goes out under the uid just received, once.',
        technique='contract-based deductive verification: pyvc VCs over index-based histories across worker/servlet/server functions, abstract catalog model for the ensemble collector, z3',
        ref='DESIGN.md 3/C02'),
    'C04': dict(
        text='Exceptional branches of the same units: a preprocess failure or an incoming exception value is short-circuited under its own uid and never reaches call/the batch '
             'buffer/any member; a failing call yields its own exception wrapped in RemoteException under its own uid; a failing batched call fails exactly the uids of that '
             'batch; forwarders pass exception values through (wrapped); the gather loop sets the unwrapped exception on that future only; C15 units give type/args/text. '
             'Ensemble fail_fast / all-failed rules are proved on EnsembleServlet._dequeue (first exception answers once with EnsembleError and later results are dropped; without fail_fast the list is '
             'replaced by EnsembleError exactly when every slot is a RemoteException). The EnsembleError constructor/pickling branch of C15 stays a bounded stand-in.',
        technique='contract-based deductive verification: exceptional postconditions in pyvc units shared with C02/C09/C15, z3; bounded stand-in only for the EnsembleError branch of C15',
        ref='DESIGN.md 3/C04'),
})

CLAIMED.update({
    'C11': dict(
        text='start() of every servlet kind is proved all-or-nothing with ghost running counters over symbolic families of workers/members: on a normal exit every '
             'worker/member is started and recorded, on an init failure the init error is raised, the failing worker joined, every earlier one sent the end marker and '
             'joined / stopped, nothing marked started; stop() and Server.__exit__/__aexit__ are proved to route the end marker behind every accepted input (through the '
             'onboarding buffer / the forwarding thread) before stopping workers, to join a worker only after the marker was sent, and to reset state for re-entry; the '
             'onboarding thread is proved FIFO with the marker last; Worker.run is proved to perform the init handshake (also for failures before the object exists). '
             'ONE KNOWN FINDING stands (KNOWN_FINDINGS.txt; printed as KNOWN-FINDING, exit 0): the stop-protocol lemma "no writer is left blocked after the reader stopped at the '
             'first end marker" holds for a single writer and FAILS for several worker processes on a pipe-backed queue (Server.__exit__ hangs with abandoned requests and large '
             'pending results); reproduced by replay/scenarios/c11_exit_pending_large_results.py, re-run in the thorough tier.',
        technique='contract-based deductive verification: pyvc VCs with ghost running-set counters, symbolic families, event-order obligations (S3), a protocol lemma over the component contracts, z3',
        ref='DESIGN.md 3/C11'),
})

CLAIMED.update({
    'C18': dict(
        text='Framing: write_record is proved to emit exactly header(id, len(encoded payload), encoder) ++ encoded payload, read_record to consume one header line and then the '
             'payload BY LENGTH (never by content, never under the poll timeout) and decode it with the header\'s encoder; a lemma composes them into the round trip. Server: '
             'per connection the k-th record is queued as (own id, task of the routed handler on its own payload) and the j-th response is written j-th under the j-th id with '
             'its own outcome (any Exception, TimeoutError included, wrapped). Client: a request is sent under id(its own future) and exactly that future is registered; a '
             'response resolves exactly the registered future of its id; request/_enqueue never touch the in-flight table (ids in flight stay unique). Pipe: constructor wiring '
             'proved; byte/Connection layers trusted and exercised by a runtime battery.',
        technique='contract-based deductive verification: pyvc VCs with structured header terms, index-based histories, frame obligations on the in-flight table, z3; trusted string/pickle lemmas',
        ref='DESIGN.md 3/C18'),
})

CLAIMED.update({
    'C13': dict(
        text='Effect contracts on every function that touches the server-side reference count, each proved on the real code: Server.create registers the object itself (not a copy) and '
             'leaves count = previous (0 if new) + 1, all other idents untouched; _make_proxy builds exactly one reference-taking proxy for its token; _incref causes exactly one '
             'increment and registers exactly one finalizer (own token, exit priority set); _decref exactly one decrement; __reduce__ exactly one increment before the pickle exists; '
             'RebuildProxy [incref, finalizer, decref] in that order, also while a child is starting; managed() hosts the very object; MemoryBlock finalizer closes and unlinks. A '
             'lemma over these effects gives refcount == live proxies + pickles in transit, 0 exactly when unreferenced. stdlib halves (BaseProxy.__init__, Server.decref, Finalize) '
             'are assumed contracts; a seeded random-history battery against a count model is the bounded stand-in for whole histories.',
        technique='contract-based deductive verification: pyvc effect contracts (event logs, frame conditions on both server maps) + counting lemma, z3; bounded runtime battery for histories',
        ref='DESIGN.md 3/C13'),
    'C14': dict(
        text='Contracts along the whole call path, proved on the real code: Server._callmethod returns ("#RETURN", result) of exactly one call of the named method on the hosted object '
             'with the request\'s args/kwds, ("#ERROR", RemoteException(e)) when it raises, ("#PROXY", create(typeid, result)) for managed-returning methods; serve_client answers '
             'every request with exactly that message, in order, and keeps serving after error responses; BaseProxy._callmethod sends (own id, name, args, kwds), returns '
             '"#RETURN"/"#PROXY" results and raises convert_to_error otherwise (in-server short-cut: same message format); every hand-written proxy method and the generated method '
             'template (extracted from the exec string every run) forward their own arguments; add_proxy_methods call sites must not shadow the attribute protocol (the pinned tree '
             'did: fixed bf06a20); Server.create/managed() host the very object. Lemma: proxy call == direct call up to the pickle round trip (exceptions: C15).',
        technique='contract-based deductive verification: pyvc VCs with uninterpreted hosted methods, index-based request histories, call-site precondition check, composition lemma, z3',
        ref='DESIGN.md 3/C14'),
})

PENDING = 'check under construction (see DESIGN.md section 3)'
NA = {}

ALL = [f'C{i:02d}' for i in range(1, 21)]


def main():
    checks = []
    for pid in ALL:
        if pid in CLAIMED:
            c = CLAIMED[pid]
            checks.append({
                'property_id': pid,
                'quick_cmd': f'python3-vt -m pyvc.check {pid} --tier quick',
                'thorough_cmd': f'python3-vt -m pyvc.check {pid} --tier thorough',
                'evidence_file': f'evidence/{pid}.json',
                'replay_cmd_template': 'python3-vt -m pyvc.replay {path}',
                'engine': 'pyvc',
                'level_claimed': {'category': 'proof', 'text': c['text'], 'design_ref': c['ref']},
                'level_note': c.get('note', TRUST),
                'technique': c['technique'],
            })
    na = [{'property_id': p, 'reason': NA.get(p, PENDING)} for p in ALL if p not in CLAIMED]
    m = {
        'version': 1,
        'setup_cmd': 'python3-vt -c "import z3" && /usr/bin/z3 --version >/dev/null && /venv/bin/python -c "import mpservice"',
        'hooks': {
            'guard': 'MPSERVICE_VERIF',
            'enable': 'no source hooks: contracts are sidecar files under /verif/contracts; every check re-parses /repo/src/mpservice on every run',
            'baseline_off_cmd': 'cd /repo && /venv/bin/python -m pytest -ra -q -p no:cacheprovider --timeout=900 --continue-on-collection-errors',
            'source_commits': [],
            'add_only': True,
        },
        'engines': [{
            'name': 'pyvc', 'path': 'pyvc', 'serves_properties': sorted(CLAIMED),
            'kind_free_text': 'own AST->SMT verification-condition generator over the real source of /repo/src/mpservice with sidecar '
                              'contracts (/verif/contracts); z3 5.x wheel in python3-vt, /usr/bin/z3 4.8.12 as second vote',
        }],
        'checks': checks,
        'not_applicable': na,
        'notes': 'Exit codes of every check: 0 proved, 1 violation (VIOLATION line), 2 undecided only, 3 engine error. '
                 'Genuine defects found on the pinned tree were repaired by fix: commits in /repo (26; see KNOWN_FINDINGS.txt); one is recorded there as a known finding (C11) and printed as KNOWN-FINDING by the C11 check.',
    }
    json.dump(m, open(os.path.join(HERE, 'MANIFEST.json'), 'w'), indent=1)
    print('claimed', sorted(CLAIMED), 'pending', len(na))


if __name__ == '__main__':
    main()
