#!/usr/bin/env python3
"""Regenerate MANIFEST.json from the table below (keeps it schema-valid and consistent)."""
import json
import os

HERE = os.path.dirname(os.path.dirname(os.path.abspath(__file__)))

TRUST = ('Trusted: pyvc\'s documented subset semantics of CPython (int mathematical, float real, == as logical equality); '
         'z3 soundness on QF LIA/LRA/UF/Seq/datatypes (second z3 build votes in thorough); the stdlib models and user-callable '
         'assumptions listed in evidence.coverage.trusted_base; termination is not proved (partial correctness).')

CLAIMED = {
    'C03': dict(
        text='Each stream operator (real source, re-parsed every run) is proved against a stream contract over an arbitrary, possibly failing, '
             'unbounded symbolic input: loop invariants in snoc form give out == meaning(input) for every length and content, with laziness '
             'bounds asserted at every yield; obligations are discharged by z3 with no bound on input length.',
        technique='contract-based deductive verification: AST->SMT VC generation (pyvc) over the real operator bodies, loop invariants, z3',
        ref='DESIGN.md 3/C03'),
    'C19': dict(
        text='EagerBatcher.__iter__ is proved against a partition + deadline contract on a ghost clock: for every arrival timing, batch size, '
             'wait time and end marker, batches have 1..n items, concatenate to the items taken before the end marker, and a partial batch '
             'is released exactly at the deadline or on the end marker.',
        technique='contract-based deductive verification: pyvc VCs with nested loop invariants over a timed-queue model on a ghost clock, z3',
        ref='DESIGN.md 3/C19'),
}

PENDING = 'check under construction (see DESIGN.md section 3)'
NA = {}

ALL = [f'C{i:02d}' for i in range(1, 21)]


def main():
    checks = []
    for pid in ALL:
        if pid in CLAIMED:
            c = CLAIMED[pid]
            checks.append({
                'property_id': pid,
                'quick_cmd': f'python3-vt -m pyvc.check {pid} --tier quick',
                'thorough_cmd': f'python3-vt -m pyvc.check {pid} --tier thorough',
                'evidence_file': f'evidence/{pid}.json',
                'replay_cmd_template': 'python3-vt -m pyvc.replay {path}',
                'engine': 'pyvc',
                'level_claimed': {'category': 'proof', 'text': c['text'], 'design_ref': c['ref']},
                'level_note': c.get('note', TRUST),
                'technique': c['technique'],
            })
    na = [{'property_id': p, 'reason': NA.get(p, PENDING)} for p in ALL if p not in CLAIMED]
    m = {
        'version': 1,
        'setup_cmd': 'python3-vt -c "import z3" && /usr/bin/z3 --version >/dev/null && /venv/bin/python -c "import mpservice"',
        'hooks': {
            'guard': 'MPSERVICE_VERIF',
            'enable': 'no source hooks: contracts are sidecar files under /verif/contracts; every check re-parses /repo/src/mpservice on every run',
            'baseline_off_cmd': 'cd /repo && /venv/bin/python -m pytest -ra -q -p no:cacheprovider --timeout=900 --continue-on-collection-errors',
            'source_commits': [],
            'add_only': True,
        },
        'engines': [{
            'name': 'pyvc', 'path': 'pyvc', 'serves_properties': sorted(CLAIMED),
            'kind_free_text': 'own AST->SMT verification-condition generator over the real source of /repo/src/mpservice with sidecar '
                              'contracts (/verif/contracts); z3 5.x wheel in python3-vt, /usr/bin/z3 4.8.12 as second vote',
        }],
        'checks': checks,
        'not_applicable': na,
        'notes': 'Exit codes of every check: 0 proved, 1 violation (VIOLATION line), 2 undecided only, 3 engine error. '
                 'Genuine defects found on the pinned tree were repaired by fix: commits in /repo (see KNOWN_FINDINGS.txt).',
    }
    json.dump(m, open(os.path.join(HERE, 'MANIFEST.json'), 'w'), indent=1)
    print('claimed', sorted(CLAIMED), 'pending', len(na))


if __name__ == '__main__':
    main()
