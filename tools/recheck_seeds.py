"""Re-run the property's quick check against every stored seed (seeded/<id>/patch.diff applied to a scratch copy of /repo/src) and refresh meta.json['check'].
usage: python3 tools/recheck_seeds.py [id ...]      (all seeds when no id is given; 6 in parallel)"""
import glob, json, os, re, shutil, subprocess, sys
from concurrent.futures import ThreadPoolExecutor

HERE = os.path.dirname(os.path.dirname(os.path.abspath(__file__)))


def one(d):
    sid = os.path.basename(d)
    meta = json.load(open(os.path.join(d, 'meta.json')))
    pid = meta['property']
    root = f'/tmp/rs/{sid}'
    shutil.rmtree(root, ignore_errors=True)
    os.makedirs(root)
    shutil.copytree('/repo/src', root + '/src')
    p = subprocess.run(['patch', '-p1', '-s', '-d', root, '-i', os.path.join(d, 'patch.diff')], capture_output=True, text=True)
    head = subprocess.run(['git', '-C', '/repo', 'rev-parse', '--short', 'HEAD'], capture_output=True, text=True).stdout.strip()
    if p.returncode != 0:
        shutil.rmtree(root, ignore_errors=True)
        # a later fix commit changed the lines this seed edits: the verdict recorded when it was confirmed (meta['check'], against meta['check'].get('head')) stands
        meta['applies_to_final_head'] = False
        meta['final_head'] = head
        json.dump(meta, open(os.path.join(d, 'meta.json'), 'w'), indent=1)
        return sid, 'DOES NOT APPLY to the current HEAD: ' + (p.stdout + p.stderr).strip()[:200]
    meta['applies_to_final_head'] = True
    meta['final_head'] = head
    env = dict(os.environ, PYVC_REPO_SRC=root + '/src/mpservice', PYVC_EVIDENCE_DIR='/tmp/rs/evidence-' + sid)
    try:
        r = subprocess.run(['python3-vt', '-m', 'pyvc.check', pid, '--tier', 'quick'], capture_output=True, text=True, cwd=HERE, env=env, timeout=1500)
        o, rc = r.stdout + r.stderr, r.returncode
    except subprocess.TimeoutExpired:
        o, rc = 'timeout', 124
    viol = re.findall(r'^VIOLATION .*$', o, re.M)
    failed = re.findall(r'FAILED obligation: (.*)$', o, re.M)
    undec = re.findall(r'^UNDECIDED .*$', o, re.M)
    meta['check'] = {'cmd': f'python3-vt -m pyvc.check {pid} --tier quick', 'exit': rc, 'violations': len(viol), 'replayed_on_real_code': sum(1 for v in viol if 'no-failing-input-found' not in v),
                     'failed_obligations': failed[:4], 'undecided_units': len(undec), 'by_runtime_scenario': any('scenario_' in v for v in viol), 'head': subprocess.run(['git', '-C', '/repo', 'rev-parse', '--short', 'HEAD'], capture_output=True, text=True).stdout.strip()}
    json.dump(meta, open(os.path.join(d, 'meta.json'), 'w'), indent=1)
    shutil.rmtree(root, ignore_errors=True)
    shutil.rmtree('/tmp/rs/evidence-' + sid, ignore_errors=True)
    return sid, f'exit {rc}, {len(viol)} VIOLATION, static={bool(failed)}, replayed={meta["check"]["replayed_on_real_code"]}'


if __name__ == '__main__':
    ids = sys.argv[1:]
    dirs = sorted(d for d in glob.glob(os.path.join(HERE, 'seeded', 'C*')) if not ids or os.path.basename(d) in ids)
    with ThreadPoolExecutor(6) as ex:
        for sid, msg in ex.map(one, dirs):
            print(sid, msg, flush=True)
