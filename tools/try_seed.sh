#!/bin/bash
# usage: tools/try_seed.sh <patch.diff> <PID> [tier]   -- apply a seeded change to /repo, run the check, undo it
set -u
patch="$1"; pid="$2"; tier="${3:-quick}"
cd /repo || exit 9
if [ -n "$(git status --porcelain)" ]; then echo "/repo not clean"; exit 9; fi
git apply "$patch" || { echo "patch does not apply"; exit 9; }
cd /verif && PYVC_EVIDENCE_DIR=/tmp/try_seed_evidence python3-vt -m pyvc.check "$pid" --tier "$tier" > /tmp/try_seed.out 2>&1; rc=$?
git -C /repo checkout -- .
echo "exit=$rc"; grep -E "^\[C|VIOLATION|UNDECIDED|ENGINE|KNOWN|FAILED obligation|runtime scenario" /tmp/try_seed.out | head -${4:-12}
