"""Mutation probe of the contracts (DESIGN 8.15): generic mutations of the functions under contract must not survive the property's quick check.

usage: python3-vt tools/mutate_probe.py <n_per_function> <seed> [Cxx ...]        (report: /tmp/mutprobe/report.jsonl; summary on stdout)

For every function under contract (each property's UNITS; lemmas and axioms excepted) up to n mutants are drawn at random from
  DEL   a simple statement removed (replaced by `pass`): calls, assignments, augmented assignments, raise, return <value>, break, continue
        -- except log / debug / print / warnings calls, docstrings, and assignments to names only used in such calls
  NEG   the test of an `if` / `while` negated
  CMP   one comparison operator swapped (== <-> !=, < <-> <=, > <-> >=, is <-> is not)
  RET   `return <expr>` -> `return None`
Each mutant is applied to a scratch copy of /repo/src (removed afterwards), compiled, and the quick check of ONE property that has the function under contract (the unit's
own `prop` where possible) is run against it through PYVC_REPO_SRC.  Outcome per mutant: killed (exit 1), survived (exit 0), undecided (exit 2), engine error (exit 3).
Survivors are candidates for a weak contract -- or equivalent mutants (bookkeeping the property does not speak about); they are triaged by hand."""
import ast, importlib, json, os, random, re, shutil, subprocess, sys
from concurrent.futures import ThreadPoolExecutor

HERE = os.path.dirname(os.path.dirname(os.path.abspath(__file__)))
sys.path.insert(0, HERE)
N, SEED = int(sys.argv[1]), int(sys.argv[2])
PROPS = sys.argv[3:] or [f'C{i:02d}' for i in range(1, 21)]
rnd = random.Random(SEED)
ROOT = '/tmp/mutprobe'
shutil.rmtree(ROOT, ignore_errors=True)
os.makedirs(ROOT)
from pyvc.unit import find_function      # noqa: E402

LOGGY = re.compile(r'^(logger\.|logging\.|util\.(debug|info)|print\(|warnings\.warn|traceback\.print|sys\.stderr\.write)')

# function -> property to check it with
owner = {}
for pid in PROPS:
    mod = importlib.import_module('contracts.' + pid.lower())
    for u in mod.UNITS:
        f, q = getattr(u, 'file', None), getattr(u, 'qual', None)
        if not f or not q or q.startswith('lemma') or f.startswith('(') or getattr(u, 'prop', '') == 'AX':
            continue
        if not os.path.exists(os.path.join('/repo/src/mpservice', f)):
            continue
        key = (f, q)
        if key not in owner or getattr(u, 'prop', None) == pid:
            owner[key] = pid


def mutants_of(f, q):
    src = open(os.path.join('/repo/src/mpservice', f)).read()
    try:
        fn = find_function(ast.parse(src), q)
    except KeyError:
        return []
    lines = src.split('\n')
    out = []

    def seg(n):
        return ast.get_source_segment(src, n)
    body = list(fn.body)
    if body and isinstance(body[0], ast.Expr) and isinstance(body[0].value, ast.Constant) and isinstance(body[0].value.value, str):
        body = body[1:]
    nested = set()
    for x in ast.walk(fn):
        if x is not fn and isinstance(x, (ast.FunctionDef, ast.AsyncFunctionDef, ast.ClassDef, ast.Lambda)):
            nested |= {id(y) for y in ast.walk(x)}
    for x in ast.walk(fn):
        if id(x) in nested or x is fn:
            continue
        if isinstance(x, (ast.Expr, ast.Assign, ast.AugAssign, ast.Raise, ast.Return, ast.Break, ast.Continue)) and x.lineno == x.end_lineno:
            s = seg(x) or ''
            if isinstance(x, ast.Expr) and (isinstance(x.value, ast.Constant) or LOGGY.match(s)):
                continue
            if isinstance(x, ast.Return) and x.value is None:
                continue
            if isinstance(x, ast.Assign) and LOGGY.match(ast.unparse(x.value)):
                continue
            out.append(('DEL', x.lineno, x.col_offset, x.end_col_offset, 'pass', s))
            if isinstance(x, ast.Return) and not (isinstance(x.value, ast.Constant) and x.value.value is None):
                out.append(('RET', x.lineno, x.col_offset, x.end_col_offset, 'return None', s))
        if isinstance(x, (ast.If, ast.While)) and x.test.lineno == x.test.end_lineno and not (isinstance(x.test, ast.Constant)):
            t = seg(x.test)
            out.append(('NEG', x.test.lineno, x.test.col_offset, x.test.end_col_offset, f'not ({t})', t))
        if isinstance(x, ast.Compare) and len(x.ops) == 1 and x.lineno == x.end_lineno:
            swap = {ast.Eq: '!=', ast.NotEq: '==', ast.Lt: '<=', ast.LtE: '<', ast.Gt: '>=', ast.GtE: '>', ast.Is: 'is not', ast.IsNot: 'is'}.get(type(x.ops[0]))
            if swap:
                l, r = seg(x.left), seg(x.comparators[0])
                if l and r:
                    out.append(('CMP', x.lineno, x.col_offset, x.end_col_offset, f'{l} {swap} {r}', seg(x)))
    rnd.shuffle(out)
    res = []
    for kind, ln, c0, c1, new, old in out[:N]:
        line = lines[ln - 1]
        # col offsets are utf-8 byte offsets; the library's code lines are ascii where mutated (checked)
        if line[c0:c1] != (old or '')[:c1 - c0] and kind != 'DEL':
            continue
        res.append({'file': f, 'qual': q, 'kind': kind, 'line': ln, 'old': line[c0:c1], 'new': new, 'c0': c0, 'c1': c1})
    return res


todo = []
for (f, q), pid in sorted(owner.items()):
    for m in mutants_of(f, q):
        m['property'] = pid
        m['id'] = len(todo)
        todo.append(m)
print(f'{len(owner)} functions under contract, {len(todo)} mutants', flush=True)


def run(m):
    root = f'{ROOT}/m{m["id"]}'
    shutil.copytree('/repo/src', root + '/src')
    p = f'{root}/src/mpservice/{m["file"]}'
    lines = open(p).read().split('\n')
    ln = m['line'] - 1
    lines[ln] = lines[ln][:m['c0']] + m['new'] + lines[ln][m['c1']:]
    open(p, 'w').write('\n'.join(lines))
    if subprocess.run(['/venv/bin/python', '-m', 'py_compile', p], capture_output=True).returncode != 0:
        shutil.rmtree(root, ignore_errors=True)
        m['outcome'] = 'does-not-compile'
        return m
    env = dict(os.environ, PYVC_REPO_SRC=root + '/src/mpservice', PYVC_EVIDENCE_DIR=root + '/ev')
    try:
        r = subprocess.run(['python3-vt', '-m', 'pyvc.check', m['property'], '--tier', 'quick'], capture_output=True, text=True, cwd=HERE, env=env, timeout=1200)
        o, rc = r.stdout + r.stderr, r.returncode
    except subprocess.TimeoutExpired:
        o, rc = 'timeout', 124
    shutil.rmtree(root, ignore_errors=True)
    m['exit'] = rc
    m['outcome'] = {0: 'SURVIVED', 1: 'killed', 2: 'undecided', 3: 'engine-error'}.get(rc, f'exit {rc}')
    m['by'] = (re.findall(r'(?:FAILED obligation: .*|UNDECIDED .*|ENGINE-ERROR .*|runtime scenario .* FAILS.*)', o) or [''])[0][:160]
    return m


counts = {}
with ThreadPoolExecutor(int(os.environ.get('MUT_JOBS', '10'))) as ex, open(f'{ROOT}/report.jsonl', 'w') as rep:
    for m in ex.map(run, todo):
        counts[m['outcome']] = counts.get(m['outcome'], 0) + 1
        rep.write(json.dumps(m) + '\n')
        rep.flush()
        if m['outcome'] != 'killed':
            print(f"{m['outcome']:>16} {m['property']} {m['file']}:{m['line']} {m['qual']} [{m['kind']}] `{m['old'][:60]}` -> `{m['new'][:60]}`  {m.get('by', '')[:100]}", flush=True)
print('TOTAL', counts, flush=True)
