"""Confirm one seeded change in a scratch worktree and store it under /verif/seeded/<id>/.

usage: python3 tools/confirm_seed.py <PID> <n> <patch.diff> <demo.py> <notes.md>

Steps (all on a scratch `git worktree` of /repo's HEAD under /tmp, removed afterwards):
  1. the patch applies and every touched file compiles;
  2. the demonstration exits 0 on the clean tree and non-zero on the patched tree (twice each);
  3. the existing tests of the touched modules still pass on the patched tree (a failing test is re-run alone once:
     the suite has load-dependent timing tests);
  4. the /verif check of the property is run against the patched tree (PYVC_REPO_SRC) -- quick tier -- and its verdict recorded.
Writes seeded/<id>/{patch.diff,demo.py,meta.json}; prints one summary line."""
import json, os, re, shutil, subprocess, sys, time

PID, n, patch, demo, notes = sys.argv[1:6]
pn = sys.argv[6] if len(sys.argv) > 6 else n          # number of the patch in the agent's notes (patch1 / patch2)
rnd = sys.argv[7] if len(sys.argv) > 7 else ''
sid = f'{PID}-{n}'
wt = f'/tmp/wt/{sid}'
out = f'/verif/seeded/{sid}'
PY = '/venv/bin/python'

TESTS = [
    ('streamer/', ['tests/test_streamer.py', 'tests/test_streamer_async.py']),
    ('mpserver/', ['tests/test_mpserver.py']),
    ('multiprocessing/context.py', ['tests/test_multiprocessing.py', 'tests/test_multiprocessing_logger.py']),
    ('multiprocessing/server_process.py', ['tests/test_multiprocessing_serverprocess.py']),
    ('multiprocessing/remote_exception.py', ['tests/test_multiprocessing_remoteexception.py', 'tests/test_multiprocessing.py']),
    ('multiprocessing/', ['tests/test_multiprocessing.py']),
    ('_queues.py', ['tests/test_queue.py', 'tests/test_mpserver.py']),
    ('queue.py', ['tests/test_queue.py']),
    ('socket.py', ['tests/test_socket.py', 'tests/test_pipe.py']),
    ('pipe.py', ['tests/test_pipe.py']),
    ('threading/', ['tests/test_threading.py']),
    ('concurrent/', ['tests/test_concurent_futures.py', 'tests/test_streamer.py']),
]


def sh(cmd, timeout=1800, **kw):
    try:
        p = subprocess.run(cmd, shell=True, capture_output=True, text=True, timeout=timeout, **kw)
        return p.returncode, (p.stdout + p.stderr)
    except subprocess.TimeoutExpired:
        return 124, 'timeout'


meta = {'id': sid, 'property': PID, 'source': f'sub-agent seed {n} for {PID}{(" (round " + rnd + ", patch" + pn + ")") if rnd else ""} (given only the property text and a scratch worktree)', 'ran': []}
os.makedirs('/tmp/wt', exist_ok=True)
sh(f'git -C /repo worktree remove --force {wt}')
rc, o = sh(f'git -C /repo worktree add --detach {wt} HEAD')
assert rc == 0, o
try:
    rc, o = sh(f'git -C {wt} apply {patch}')
    meta['applies'] = rc == 0
    if rc != 0:
        meta['verdict'] = 'dropped: does not apply to the current HEAD (the lines were changed by a later fix commit)'
        print(sid, meta['verdict'])
        sys.exit(0)
    files = re.findall(r'^\+\+\+ b/(\S+)', open(patch).read(), re.M)
    meta['files'] = files
    rc, o = sh(f'{PY} -m py_compile ' + ' '.join(os.path.join(wt, f) for f in files))
    meta['compiles'] = rc == 0
    # demo: clean vs patched
    res = {}
    for label, src in (('clean', '/repo/src'), ('patched', f'{wt}/src')):
        rcs = []
        for i in range(2):
            rc, o = sh(f'cd /tmp && PYTHONPATH={src} timeout 300 {PY} {demo}', timeout=330)
            rcs.append(rc)
            if label == 'patched' and rc != 0:
                meta['demo_output_patched'] = o[-1200:]
        res[label] = rcs
    meta['demo_exit_codes'] = res
    meta['ran'].append(f'PYTHONPATH=<tree>/src {PY} demo.py  (clean: {res["clean"]}, patched: {res["patched"]})')
    demo_ok = all(r == 0 for r in res['clean']) and any(r != 0 for r in res['patched'])
    # tests of the touched modules on the patched tree
    tests = []
    for f in files:
        for frag, ts in TESTS:
            if frag in f:
                for t in ts:
                    if t not in tests:
                        tests.append(t)
                break
    sh('rm -rf /tmp/test /tmp/sock_abc')
    cmd = f'cd {wt} && PYTHONPATH={wt}/src timeout 1500 {PY} -m pytest -q -p no:cacheprovider --timeout=300 -x --deselect tests/test_http.py::test_server --deselect tests/test_streamer.py::test_eager_batcher --deselect tests/test_docs.py::test_docs --deselect tests/test_multiprocessing_serverprocess.py::test_concurrency ' + ' '.join(tests)
    cmd = cmd.replace(' -x ', ' ')
    t0 = time.time()
    rc, o = sh(cmd, timeout=1600)
    failed = re.findall(r'^FAILED (\S+)', o, re.M)
    still = []
    for t in failed:
        rc2, o2 = sh(f'cd {wt} && PYTHONPATH={wt}/src timeout 600 {PY} -m pytest -q -p no:cacheprovider --timeout=300 "{t}"', timeout=700)
        if rc2 != 0:
            rc3, o3 = sh(f'cd {wt} && PYTHONPATH={wt}/src timeout 600 {PY} -m pytest -q -p no:cacheprovider --timeout=300 "{t}"', timeout=700)
            if rc3 != 0:
                still.append(t)
    summary = (re.findall(r'^(=+ .*(?:passed|failed).* =+)$', o, re.M) or [o[-200:]])[-1]
    meta['tests'] = {'files': tests, 'summary': summary.strip('= '), 'failed_first_run': failed, 'failed_after_rerun_alone': still, 'wall_s': round(time.time() - t0)}
    meta['ran'].append(f'pytest {" ".join(tests)} on the patched tree: {summary.strip("= ")}' + (f'; re-run alone: {failed} -> still failing {still}' if failed else ''))
    tests_ok = not still and rc != 124
    # the check
    rc, o = sh(f'cd /verif && PYVC_REPO_SRC={wt}/src/mpservice PYVC_EVIDENCE_DIR=/tmp/wt/evidence-{sid} python3-vt -m pyvc.check {PID} --tier quick', timeout=1500)
    viol = re.findall(r'^VIOLATION .*$', o, re.M)
    failed_obls = re.findall(r'FAILED obligation: (.*)$', o, re.M)
    meta['check'] = {'cmd': f'python3-vt -m pyvc.check {PID} --tier quick', 'exit': rc, 'violations': len(viol), 'replayed_on_real_code': sum(1 for v in viol if 'no-failing-input-found' not in v),
                     'failed_obligations': failed_obls[:4], 'by_runtime_scenario': bool(re.search(r'runtime scenario', o))}
    meta['ran'].append(f'python3-vt -m pyvc.check {PID} --tier quick against the patched tree: exit {rc}, {len(viol)} VIOLATION line(s)')
    meta['verdict'] = 'kept' if (demo_ok and tests_ok and meta['compiles']) else 'dropped: ' + ', '.join(x for x, ok in (('demo does not separate clean from patched', demo_ok), ('existing tests fail', tests_ok), ('does not compile', meta['compiles'])) if not ok)
    # what it needs to manifest: the agent's own words from notes.md (section of this patch)
    txt = open(notes).read()
    m = re.search(r'(?is)(needs[^\n]*manifest.*?)(?:\n\s*\n|\Z)', txt.split(f'patch{pn}', 1)[-1])
    meta['needs_to_manifest'] = re.sub(r'\s+', ' ', m.group(1)).strip()[:900] if m else 'see notes.md'
    if meta['verdict'] == 'kept':
        os.makedirs(out, exist_ok=True)
        shutil.copy(patch, f'{out}/patch.diff')
        shutil.copy(demo, f'{out}/demo.py')
        shutil.copy(notes, f'{out}/notes.md')
        json.dump(meta, open(f'{out}/meta.json', 'w'), indent=1)
    else:
        os.makedirs('/verif/seeded/_dropped', exist_ok=True)
        json.dump(meta, open(f'/verif/seeded/_dropped/{sid}.json', 'w'), indent=1)
    print(sid, meta['verdict'], '| demo', res, '| tests', meta['tests']['summary'], still, '| check exit', meta['check']['exit'], 'replayed', meta['check']['replayed_on_real_code'])
finally:
    sh(f'git -C /repo worktree remove --force {wt}')
    shutil.rmtree(wt, ignore_errors=True)
