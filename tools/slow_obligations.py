"""List, from the evidence of the last run of every property, the obligations that took more than a threshold (default 500 ms) or were not decided by the first
solver -- the early warning for an erratic query (DESIGN 8.18).   usage: python3 tools/slow_obligations.py [ms] [evidence dir]"""
import glob, json, os, sys

HERE = os.path.dirname(os.path.dirname(os.path.abspath(__file__)))
limit = float(sys.argv[1]) if len(sys.argv) > 1 else 500.0
evdir = sys.argv[2] if len(sys.argv) > 2 else os.path.join(HERE, 'evidence')
rows = []
for f in sorted(glob.glob(os.path.join(evdir, 'C*.json'))):
    d = json.load(open(f))
    for o in d['coverage'].get('obligation_list', ()):
        b = str(o.get('backend', ''))
        if o.get('ms', 0) > limit or 'after unknown' in b or 'portfolio' in b:
            rows.append((round(o.get('ms', 0)), d['property_id'], d.get('tier'), o['name'][:120], b[:70]))
for r in sorted(set(rows), reverse=True):
    print(*r, sep=' | ')
print(f'{len(set(rows))} obligation(s) above {limit:.0f} ms or past the first solver, in {evdir}')
sys.exit(1 if rows else 0)
