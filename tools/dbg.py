"""debug helper: python3-vt tools/dbg.py <contracts module> [UnitClass ...] -- run units, print obligations and results with tracebacks"""
import sys, traceback
sys.path.insert(0, '/verif')
import importlib, z3
from pyvc.core import Exec
from pyvc.unit import strip_docstring, LemmaUnit
from pyvc import solve
mod = importlib.import_module('contracts.' + sys.argv[1])
want = sys.argv[2:]
for U in mod.UNITS:
    if want and U.__name__ not in want:
        continue
    u = U()
    try:
        r = u.run()
    except Exception:
        traceback.print_exc()
        continue
    print(f'== {u.name}: {r["status"]} {r["error"] or ""} paths={r["paths"]}')
    if r['status'] != 'ok' and not isinstance(u, LemmaUnit) and hasattr(u, 'setup'):
        try:
            fn, sha, seg = u.load()
            ex = Exec(fn, u); u.ex = ex
            st = u.setup(ex)
            outs = ex.block(strip_docstring(fn), st)
            u.post(ex, outs)
        except Exception:
            traceback.print_exc()
    obs = r['obligations']
    bad = [o for o in obs if not (z3.is_expr(o.goal) and z3.is_bool(o.goal))]
    for o in bad:
        print('   NON-BOOL GOAL', o.name[:100], type(o.goal), o.goal)
    obs = [o for o in obs if o not in bad]
    solve.discharge(obs, 10000, 4, False)
    for o in obs:
        if o.result != 'discharged':
            print('  ', o.result, o.name[:160], getattr(o, 'model', None) and dict(list(o.model.items())[:8]))
