"""Buffer / AsyncBuffer / SyncIter: producer thread + consumer generator + finalizer (C03 identity, C05 clean end, C08 look-ahead).

Item protocol on the hand-off queue (index k): src_at(k) for k below the terminal index; then either FINISHED (source
exhausted after exactly k elements, or a stop flag was seen) or STOPPED followed by the exception that ended the source.
Assumption: stream elements are not equal to the two sentinel strings."""
import ast
import z3

from pyvc import vals as V
from pyvc.vals import Val, SeqV, NONE, fresh, PyTuple
from pyvc.unit import Unit, LoopSpec, LemmaUnit
from pyvc.models import (Source, Rec, Fn, Nop, Event, QueueWriter, QueueReader, ThreadCtor, ThreadObj)
from pyvc.core import St, Module, box, Unsupported, Closure, Obj, unbox_handle, BoundMethod, as_int
from contracts.fifo import NamedSource, src_at, is_failure

FS = 'streamer/_streamer.py'
FA = 'streamer/_streamer_async.py'
FINISHED = V.strv(z3.StringVal('8d906c4b-1161-40cc-b585-7cfb012bca26'))
STOPPED = V.strv(z3.StringVal('ceccca5e-9bb2-46c3-a5ad-29b3ba00ad3e'))
BFAIL = z3.Const('buffer_source_failure', Val)


def not_sentinel(x):
    return [x != FINISHED, x != STOPPED]


def set_sentinel_globals(ex):
    ex.globals['FINISHED'] = z3.StringVal('8d906c4b-1161-40cc-b585-7cfb012bca26')
    ex.globals['STOPPED'] = z3.StringVal('ceccca5e-9bb2-46c3-a5ad-29b3ba00ad3e')


# ================================================================ producer
class RunWorker(Unit):
    prop = 'C05'
    file = FS
    qual = 'Buffer._run_worker'
    qfield = '_tasks'
    stopfield = '_stopped'
    has_extern = True
    stop_stable = False          # variant: the stop flag is already set and stays set (termination of the worker under stop)
    expected_exits = ('normal',)
    canaries = (
        ('StopRequested not forwarded (pinned-tree defect)', 'except (Exception, StopRequested) as e:', 'except Exception as e:', 'never Exception/StopRequested'),
        ('exception put without the STOPPED marker', '            q.put(STOPPED)\n            q.put(e)', '            q.put(e)', 'item protocol'),
        ('FINISHED missing', '            q.put(FINISHED)', '            pass', 'terminal'),
        ('element dropped when the queue is busy', '                q.put(x)  # if `q` is full, will wait here', '                if not q.full():\n                    q.put(x)', ''),
    )

    def __init__(self):
        v = []
        if not self.has_extern:
            v.append('no-extern')
        if self.stop_stable:
            v.append('under-stop')
        if v:
            self.variant = ','.join(v)
        super().__init__()

    def setup(self, ex):
        st = St()
        self.src = NamedSource(ex, 'src', may_raise=('Exception', 'StopRequested'), elem_facts=not_sentinel)
        self.src.init(st)
        self.q = QueueWriter(ex, 'q')
        self.q.init(st)
        self.stopped = Event(ex, 'stopped')
        self.stopped.init(st, is_set=self.stop_stable)
        self.extern = Event(ex, 'extern_stopped')
        self.extern.init(st)
        fields = {'_instream': self.src, self.qfield: self.q, self.stopfield: self.stopped,
                  '_externally_stopped': (self.extern if self.has_extern else NONE)}
        self.me = Rec(ex, 'self', immutable=True).init(st, **fields)
        st.env['self'] = self.me
        st.cells['self'] = self.me
        st.ghost['term'] = z3.BoolVal(False)
        st.ghost['stopped_phase'] = z3.BoolVal(False)
        set_sentinel_globals(ex)
        self.extra_setup(ex, st)
        return st

    def extra_setup(self, ex, st):
        pass

    def stop_seen(self, st):
        return z3.Or(self.stopped.get(st, 'flag'), self.extern.get(st, 'flag'))

    def on_put(self, ex, st, q, k, item, node):
        z = box(ex, item)
        seen = self.src.seen(st)
        term, sp = st.ghost['term'], st.ghost['stopped_phase']
        ex.oblige(st, f'line {node.lineno}: nothing is put after the terminal item [S3]', z3.Not(term))
        is_elem = z3.And(z3.Not(sp), z == src_at(k), k == z3.Length(seen) - 1, z != FINISHED, z != STOPPED)
        is_fin = z3.And(z3.Not(sp), z == FINISHED, z3.Or(z3.And(self.src.done(st), z3.Length(seen) == k), self.stop_seen(st)))
        is_stop = z3.And(z3.Not(sp), z == STOPPED, self.src.failed(st), z3.Length(seen) == k)
        is_exc = z3.And(sp, is_failure(z), z == st.ghost.get('src.error', z))
        ex.oblige(st, f'line {node.lineno}: item protocol: the k-th source element, or FINISHED (exhausted after exactly k elements / stop seen), or STOPPED followed by the source\'s own exception',
                  z3.Or(is_elem, is_fin, is_stop, is_exc))
        st.assume(z3.Implies(is_exc, BFAIL == z))
        st.ghost['term'] = z3.Or(z == FINISHED, sp)
        st.ghost['stopped_phase'] = z3.And(z3.Not(sp), z == STOPPED)

    @property
    def loops(self):
        def inv(s, ex):
            return z3.And(z3.Not(self.src.done(s)), z3.Not(self.src.failed(s)), self.q.nput(s) == z3.Length(self.src.seen(s)),
                          z3.Not(s.ghost['term']), z3.Not(s.ghost['stopped_phase']))

        def head(h, ex):
            h.ghost['#nput_head'] = self.q.nput(h)
        sp = LoopSpec(inv=inv, at_head=head)
        if self.stop_stable:
            sp.on_backedge = lambda s, ex: ex.oblige(s, 'under stop: no further iteration once the stop flag is set (the worker ends)', False)
        return {0: sp}

    def post(self, ex, outs):
        for k, s, p in outs:
            if k in ('normal', 'return'):
                ex.oblige(s, 'exit: a terminal item (FINISHED, or STOPPED + exception) was put last, exactly once [S3]', s.ghost['term'])
                kinds = {b[1].split()[0] for b in s.ghost.get('#blocking', ())}
                ex.oblige(s, 'exit: the only blocking actions of the worker are puts on the hand-off queue (which the finalizer keeps draining) [E3]',
                          z3.BoolVal(kinds <= {'put'}))
                if self.stop_stable and '#nput_head' in s.ghost:
                    ex.oblige(s, 'under stop: at most 2 more puts after the flag is seen (FINISHED, or STOPPED + exception)',
                              self.q.nput(s) - s.ghost['#nput_head'] <= 2)
            else:
                ex.oblige(s, 'exit(raise): the worker lets only non-stream failures escape, never Exception/StopRequested (the consumer would wait forever)',
                          z3.Not(is_failure(p)))


class RunWorkerNoExtern(RunWorker):
    has_extern = False
    canaries = ()


class RunWorkerUnderStop(RunWorker):
    stop_stable = True
    canaries = (('stop flag ignored by the worker', '                if stopped.is_set():\n                    break', '                if stopped.is_set():\n                    pass', 'no further iteration'),)
    expected_exits = ('normal',)


# ================================================================ consumer
class BufIter(Unit):
    prop = 'C05'
    file = FS
    qual = 'Buffer.__iter__'
    consumer_may_stop = True
    expected_exits = ('normal', 'raise')
    assumed_contracts = ('self._start(): unit Buffer._start', 'self._finalize(): unit Buffer._finalize', 'producer guarantee: unit Buffer._run_worker')
    canaries = (
        ('finalizer not run on early exit', '        finally:\n            self._finalize()', '        finally:\n            pass', 'finalizer ran'),
        ('sentinel yielded as data', '                if z == finished:\n                    break', '                if z == finished:\n                    yield z\n                    break', ''),
        ('element dropped', '                yield z', '                pass', ''),
        ('failure swallowed', '                    raise tasks.get()', '                    break', ''),
    )

    def setup(self, ex):
        st = St()
        self.q = QueueReader(ex, 'q')
        self.q.init(st)
        st.ghost['nyield'] = z3.IntVal(0)
        st.ghost['term_got'] = z3.BoolVal(False)
        st.ghost['stopped_got'] = z3.BoolVal(False)
        st.ghost['fin_got'] = z3.BoolVal(False)
        st.ghost['term_index'] = z3.IntVal(-1)
        st.ghost['started'] = z3.BoolVal(False)
        st.ghost['finalized'] = z3.BoolVal(False)
        st.ghost['src_exhausted'] = z3.Bool('src_exhausted')
        st.ghost['n_pulled'] = z3.Int('n_pulled')
        st.ghost['stop_flag'] = z3.BoolVal(False)       # only _finalize (this role) sets self._stopped; no external stop event in this unit
        self.me = Rec(ex, 'self', methods={'_start': Fn(self.start_contract), '_finalize': Fn(self.finalize_contract)})
        self.me.init(st)
        st.env['self'] = self.me
        set_sentinel_globals(ex)
        return st

    def start_contract(self, ex, st, args, kwargs, node):
        st = st.fork()
        ex.oblige(st, f'line {node.lineno}: _start() is called once', z3.Not(st.ghost['started']))
        st.ghost['started'] = z3.BoolVal(True)
        self.me.set(st, '_tasks', self.q)
        # the worker thread handle (Buffer._start sets it): it may end at any moment after its terminal put -- is_alive() is volatile
        self.me.set(st, '_worker', Rec(ex, 'worker', immutable=True, methods={'is_alive': Fn(lambda e, s, a, k, n: [('ok', s, fresh('worker_alive', z3.BoolSort()))])}))
        return [('ok', st, NONE)]

    def finalize_contract(self, ex, st, args, kwargs, node):
        st = st.fork()
        st.ghost['finalized'] = z3.BoolVal(True)
        st.ghost['stop_flag'] = z3.BoolVal(True)
        return [('ok', st, NONE)]

    def on_get(self, ex, st, q, k, z, node):
        ex.oblige(st, f'line {node.lineno}: no get after the terminal item (it would block forever)', z3.Not(st.ghost['term_got']))
        ex.oblige(st, f'line {node.lineno}: the queue is read only after the worker was started', st.ghost['started'])
        outs = []
        sp = st.ghost['stopped_got']
        s1 = st.fork().assume(z3.Not(sp), z == src_at(k), z != FINISHED, z != STOPPED)
        outs.append(s1)
        s2 = st.fork().assume(z3.Not(sp), z == FINISHED, z3.Or(z3.And(st.ghost['src_exhausted'], st.ghost['n_pulled'] == k), st.ghost['stop_flag']))
        s2.ghost['term_got'] = z3.BoolVal(True)
        s2.ghost['fin_got'] = z3.BoolVal(True)
        s2.ghost['term_index'] = k
        outs.append(s2)
        s3 = st.fork().assume(z3.Not(sp), z == STOPPED)
        s3.ghost['stopped_got'] = z3.BoolVal(True)
        s3.ghost['term_index'] = k
        outs.append(s3)
        s4 = st.fork().assume(sp, is_failure(z), z == BFAIL, *V.cls_facts(z))
        s4.ghost['term_got'] = z3.BoolVal(True)
        outs.append(s4)
        return outs

    def on_yield(self, ex, st, val, node):
        k = self.q.nget(st) - 1
        n = st.ghost['nyield']
        ex.oblige(st, f'line {node.lineno}: output #k is the k-th source element, each exactly once and in order (identity)', z3.And(n == k, val == src_at(k)))
        ex.oblige(st, f'line {node.lineno}: [C08] at most one element has been taken off the queue but not yet handed to the consumer', self.q.nget(st) - n <= 1)
        st.ghost['nyield'] = n + 1

    @property
    def loops(self):
        def inv(s, ex):
            return z3.And(self.q.nget(s) == s.ghost['nyield'], z3.Not(s.ghost['term_got']), z3.Not(s.ghost['stopped_got']), s.ghost['started'],
                          z3.Not(s.ghost['finalized']), z3.Not(s.ghost['stop_flag']), z3.BoolVal(self.me.has(s, '_tasks')))
        return {0: LoopSpec(inv=inv, keep=('tasks', 'finished', 'stopped'))}

    def post(self, ex, outs):
        for k, s, p in outs:
            ex.oblige(s, f'exit({k}): the finalizer ran (stop flag set, queue drained, worker joined: unit _finalize) [C05]', s.ghost['finalized'])
            if k in ('normal', 'return'):
                ex.oblige(s, 'exit(exhausted): FINISHED was received after exactly #outputs elements == all elements of the source',
                          z3.And(s.ghost['fin_got'], s.ghost['nyield'] == s.ghost['term_index'], s.ghost['src_exhausted'], s.ghost['n_pulled'] == s.ghost['nyield']))
            elif k == 'raise':
                ex.oblige(s, 'exit(raise): the source\'s own failure, raised once after all earlier outputs; or the consumer stopped',
                          z3.Or(z3.And(p == BFAIL, s.ghost['nyield'] == s.ghost['term_index'], s.ghost['term_got']), V.isinst(p, 'GeneratorExit')))


# ================================================================ start / finalize
class BufStart(Unit):
    prop = 'C05'
    file = FS
    qual = 'Buffer._start'
    worker_attr = '_worker'
    target_name = '_run_worker'
    canaries = (('queue not bounded by maxsize', 'SingleLane(self.maxsize)', 'SingleLane()', 'bounded by maxsize'),
                ('queue one larger', 'SingleLane(self.maxsize)', 'SingleLane(self.maxsize + 1)', 'bounded by maxsize'),
                ('thread not started', '        self._worker.start()', '        pass', 'started'))

    def setup(self, ex):
        st = St()
        self.maxsize = z3.Int('maxsize')
        st.assume(self.maxsize >= 1, self.maxsize <= 10000)
        self.target = Fn(lambda e, s, a, k, n: [('ok', s, NONE)], name='target')
        self.me = Rec(ex, 'self', methods={self.target_name: self.target}).init(st, maxsize=self.maxsize)
        st.env['self'] = self.me
        self.made = {}

        def mkq(e, s, a, k, n):
            q = QueueReader(e, 'q', maxsize=a[0] if a else None)
            s = s.fork()
            q.init(s)
            self.made.setdefault('queues', []).append(q)
            return [('ok', s, q)]

        def mkev(e, s, a, k, n):
            ev = Event(e, 'stopped')
            s = s.fork()
            ev.init(s)
            self.made.setdefault('events', []).append(ev)
            return [('ok', s, ev)]
        ex.globals['SingleLane'] = Fn(mkq, name='SingleLane')
        ex.globals['queue.Queue'] = Fn(mkq, name='queue.Queue')
        ex.globals['threading.Event'] = Fn(mkev, name='threading.Event')
        ex.globals['Thread'] = ThreadCtor()
        return st

    bound = None

    def post(self, ex, outs):
        for k, s, p in outs:
            if k in ('normal', 'return'):
                th = [o for o in ex.objs.values() if isinstance(o, ThreadObj)]
                qs, evs = self.made.get('queues', []), self.made.get('events', [])
                ok = len(th) == 1 and len(qs) == 1 and len(evs) == 1 and th[0].target is self.target
                bound = self.bound if self.bound is not None else self.maxsize
                ex.oblige(s, 'exit: one stop flag (clear), one hand-off queue bounded by maxsize [C08], one worker thread running self.' + self.target_name + ', started',
                          z3.And(z3.BoolVal(ok), th[0].get(s, 'started'), z3.Not(evs[0].get(s, 'flag')),
                                 as_int(ex, s, qs[0].maxsize) == bound if qs[0].maxsize is not None else z3.BoolVal(False),
                                 z3.BoolVal(self.me.get(s, self.worker_attr) is th[0])) if ok else z3.BoolVal(False))
            else:
                ex.oblige(s, 'exit: does not raise', False)


class BufFinalize(Unit):
    prop = 'C05'
    file = FS
    qual = 'Buffer._finalize'
    worker_attr = '_worker'
    qfield = '_tasks'
    active = True
    canaries = (
        ('pinned-tree defect: drain once, then join', '        while self._worker.is_alive():', '        while not tasks.empty():', 'cannot block'),
        ('stop flag not set', '        self._stopped.set()', '        pass', 'stop flag'),
        ('worker not joined', '        self._worker.join()', '        pass', 'joined'),
    )

    def __init__(self):
        if not self.active:
            self.variant = 'already-finalized'
        super().__init__()

    def setup(self, ex):
        st = St()
        self.q = QueueReader(ex, 'q')
        self.q.init(st)
        self.stopped = Event(ex, 'stopped')
        self.stopped.init(st)
        self.worker = ThreadObj(ex, None, None, None, None)
        self.worker.init(st)
        self.worker.set(st, 'started', z3.BoolVal(True))
        st.ghost['known_dead'] = z3.BoolVal(False)
        self.me = Rec(ex, 'self').init(st, **{'_stopped': (self.stopped if self.active else NONE), self.qfield: self.q, self.worker_attr: self.worker})
        st.env['self'] = self.me
        return st

    def on_get(self, ex, st, q, k, z, node):
        return [st.fork()]          # whatever the worker still had to put; the finalizer discards it

    def on_is_alive(self, ex, st, t, node):
        b = fresh('alive', z3.BoolSort())
        st = st.fork()
        st.assume(z3.Implies(st.ghost['known_dead'], z3.Not(b)))      # a thread that has ended stays ended
        st.ghost['known_dead'] = z3.Not(b)
        return [('ok', st, b)]

    def on_thread_join(self, ex, st, t, node):
        ex.oblige(st, f'line {node.lineno}: join() cannot block: the worker is known to have ended (the drain loop re-checks is_alive with timed gets) [E3/S1]', st.ghost['known_dead'])
        return None

    @property
    def loops(self):
        return {0: LoopSpec(inv=lambda s, ex: self.stopped.get(s, 'flag'), keep_ghost=())}

    def post(self, ex, outs):
        for k, s, p in outs:
            if k in ('normal', 'return'):
                if not self.active:
                    ex.oblige(s, 'exit(already finalized): nothing is done', z3.Not(self.worker.get(s, 'joined')))
                    continue
                ex.oblige(s, 'exit: the stop flag was set, the worker thread has been joined, and the object is marked finalized',
                          z3.And(self.stopped.get(s, 'flag'), self.worker.get(s, 'joined'), box(ex, self.me.get(s, '_stopped')) == NONE))
                kinds = {b[1] for b in s.ghost.get('#blocking', ())}
                ex.oblige(s, 'exit: the finalizer performs no untimed queue operation (only timed gets and the final join)', z3.BoolVal(kinds <= {'join thread'}))
            else:
                ex.oblige(s, 'exit: does not raise', False)


class BufFinalizeNoop(BufFinalize):
    active = False
    canaries = ()


# ================================================================ async counterparts / adapters (same contracts, other function names)
class ARunWorker(RunWorker):
    file = FA
    qual = 'AsyncBuffer._run_worker.<locals>.main'
    canaries = ()


class ARunWorkerUnderStop(RunWorkerUnderStop):
    file = FA
    qual = 'AsyncBuffer._run_worker.<locals>.main'
    canaries = ()


class ABufStart(BufStart):
    file = FA
    qual = 'AsyncBuffer._start'
    canaries = ()


class ABufFinalize(BufFinalize):
    file = FA
    qual = 'AsyncBuffer._finalize'
    canaries = (('pinned-tree defect: drain once, then join', '        while self._worker.is_alive():', '        while not tasks.empty():', 'cannot block'),)


class ABufIter(BufIter):
    file = FA
    qual = 'AsyncBuffer.__aiter__'
    canaries = (('forwarded failure fetched without waiting for it', 'raise tasks.get()', 'raise tasks.get_nowait()', ''),)
    ignore_calls = ('asyncio.sleep',)

    @property
    def loops(self):
        base = super().loops
        return base


class SyncIterWorker(RunWorker):
    file = FA
    qual = 'SyncIter._worker.<locals>.main'
    qfield = '_q'
    has_extern = False
    canaries = ()

    def extra_setup(self, ex, st):
        # the worker's own drain `while True: q.get_nowait()` on stop: reads as a consumer of its own queue
        pass


class SyncIterStart(BufStart):
    file = FA
    qual = 'SyncIter._start'
    worker_attr = '_worker_thread'
    target_name = '_worker'
    canaries = ()

    def setup(self, ex):
        st = super().setup(ex)
        self.bound = z3.IntVal(2)
        return st


class SyncIterFinalize(BufFinalize):
    file = FA
    qual = 'SyncIter._finalize'
    worker_attr = '_worker_thread'
    qfield = '_q'
    canaries = (('pinned-tree defect: join without draining', '        while self._worker_thread.is_alive():', '        while False:', 'cannot block'),)


class ABufFinalizeNoop(ABufFinalize):
    active = False
    canaries = ()


class SyncIterFinalizeNoop(SyncIterFinalize):
    active = False
    canaries = ()



# ================================================================ AsyncIter (sync source consumed from async code) and the thread entry points
class AsyncIterIter(Unit):
    """AsyncIter.__aiter__ over a sync source: every element, in order, exactly once -- each obtained by next(instream, FINISHED) on the loop's default executor
    (one call at a time, awaited before the next) -- and the stream ends when the source is exhausted; the source's exception propagates after the elements
    before it.  (Precondition, as everywhere: no element equals the internal sentinel.)"""
    prop = 'C05'
    file = FA
    qual = 'AsyncIter.__aiter__'
    unreachable_ok = ('async for x in self._instream:', 'yield x\n')
    canaries = (('element after a falsy one dropped', '                if x == finished:  # `instream_` exhausted\n                    break', '                if not x or x == finished:\n                    break', ''),
                ('an element is skipped', '                    break\n                yield x', '                    break\n                x = await loop.run_in_executor(None, next, instream, finished)\n                yield x', ''))

    def setup(self, ex):
        st = St()
        from contracts.fifo import NamedSource, src_at
        self.src_at = src_at
        self.src = NamedSource(ex, 'src', may_raise=('Exception',))
        self.src.init(st)
        st.env['self'] = Rec(ex, 'self', immutable=True).init(st, _instream=self.src)
        st.ghost['out'] = V.EMPTY
        set_sentinel_globals(ex)
        ex.globals['isasynciterable'] = Fn(lambda e, s, a, k, n: [('ok', s, z3.BoolVal(False))])
        ex.globals['iter'] = Fn(lambda e, s, a, k, n: [('ok', s, unbox_handle(e, a[0]))])
        unit = self

        def run_in_executor(e, s, a, k, n):
            # loop.run_in_executor(None, next, instream, finished): the awaited outcome of next(instream, finished)
            ok = len(a) == 4 and unbox_handle(e, a[2]) is unit.src
            e.oblige(s, f'line {n.lineno}: the element is obtained by next(<the source iterator>, FINISHED) on the default executor', z3.And(z3.BoolVal(bool(ok)), box(e, a[0]) == NONE, box(e, a[3]) == FINISHED) if ok else z3.BoolVal(False))
            res = []
            for kind, s1, x in unit.src.pull(e, s, n):
                if kind == 'stop':
                    res.append(('ok', s1, FINISHED))
                elif kind == 'raise':
                    res.append(('raise', s1, x))
                else:
                    s1.assume(*not_sentinel(x))
                    res.append(('ok', s1, x))
            return res
        ex.globals['asyncio.get_running_loop'] = Fn(lambda e, s, a, k, n: [('ok', s, Rec(e, 'loop', immutable=True, methods={'run_in_executor': Fn(run_in_executor)}))])
        ex.globals['next'] = z3.Const('builtin_next', Val)
        return st

    @property
    def loops(self):
        return {1: LoopSpec(inv=lambda s, ex: z3.And(s.ghost['out'] == self.src.seen(s), z3.Not(self.src.done(s)), z3.Not(self.src.failed(s))), keep=('loop', 'instream', 'finished'))}

    def on_yield(self, ex, st, val, node):
        st.ghost['out'] = z3.Concat(st.ghost['out'], z3.Unit(val))
        ex.oblige(st, f'line {node.lineno}: the outputs so far are exactly the elements pulled so far (identity, in order, no look-ahead)', st.ghost['out'] == self.src.seen(st))

    def post(self, ex, outs):
        for k, s, p in outs:
            if k in ('normal', 'return'):
                ex.oblige(s, 'exit: the source is exhausted and every element was yielded, in order, exactly once', z3.And(self.src.done(s), s.ghost['out'] == self.src.seen(s)))
            else:
                ex.oblige(s, 'exit(raise): only the source\'s own exception, after all the elements before it', z3.And(self.src.failed(s), s.ghost['out'] == self.src.seen(s)))


def runs_main(qual_, file_):
    class U(Unit):
        """the worker thread's entry point: runs the local coroutine main() to completion on a fresh event loop, once, and -- before the thread ends --
        finalizes the async generators main() left suspended (an early stop leaves `async for x in self._instream` suspended inside the upstream
        generators: their `finally` blocks -- which stop and join THEIR helper threads -- only run when the loop shuts its async generators down).
        asyncio.run does both; a hand-made loop must run loop.shutdown_asyncgens() to completion after main() and before close()."""
        prop = 'C05'
        file = file_
        qual = qual_
        coroutines_are_objects = True
        inlined_defs = ()
        canaries = (('worker coroutine never run', '        asyncio.run(main())', '        pass', ''),
                    ('upstream async generators never finalized (their helper threads leak)', '        asyncio.run(main())',
                     '        loop = asyncio.new_event_loop()\n        try:\n            loop.run_until_complete(main())\n        finally:\n            loop.close()', 'finalized'))

        def setup(self, ex):
            from pyvc.core import CoroutineObj
            st = St()
            st.env['self'] = Rec(ex, 'self', immutable=True)
            st.ghost['ran'] = ()            # what was run to completion, in order: 'main' / 'asyncgens' / 'close'

            def what(e, a):
                co = unbox_handle(e, a[0])
                if isinstance(co, CoroutineObj):
                    return 'main' if (co.clo.node.name, len(co.args)) == ('main', 0) else 'other'
                return 'asyncgens' if co is self.shut else 'other'

            def run(e, s, a, k, n):
                s = s.fork()
                s.ghost['ran'] = s.ghost['ran'] + (what(e, a), 'asyncgens', 'close')
                return [('ok', s, NONE)]

            def run_until_complete(e, s, a, k, n):
                s = s.fork()
                s.ghost['ran'] = s.ghost['ran'] + (what(e, a),)
                return [('ok', s, NONE)]

            def close(e, s, a, k, n):
                s = s.fork()
                s.ghost['ran'] = s.ghost['ran'] + ('close',)
                return [('ok', s, NONE)]
            self.shut = Rec(ex, 'shutdown_asyncgens()', immutable=True)
            loop = Rec(ex, 'loop', immutable=True, methods={'run_until_complete': Fn(run_until_complete), 'close': Fn(close), 'shutdown_asyncgens': Fn(lambda e, s, a, k, n: [('ok', s, self.shut)])})
            ex.globals['asyncio.run'] = Fn(run, trusted='asyncio.run(coro) runs the coroutine to completion on a new event loop, then cancels what is left, shuts the async generators down and closes the loop')
            ex.globals['asyncio.new_event_loop'] = Fn(lambda e, s, a, k, n: [('ok', s, loop)], trusted='loop.run_until_complete(x) runs x to completion; loop.shutdown_asyncgens() closes every suspended async generator')
            ex.globals['asyncio.set_event_loop'] = Fn(lambda e, s, a, k, n: [('ok', s, NONE)])
            return st

        def post(self, ex, outs):
            for k, s, p in outs:
                ran = s.ghost['ran']
                ex.oblige(s, 'exit: main() is run to completion exactly once, then returns (main itself never raises: unit ...<locals>.main)', z3.BoolVal(k in ('normal', 'return') and ran.count('main') == 1 and 'other' not in ran))
                ex.oblige(s, 'exit: [C05] the async generators main() left suspended are finalized after main() and before the loop is closed (asyncio.run, or loop.shutdown_asyncgens() run to completion): '
                             'an early stop otherwise leaves the upstream stages\' helper threads running',
                          z3.BoolVal('main' in ran and 'asyncgens' in ran[ran.index('main'):] and 'close' in ran and ran.index('main') < len(ran) - 1 - ran[::-1].index('asyncgens') < len(ran) - 1 - ran[::-1].index('close')
                                     if 'main' in ran and 'asyncgens' in ran and 'close' in ran else False))
    U.__name__ = 'RunsMain_' + qual_.replace('.', '_')
    return U


ENTRY_UNITS = [AsyncIterIter, runs_main('AsyncBuffer._run_worker', FA), runs_main('SyncIter._worker', FA)]

UNITS = [ABufFinalizeNoop, SyncIterFinalizeNoop, RunWorker, RunWorkerNoExtern, RunWorkerUnderStop, BufIter, BufStart, BufFinalize, BufFinalizeNoop,
         ARunWorker, ARunWorkerUnderStop, ABufStart, ABufFinalize, ABufIter, SyncIterStart, SyncIterFinalize]


# ================================================================ SyncIter worker / iterator, ParmapperAsync
class SyncIterWorkerMain(RunWorker):
    """SyncIter's worker ends without a terminal item only when it has seen the stop flag (set by _finalize, i.e. the consumer is gone)."""
    file = FA
    qual = 'SyncIter._worker.<locals>.main'
    qfield = '_q'
    has_extern = False
    canaries = (('StopRequested not forwarded', 'except (Exception, StopRequested) as e:', 'except Exception as e:', 'never Exception/StopRequested'),)

    def extra_setup(self, ex, st):
        # the worker's own `q.get_nowait()` drain on stop
        def get_nowait(e, s, a, k, n):
            return [('ok', s, fresh('drained')), e.raise_new(s.fork(), 'queue.Empty')]
        self.q.m_get_nowait = get_nowait

    @property
    def loops(self):
        base = super().loops
        base[1] = LoopSpec(inv=lambda s, ex: z3.And(self.stopped.get(s, 'flag'), z3.Not(s.ghost['term'])),
                           keep_ghost=('term', 'stopped_phase', 'q.nput', 'src.seen', 'src.done', 'src.failed', 'src.pulls'))
        return base

    def post(self, ex, outs):
        for k, s, p in outs:
            if k in ('normal', 'return'):
                ex.oblige(s, 'exit: a terminal item was put last -- or the stop flag was seen (the consumer has closed the iterator) [S3]',
                          z3.Or(s.ghost['term'], self.stopped.get(s, 'flag')))
                kinds = {b[1].split()[0] for b in s.ghost.get('#blocking', ())}
                ex.oblige(s, 'exit: the only blocking actions of the worker are puts on the hand-off queue [E3]', z3.BoolVal(kinds <= {'put'}))
            else:
                ex.oblige(s, 'exit(raise): never Exception/StopRequested', z3.Not(is_failure(p)))


class SyncIterIter(BufIter):
    file = FA
    qual = 'SyncIter.__iter__'
    canaries = (('finalizer not run', '            finally:\n                self._finalize()', '            finally:\n                pass', 'finalizer ran'),)
    unreachable_ok = ('yield from self._instream',)      # the pass-through branch for sources that are already sync iterables

    def setup(self, ex):
        st = super().setup(ex)
        ex.globals['isiterable'] = Fn(lambda e, s, a, k, n: [('ok', s, z3.BoolVal(False))], name='isiterable')
        self.me.set(st, '_instream', z3.Const('async_source', Val))
        return st

    def start_contract(self, ex, st, args, kwargs, node):
        (k, st, v), = super().start_contract(ex, st, args, kwargs, node)
        self.me.set(st, '_q', self.q)
        return [(k, st, v)]


class FifoGen(Obj):
    def __init__(self, ex, args, kwargs):
        super().__init__(ex, 'fifo_stream(...)')
        self.args, self.kwargs = args, kwargs

    def havoc(self, ex, st):
        pass

    def yield_from(self, ex, st, node):
        st = st.fork()
        st.ghost['delegated'] = st.ghost.get('delegated', 0) + 1
        s2 = st.fork()
        e = fresh('fifo_exc')
        s2.assume(V.isinst(e, 'BaseException'), *V.cls_facts(e))
        return [('ok', st, NONE), ('raise', s2, e)]


class ParmapperAsyncIter(Unit):
    """ParmapperAsync.__iter__ (async worker function on a helper thread's event loop).  [C05] The elements are only handed to fifo_stream once the helper's loop is
    known to be SERVING (the `ready` flag, set by the helper after it has entered the user's async context managers): if the helper ends before that -- a context
    manager failing to enter -- its error is raised to the consumer (Thread.join re-raises it) instead of coroutines being submitted to a loop nobody runs (the
    consumer would wait for their futures forever).  On every exit path the helper thread has been joined; the stop flag is set on every path on which the helper
    was serving."""
    prop = 'C05'
    file = FS
    qual = 'ParmapperAsync.__iter__'
    canaries = (('helper thread not joined', '            to_stop.set()\n            worker.join()', '            to_stop.set()', 'joined'),
                ('stop flag not set', '            to_stop.set()\n            worker.join()', '            worker.join()', 'stop flag'),
                ('pre-fix defect: elements are submitted without knowing that the helper loop runs', '        while not ready.wait(0.01):', '        while False:', 'serving'))

    def setup(self, ex):
        st = St()
        self.kw, self.actx = (z3.Const(n, Val) for n in ('func_kwargs', 'async_context'))
        from pyvc.core import KwPack
        self.me = Rec(ex, 'self', immutable=True).init(st, _instream=z3.Const('instream', Val), _func=z3.Const('func', Val), _fifo_capacity=z3.Int('cap'),
                                                       _return_x=z3.Bool('rx'), _return_exceptions=z3.Bool('rexc'), _preprocessor=z3.Const('pre', Val),
                                                       _func_kwargs=KwPack(self.kw), _async_context=KwPack(self.actx), _name=z3.String('name'))
        st.env['self'] = self.me
        self.evs = []
        st.ghost['helper_died'] = z3.BoolVal(False)
        self.helper_exc = z3.Const('helper_failure', Val)
        st.assume(V.isinst(self.helper_exc, 'BaseException'), *V.cls_facts(self.helper_exc))

        def mkev(e, s, a, k, n):
            ev = Event(e, 'event#%d' % len(self.evs))
            s = s.fork()
            ev.init(s)
            self.evs.append(ev)
            return [('ok', s, ev)]
        ex.globals['threading.Event'] = Fn(mkev)
        ex.globals['asyncio.new_event_loop'] = Fn(lambda e, s, a, k, n: [('ok', s, fresh('loop'))])
        ex.globals['Thread'] = ThreadCtor()

        def fifo(e, s, a, k, n):
            ready = [v for v in self.evs if v is not self.stop_flag(e, s)]
            e.oblige(s, f'line {n.lineno}: [C05] fifo_stream is only started once the helper loop is SERVING (its ready flag was seen set): otherwise every submitted coroutine sits on a loop nobody runs and the consumer waits forever',
                     z3.And(z3.BoolVal(len(ready) == 1), ready[0].get(s, 'flag'), z3.Not(s.ghost['helper_died'])) if len(ready) == 1 else z3.BoolVal(False))
            return [('ok', s, FifoGen(e, a, k))]
        ex.globals['fifo_stream'] = Fn(fifo, name='fifo_stream')
        return st

    def stop_flag(self, ex, st):
        th = [o for o in ex.objs.values() if isinstance(o, ThreadObj)]
        if len(th) == 1:
            args = unbox_handle(ex, th[0].args)
            if isinstance(args, PyTuple) and args.items:
                return unbox_handle(ex, args.items[0])
        return None

    def on_thread_start(self, ex, st, t, node):
        args = unbox_handle(ex, t.args)
        ok = isinstance(t.target, Closure) and t.target.node.name == '_do_async' and isinstance(args, PyTuple) and len(args.items) == 2 \
            and unbox_handle(ex, args.items[0]) in self.evs
        ex.oblige(st, f'line {node.lineno}: spawn binding: the helper thread runs _do_async(<this stop flag>, loop)', z3.BoolVal(bool(ok)))

    def on_is_alive(self, ex, st, t, node):
        # the helper may have ended by itself (an async context manager failed to enter): then it never sets `ready`
        alive = fresh('helper_alive', z3.BoolSort())
        s = st.fork()
        s.ghost['helper_died'] = z3.Or(s.ghost['helper_died'], z3.Not(alive))
        return [('ok', s, alive)]

    def on_thread_join(self, ex, st, t, node):
        # mpservice's Thread.join re-raises what ended the thread (C12: unit Thread.join)
        s_ok = st.fork()
        t.set(s_ok, 'joined', z3.BoolVal(True))
        s_ok.ghost['#blocking'] = s_ok.ghost.get('#blocking', ()) + ((node.lineno, 'join thread', ()),)
        s_bad = s_ok.fork()
        return [('ok', s_ok, NONE), ('raise', s_bad, self.helper_exc)]

    @property
    def loops(self):
        def inv(s, ex):
            th = [o for o in ex.objs.values() if isinstance(o, ThreadObj)]
            stop = self.stop_flag(ex, s)
            return z3.And(z3.BoolVal(len(th) == 1 and stop is not None), th[0].get(s, 'started'), z3.Not(th[0].get(s, 'joined')), z3.Not(stop.get(s, 'flag')), z3.Not(s.ghost['helper_died'])) if len(th) == 1 and stop is not None else z3.BoolVal(False)
        return {0: LoopSpec(inv=inv, keep=('loop', 'to_stop', 'ready', 'worker', '_do_async'), keep_ghost=('helper_died',))}

    def post(self, ex, outs):
        for k, s, p in outs:
            th = [o for o in ex.objs.values() if isinstance(o, ThreadObj)]
            stop = self.stop_flag(ex, s)
            ok = len(th) == 1 and stop is not None
            ex.oblige(s, f'exit({k}): the helper thread has been joined on every exit path, and the stop flag is set unless the helper had already ended by itself [C05]',
                      z3.And(z3.BoolVal(ok), th[0].get(s, 'started'), th[0].get(s, 'joined'), z3.Or(stop.get(s, 'flag'), s.ghost['helper_died'])) if ok else z3.BoolVal(False))
            if k == 'raise':
                ex.oblige(s, 'exit(raise): when the helper ended before it was ready, the consumer gets an error (what ended the helper, or RuntimeError) -- never a silent hang',
                          z3.Implies(s.ghost['helper_died'], V.isinst(p, 'BaseException')))


class DoAsyncMain(Unit):
    """ParmapperAsync.__iter__.<locals>._do_async.<locals>.main -- the helper coroutine: enters the user's async context managers (each may FAIL to enter: then the
    coroutine ends with that error and `ready` is never set -- the consumer side notices the dead helper: unit ParmapperAsync.__iter__); once all are entered it
    sets `ready` and only then serves, until the stop flag is set (polled every second); the contexts are left on every path."""
    prop = 'C05'
    file = FS
    qual = 'ParmapperAsync.__iter__.<locals>._do_async.<locals>.main'
    ignore_calls = ('asyncio.sleep',)
    unreachable_ok = ('await asyncio.sleep',)       # under stop the polling loop exits before sleeping again
    canaries = (('never checks the flag', 'if to_stop.is_set():', 'if False:', ''),
                ('ready announced before the contexts are entered', '                    ready.set()\n', '', 'ready'),)

    def setup(self, ex):
        st = St()
        self.ev = Event(ex, 'to_stop')
        self.ev.init(st, is_set=True)          # under stop: flag set and stable
        self.ready = Event(ex, 'ready')
        self.ready.init(st)
        st.env['to_stop'] = self.ev
        st.cells['ready'] = self.ready
        st.ghost['entered'] = z3.IntVal(0)
        st.ghost['left'] = z3.BoolVal(False)
        self.n_ctx = z3.Int('n_async_contexts')
        st.assume(self.n_ctx >= 0)
        self.enter_exc = z3.Const('context_enter_failure', Val)
        st.assume(V.isinst(self.enter_exc, 'Exception'), *V.cls_facts(self.enter_exc))
        unit = self

        class Contexts(Obj):
            """self._async_context.values(): n user-supplied async context managers"""
            def havoc(self_, e, s):
                pass

            def iterate(self_, e, s, node):
                raise Unsupported('contexts are only iterated by the for loop')

        from pyvc.models import Source
        self.ctxs = Source(ex, 'async_contexts')
        self.ctxs.init(st)
        st.cells['self'] = Rec(ex, 'self', immutable=True).init(st, _async_context=Rec(ex, 'async_context', immutable=True, methods={'values': Fn(lambda e, s, a, k, n: [('ok', s, self.ctxs)])}))

        class Stack(Obj):
            def havoc(self_, e, s):
                pass

            def cm_enter(self_, e, s, node):
                return [('ok', s, self_)]

            def cm_exit(self_, e, s, node, outcome):
                s = s.fork()
                s.ghost['left'] = z3.BoolVal(True)
                return [('ok', s, False)]

            def m_enter_async_context(self_, e, s, a, k, n):
                s1 = s.fork()
                s1.ghost['entered'] = s1.ghost['entered'] + 1
                return [('ok', s1, fresh('entered_context')), ('raise', s.fork(), unit.enter_exc)]
        ex.globals['contextlib.AsyncExitStack'] = Fn(lambda e, s, a, k, n: [('ok', s, Stack(e, 'stack'))])
        return st

    @property
    def loops(self):
        ctx = LoopSpec(inv=lambda s, ex: z3.And(z3.Not(self.ready.get(s, 'flag')), s.ghost['entered'] == z3.Length(self.ctxs.seen(s)), z3.Not(s.ghost['left']), z3.Not(self.ctxs.done(s)), z3.Not(self.ctxs.failed(s))), keep=('stack',))
        sp = LoopSpec(inv=lambda s, ex: z3.And(self.ev.get(s, 'flag'), self.ready.get(s, 'flag'), self.ctxs.done(s), s.ghost['entered'] == z3.Length(self.ctxs.seen(s)), z3.Not(s.ghost['left'])), keep=('stack',))
        sp.on_backedge = lambda s, ex: ex.oblige(s, 'under stop: the polling loop does not iterate again once the flag is set', False)
        return {0: ctx, 1: sp, 2: sp}

    def post(self, ex, outs):
        for k, s, p in outs:
            ex.oblige(s, 'exit: the contexts that were entered are left (the exit stack is closed) on every path', s.ghost['left'])
            if k == 'raise':
                ex.oblige(s, 'exit(raise): only what a context manager raised on entering -- and then `ready` was never announced (the consumer side sees a helper that ended before it was ready)',
                          z3.And(p == self.enter_exc, z3.Not(self.ready.get(s, 'flag'))))
            else:
                ex.oblige(s, 'exit: ends under stop, after having announced `ready` only once ALL contexts were entered', z3.And(self.ready.get(s, 'flag'), self.ctxs.done(s), s.ghost['entered'] == z3.Length(self.ctxs.seen(s))))


UNITS += [SyncIterWorkerMain, SyncIterIter, ParmapperAsyncIter, DoAsyncMain]
