"""C16 — async variants give the same answers as their sync counterparts.

async_fifo_stream's feeder and consumer are verified against THE SAME protocol text (contracts/fifo.py: Proto.G_pair/G_none/
G_exc, same per-yield obligations) as the sync pair; `await` is transparent for the sequential meaning (interference only at
await points, cooperative scheduling -- trusted asyncio).  Equal contracts + determinism of omap => equal output sequences."""
import z3

from pyvc import vals as V
from pyvc.vals import Val, NONE, fresh
from pyvc.unit import LemmaUnit
from pyvc.models import Fn, Event, QueueReader, FutureSym, fut_ok, fut_val, fut_exc
from pyvc.core import Module, Awaitable_, Callable_, Obj, unbox_handle
from contracts.fifo import FeedUnit, ConsumerUnit, Proto, src_at

ASSUMPTIONS = (
    'asyncio: coroutines of one event loop interleave only at await points (cooperative scheduling); asyncio.Queue is FIFO; awaiting a future/task yields its outcome',
    'user callables/sources as in C01 (uninterpreted, per-call outcome fixed)',
)


class AFeed(FeedUnit):
    prop = 'C16'
    qual = 'async_fifo_stream.<locals>.feed'
    qname = 'tasks'
    canaries = (
        ('pinned-tree defect: pre-failed future bound to `fut` while `(x, t)` is enqueued',
         '                        t = asyncio.Future()\n                        t.set_exception(e)', '                        fut = asyncio.Future()\n                        fut.set_exception(e)', ''),
        ('pairs the preprocessed value', 'await tasks.put((x, t))', 'await tasks.put((xx, t))', 'ITS OWN future'),
    )


class AFeedNoPre(AFeed):
    with_pre = False
    canaries = ()


class TaskObj(Obj):
    """asyncio task created by create_task(feed(...)): awaiting it == joining the feeder."""

    def __init__(self, ex, coro):
        super().__init__(ex, 'task')
        self.coro = coro

    def havoc(self, ex, st):
        pass


class CoroCall:
    def __init__(self, target, args, kwargs):
        self.target, self.args, self.kwargs = target, args, kwargs


class AConsumer(ConsumerUnit):
    prop = 'C16'
    qual = 'async_fifo_stream'
    unreachable_ok = ('pass',)      # `except asyncio.CancelledError: pass` around `await feeder` (the feeder task is never cancelled here)
    canaries = (
        ('pairs output with the result instead of the input', 'yield x, y', 'yield y, x', 'own future'),
        ('feeder task not awaited', '            await feeder', '            pass', 'has been joined'),
    )

    def setup(self, ex):
        st = super().setup(ex)

        def mkq(e, s, a, k, n):
            q = QueueReader(e, 'q', maxsize=a[0] if a else None)
            s = s.fork()
            q.init(s)
            self.made.setdefault('q', q)
            self.made.setdefault('queues', []).append(q)
            return [('ok', s, q)]

        def mkev(e, s, a, k, n):
            ev = Event(e, 'to_stop')
            s = s.fork()
            ev.init(s)
            self.made['ev'] = ev
            return [('ok', s, ev)]
        ex.globals['asyncio.Queue'] = Fn(mkq, name='asyncio.Queue')
        ex.globals['asyncio.Event'] = Fn(mkev, name='asyncio.Event')

        def create_task(e, s, a, k, n):
            from pyvc.models import ThreadObj
            coro = a[0]
            t = ThreadObj(e, coro.target if isinstance(coro, CoroCall) else None, None, None, k.get('name'))
            t.coro = coro
            s = s.fork()
            t.init(s)
            # creating the task schedules it: this is the spawn point
            t.args = __import__('pyvc.vals', fromlist=['PyTuple']).PyTuple(coro.args) if isinstance(coro, CoroCall) else None
            from pyvc.core import DictVal
            kw = dict(coro.kwargs) if isinstance(coro, CoroCall) else {}
            pack = kw.pop('**', None)
            t.kwargs = DictVal(kw, pack)
            t.set(s, 'started', z3.BoolVal(True))
            self.on_thread_start(e, s, t, n)
            return [('ok', s, t)]
        ex.globals['asyncio.create_task'] = Fn(create_task, name='asyncio.create_task')
        ex.globals['asyncio.CancelledError'] = e_cls('asyncio.CancelledError')
        # the outcome of an awaited task/future is a result, an Exception, or CancelledError (KeyboardInterrupt/SystemExit are excluded by the property)
        ex.sym_models['t'] = FutureSym(('Exception', 'asyncio.CancelledError'))
        return st

    @property
    def loops(self):
        from pyvc.unit import LoopSpec
        base = super().loops
        keep_g = ('nyield', 'src_exhausted', 'n_pulled', 'main.index', 'main.terminal', 'main.fut')
        base[1] = LoopSpec(inv=base[1].inv, keep=('tasks', 'to_stop', 'feeder'), keep_ghost=keep_g)
        # awaiting the cancelled tasks: changes nothing the contract talks about
        base[2] = LoopSpec(inv=lambda s, ex: z3.BoolVal(True), keep=('tasks', 'to_stop', 'feeder'),
                           keep_ghost=keep_g + ('terminal_got', 'terminal_index', 'cancelled', 'q.nget'))
        return base

    def on_call(self, ex, st, e, src):
        if src == 'feed':
            # calling the coroutine function only creates the coroutine object
            def f(s, ak):
                tgt = unbox_handle(ex, s.env['feed'])
                return [('ok', s, CoroCall(tgt, ak[0], ak[1]))]
            return ex.bind(ex.evargs(e, st), f)
        return None

    def on_await(self, ex, st, v, node):
        from pyvc.models import ThreadObj
        v = unbox_handle(ex, v)
        if isinstance(v, ThreadObj):
            return v.m_join(ex, st, [], {}, node)
        if isinstance(v, z3.ExprRef) and v.sort() == Val and isinstance(node.value, __import__('ast').Name) and node.value.id in ('t',):
            return ex.sym_models['t'].outcome(ex, st, v, node)
        return [('ok', st, v)]


def e_cls(name):
    from pyvc.core import ExcClass
    return ExcClass(name)


class AConsumerNoPre(AConsumer):
    with_pre = False
    canaries = ()


class C16Lemma(LemmaUnit):
    prop = 'C16'
    qual = 'lemma(C16)'

    def lemmas(self):
        # both implementations satisfy: output #i == omap(x_i, outcome(f_i)) with f_i determined by fut_spec(x_i); hence equal outputs
        i = z3.Int('i')
        x = src_at(i)
        fs, fa = z3.Consts('f_sync f_async', Val)
        os_, oa = z3.Consts('out_sync out_async', Val)
        rx, rexc = z3.Bools('return_x return_exceptions')
        omap = lambda a, y: z3.If(rx, V.tup(V.seq_of([a, y])), y)
        P = Proto(True)
        outcome_equal = z3.And(fut_ok(fs) == fut_ok(fa), fut_val(fs) == fut_val(fa), fut_exc(fs) == fut_exc(fa))

        def out(o, f):
            return z3.Or(z3.And(fut_ok(f), o == omap(x, fut_val(f))), z3.And(z3.Not(fut_ok(f)), rexc, o == omap(x, fut_exc(f))))
        yield ('same inputs, same worker behaviour (the futures for element i have equal outcomes), same flags => output #i is identical in both variants',
               [out(os_, fs), out(oa, fa), outcome_equal], os_ == oa)
        px = P.pre
        yield ('an element rejected by the preprocessor yields ITS OWN exception in both variants (never another element\'s result)',
               [P.fut_spec(x, fa), z3.Not(px.ok(x)), out(oa, fa)], z3.And(rexc, oa == omap(x, px.exc(x))))


UNITS = [AFeed, AFeedNoPre, AConsumer, AConsumerNoPre, C16Lemma]
NOT_DECIDED = ('AsyncParmapper/AsyncParmapperAsync/ParmapperAsync wrappers and AsyncServer.stream delegate to async_fifo_stream/fifo_stream with a func built from executor.submit / create_task / run_coroutine_threadsafe: argument pass-through only (not yet under contract)',)
