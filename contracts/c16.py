"""C16 — async variants give the same answers as their sync counterparts.

async_fifo_stream's feeder and consumer are verified against THE SAME protocol text (contracts/fifo.py: Proto.G_pair/G_none/
G_exc, same per-yield obligations) as the sync pair; `await` is transparent for the sequential meaning (interference only at
await points, cooperative scheduling -- trusted asyncio).  Equal contracts + determinism of omap => equal output sequences."""
import z3

from pyvc import vals as V
from pyvc.vals import Val, NONE, fresh
from pyvc.unit import LemmaUnit
from pyvc.models import Fn, Event, QueueReader, FutureSym, fut_ok, fut_val, fut_exc
from pyvc.core import Module, Awaitable_, Callable_, Obj, unbox_handle
from contracts.fifo import FeedUnit, ConsumerUnit, Proto, src_at

ASSUMPTIONS = (
    'asyncio: coroutines of one event loop interleave only at await points (cooperative scheduling); asyncio.Queue is FIFO; awaiting a future/task yields its outcome',
    'user callables/sources as in C01 (uninterpreted, per-call outcome fixed)',
)


class AFeed(FeedUnit):
    prop = 'C16'
    qual = 'async_fifo_stream.<locals>.feed'
    qname = 'tasks'
    canaries = (
        ('pinned-tree defect: pre-failed future bound to `fut` while `(x, t)` is enqueued',
         '                        t = asyncio.Future()\n                        t.set_exception(e)', '                        fut = asyncio.Future()\n                        fut.set_exception(e)', ''),
        ('pairs the preprocessed value', 'await tasks.put((x, t))', 'await tasks.put((xx, t))', 'ITS OWN future'),
    )


class AFeedNoPre(AFeed):
    with_pre = False
    canaries = ()


class TaskObj(Obj):
    """asyncio task created by create_task(feed(...)): awaiting it == joining the feeder."""

    def __init__(self, ex, coro):
        super().__init__(ex, 'task')
        self.coro = coro

    def havoc(self, ex, st):
        pass


class CoroCall:
    def __init__(self, target, args, kwargs):
        self.target, self.args, self.kwargs = target, args, kwargs


class AConsumer(ConsumerUnit):
    prop = 'C16'
    qual = 'async_fifo_stream'
    unreachable_ok = ('pass',)      # `except asyncio.CancelledError: pass` around `await feeder` (the feeder task is never cancelled here)
    canaries = (
        ('pairs output with the result instead of the input', 'yield x, y', 'yield y, x', 'own future'),
        ('feeder task not awaited', '            await feeder', '            pass', 'has been joined'),
    )

    def setup(self, ex):
        st = super().setup(ex)

        def mkq(e, s, a, k, n):
            q = QueueReader(e, 'q', maxsize=a[0] if a else None)
            s = s.fork()
            q.init(s)
            self.made.setdefault('q', q)
            self.made.setdefault('queues', []).append(q)
            return [('ok', s, q)]

        def mkev(e, s, a, k, n):
            ev = Event(e, 'to_stop')
            s = s.fork()
            ev.init(s)
            self.made['ev'] = ev
            return [('ok', s, ev)]
        ex.globals['asyncio.Queue'] = Fn(mkq, name='asyncio.Queue')
        ex.globals['asyncio.Event'] = Fn(mkev, name='asyncio.Event')

        def create_task(e, s, a, k, n):
            from pyvc.models import ThreadObj
            coro = a[0]
            t = ThreadObj(e, coro.target if isinstance(coro, CoroCall) else None, None, None, k.get('name'))
            t.coro = coro
            s = s.fork()
            t.init(s)
            # creating the task schedules it: this is the spawn point
            t.args = __import__('pyvc.vals', fromlist=['PyTuple']).PyTuple(coro.args) if isinstance(coro, CoroCall) else None
            from pyvc.core import DictVal
            kw = dict(coro.kwargs) if isinstance(coro, CoroCall) else {}
            pack = kw.pop('**', None)
            t.kwargs = DictVal(kw, pack)
            t.set(s, 'started', z3.BoolVal(True))
            self.on_thread_start(e, s, t, n)
            return [('ok', s, t)]
        ex.globals['asyncio.create_task'] = Fn(create_task, name='asyncio.create_task')
        ex.globals['asyncio.CancelledError'] = e_cls('asyncio.CancelledError')
        # the outcome of an awaited task/future is a result, an Exception, or CancelledError (KeyboardInterrupt/SystemExit are excluded by the property)
        ex.sym_models['t'] = FutureSym(('Exception', 'asyncio.CancelledError'))
        return st

    @property
    def loops(self):
        from pyvc.unit import LoopSpec
        base = super().loops
        keep_g = ('nyield', 'src_exhausted', 'n_pulled', 'main.index', 'main.terminal', 'main.fut')
        base[1] = LoopSpec(inv=base[1].inv, keep=('tasks', 'to_stop', 'feeder'), keep_ghost=keep_g)
        # awaiting the cancelled tasks: changes nothing the contract talks about
        base[2] = LoopSpec(inv=lambda s, ex: z3.BoolVal(True), keep=('tasks', 'to_stop', 'feeder'),
                           keep_ghost=keep_g + ('terminal_got', 'terminal_index', 'cancelled', 'q.nget'))
        return base

    def on_call(self, ex, st, e, src):
        if src == 'feed':
            # calling the coroutine function only creates the coroutine object
            def f(s, ak):
                tgt = unbox_handle(ex, s.env['feed'])
                return [('ok', s, CoroCall(tgt, ak[0], ak[1]))]
            return ex.bind(ex.evargs(e, st), f)
        return None

    def on_await(self, ex, st, v, node):
        from pyvc.models import ThreadObj
        v = unbox_handle(ex, v)
        if isinstance(v, ThreadObj):
            return v.m_join(ex, st, [], {}, node)
        if isinstance(v, z3.ExprRef) and v.sort() == Val and isinstance(node.value, __import__('ast').Name) and node.value.id in ('t',):
            return ex.sym_models['t'].outcome(ex, st, v, node)
        return [('ok', st, v)]


def e_cls(name):
    from pyvc.core import ExcClass
    return ExcClass(name)


class AConsumerNoPre(AConsumer):
    with_pre = False
    canaries = ()


class C16Lemma(LemmaUnit):
    prop = 'C16'
    qual = 'lemma(C16)'

    def lemmas(self):
        # both implementations satisfy: output #i == omap(x_i, outcome(f_i)) with f_i determined by fut_spec(x_i); hence equal outputs
        i = z3.Int('i')
        x = src_at(i)
        fs, fa = z3.Consts('f_sync f_async', Val)
        os_, oa = z3.Consts('out_sync out_async', Val)
        rx, rexc = z3.Bools('return_x return_exceptions')
        omap = lambda a, y: z3.If(rx, V.tup(V.seq_of([a, y])), y)
        P = Proto(True)
        outcome_equal = z3.And(fut_ok(fs) == fut_ok(fa), fut_val(fs) == fut_val(fa), fut_exc(fs) == fut_exc(fa))

        def out(o, f):
            return z3.Or(z3.And(fut_ok(f), o == omap(x, fut_val(f))), z3.And(z3.Not(fut_ok(f)), rexc, o == omap(x, fut_exc(f))))
        yield ('same inputs, same worker behaviour (the futures for element i have equal outcomes), same flags => output #i is identical in both variants',
               [out(os_, fs), out(oa, fa), outcome_equal], os_ == oa)
        px = P.pre
        yield ('an element rejected by the preprocessor yields ITS OWN exception in both variants (never another element\'s result)',
               [P.fut_spec(x, fa), z3.Not(px.ok(x)), out(oa, fa)], z3.And(rexc, oa == omap(x, px.exc(x))))



# ================================================================ the asynchronous parmap variants: argument pass-through to async_fifo_stream
from pyvc.unit import Unit, LoopSpec          # noqa: E402
from pyvc.models import Rec, Nop              # noqa: E402
from pyvc.core import St, box, KwPack, NOKW, Closure, Unsupported       # noqa: E402
from contracts.c01 import ExecCM              # noqa: E402
FA = 'streamer/_streamer_async.py'


class AGenModel(Obj):
    """the async generator async_fifo_stream(...) returns: yields out_at(0), out_at(1), ... then ends or raises"""

    def __init__(self, ex, unit):
        super().__init__(ex, 'async_fifo_stream(...)')
        self.u = unit

    def havoc(self, ex, st):
        pass

    def iter_start(self, ex, st, node):
        st = st.fork()
        st.ghost['gi'] = z3.IntVal(0)
        return [('ok', st, self)]

    def havoc_index(self, st):
        i = fresh('gi', z3.IntSort())
        st.assume(i >= 0)
        st.ghost['gi'] = i

    def idx(self, st):
        return st.ghost['gi']

    def pull(self, ex, st, node):
        i = st.ghost['gi']
        s1 = st.fork()
        s1.ghost['gi'] = i + 1
        s2 = st.fork()
        s2.ghost['ended'] = i
        exc = fresh('fifo_exc')
        s3 = st.fork().assume(V.isinst(exc, 'BaseException'), *V.cls_facts(exc))
        return [('item', s1, self.u.out_at(i)), ('stop', s2, None), ('raise', s3, exc)]


class AsyncParmapperIter(Unit):
    """AsyncParmapper.__aiter__ (async environment, sync worker func): one executor of the requested kind with max_workers == concurrency, shut down on
    every exit; delegates once to async_fifo_stream(self._instream, <local func>, capacity = 2 x concurrency, own flags / preprocessor / kwargs,
    executor=<that executor>, loop=<running loop>) and yields every element it produces, in order, nothing else."""
    prop = 'C16'
    file = FA
    qual = 'AsyncParmapper.__aiter__'
    executor_type = 'thread'
    assumed_contracts = ('async_fifo_stream(...): units C16:async_fifo_stream[*]', 'func: unit C16:AsyncParmapper.__aiter__.<locals>.func')
    canaries = (('return_x / return_exceptions swapped', 'return_x=self._return_x,\n                return_exceptions=self._return_exceptions,', 'return_x=self._return_exceptions,\n                return_exceptions=self._return_x,', 'own flags'),
                ('look-ahead not tied to concurrency', 'capacity=self._concurrency * 2,', 'capacity=1000,', ''),
                ('elements dropped', '                yield z', '                pass', 'every element'))

    def __init__(self):
        self.variant = self.executor_type
        super().__init__()

    def setup(self, ex):
        st = St()
        self.F = {k: z3.Const('self_' + k, Val) for k in ('_instream', '_func', '_preprocessor', '_executor_initializer', '_executor_init_args')}
        self.conc = z3.Int('concurrency')
        self.rx, self.rexc = z3.Bool('return_x'), z3.Bool('return_exceptions')
        self.kw = KwPack(z3.Const('func_kwargs', Val))
        self.me = Rec(ex, 'self', immutable=True).init(st, _executor_type=z3.StringVal(self.executor_type), _concurrency=self.conc, _return_x=self.rx, _return_exceptions=self.rexc,
                                                       _func_kwargs=self.kw, _name=z3.String('name'), **self.F)
        st.env['self'] = self.me
        self.execs = []
        self.out_at = z3.Function('fifo_out_at', z3.IntSort(), Val)
        st.ghost['out'] = V.EMPTY
        st.ghost['fifo'] = ()

        def mk(kind):
            def f(e, s, a, k, n):
                x = ExecCM(e, kind, a[0] if a else k.get('max_workers'))
                s = s.fork()
                x.init(s)
                self.execs.append(x)
                return [('ok', s, x)]
            return Fn(f, name=kind)
        ex.globals['ThreadPoolExecutor'] = mk('thread')
        ex.globals['ProcessPoolExecutor'] = mk('process')
        self.loop = z3.Const('running_loop', Val)
        ex.globals['asyncio.get_running_loop'] = Fn(lambda e, s, a, k, n: [('ok', s, self.loop)])
        self.gen = AGenModel(ex, self)

        def fifo(e, s, a, k, n):
            s = s.fork()
            s.ghost['fifo'] = s.ghost['fifo'] + ((list(a), dict(k)),)
            return [('ok', s, self.gen)]
        ex.globals['async_fifo_stream'] = Fn(fifo, name='async_fifo_stream')
        return st

    @property
    def loops(self):
        def inv(s, ex):
            i, out, j = s.ghost['gi'], s.ghost['out'], z3.Int('any_pos')
            return z3.And(z3.Length(out) == i, z3.Implies(z3.And(j >= 0, j < i), out[j] == self.out_at(j)), *[z3.And(x.get(s, 'open'), z3.Not(x.get(s, 'shut'))) for x in self.execs])
        return {0: LoopSpec(inv=inv, keep=('executor', 'func', 'loop'))}

    def check_delegate(self, ex, s, k, extra=()):
        calls = s.ghost['fifo']
        if len(calls) != 1:
            ex.oblige(s, f'exit({k}): delegates exactly once to async_fifo_stream', False)
            return
        a, kw = calls[0]
        f = unbox_handle(ex, a[1]) if len(a) == 2 else None
        ok = len(a) == 2 and isinstance(f, Closure) and f.node.name == 'func' and {'capacity', 'return_x', 'return_exceptions', 'preprocessor', '**'} <= set(kw)
        ex.oblige(s, f'exit({k}): delegates once to async_fifo_stream(self._instream, <local func>, ...) with capacity == 2 x concurrency and its own flags / preprocessor / kwargs',
                  z3.And(box(ex, a[0]) == self.F['_instream'], box(ex, kw['capacity']) == V.intv(2 * self.conc), kw['return_x'] == self.rx, kw['return_exceptions'] == self.rexc,
                         box(ex, kw['preprocessor']) == self.F['_preprocessor'], z3.BoolVal(kw['**'] is self.kw), box(ex, kw.get('loop')) == self.loop, *extra(kw)) if ok else z3.BoolVal(False))

    def post(self, ex, outs):
        for k, s, p in outs:
            if len(self.execs) == 1:
                x = self.execs[0]
                ex.oblige(s, f'exit({k}): [C08] exactly one executor of the requested kind, max_workers == concurrency, shut down on every exit path',
                          z3.And(z3.BoolVal(x.kind == self.executor_type), box(ex, x.nworkers) == V.intv(self.conc) if x.nworkers is not None else z3.BoolVal(False), x.get(s, 'shut')))
            else:
                ex.oblige(s, f'exit({k}): exactly one executor', False)
            self.check_delegate(ex, s, k, extra=lambda kw: [z3.BoolVal(unbox_handle(ex, kw.get('executor')) is self.execs[0])] if self.execs else [z3.BoolVal(False)])
            if k in ('normal', 'return'):
                j, out, n = z3.Int('any_pos'), s.ghost['out'], s.ghost.get('ended', z3.IntVal(-1))
                ex.oblige(s, 'exit: yielded every element of async_fifo_stream, in order, and nothing else', z3.And(z3.Length(out) == n, z3.Implies(z3.And(j >= 0, j < n), out[j] == self.out_at(j))))


class AsyncParmapperIterProcess(AsyncParmapperIter):
    executor_type = 'process'
    canaries = ()


class AsyncParmapperFunc(Unit):
    """the local func of AsyncParmapper.__aiter__: awaitable of the result of self._func(x, **kwargs) submitted to the given executor (own x)"""
    prop = 'C16'
    file = FA
    qual = 'AsyncParmapper.__aiter__.<locals>.func'
    canaries = (('kwargs dropped', 'fut = executor.submit(self._func, x, **kwargs)', 'fut = executor.submit(self._func, x)', ''),
                ('result of another future awaited', 'return loop.run_in_executor(None, fut.result)', 'return loop.run_in_executor(None, executor.submit(self._func, None).result)', ''))

    def setup(self, ex):
        st = St()
        self.x, self.func = z3.Const('x', Val), z3.Const('the_func', Val)
        self.kw = KwPack(z3.Const('kwargs', Val))
        st.ghost['submitted'] = ()
        st.ghost['awaited'] = ()
        self.submit_fut = z3.Function('submitted_future', Val, Val, Val, Val)

        def submit(e, s, a, k, n):
            s = s.fork()
            k = dict(k)
            pack = k.pop('**', None)
            args = tuple(box(e, v) for v in a)
            s.ghost['submitted'] = s.ghost['submitted'] + ((args, pack.val if isinstance(pack, KwPack) else NOKW, tuple(k)),)
            f = Rec(e, 'fut', immutable=True).init(s, result=self.submit_fut(args[0], args[1] if len(args) > 1 else NONE, pack.val if isinstance(pack, KwPack) else NOKW) if args else NONE)
            return [('ok', s, f)]

        def run_in_executor(e, s, a, k, n):
            s = s.fork()
            s.ghost['awaited'] = s.ghost['awaited'] + ((box(e, a[0]), box(e, a[1])),)
            return [('ok', s, z3.Function('awaitable_of', Val, Val)(box(e, a[1])))]
        st.cells['self'] = Rec(ex, 'self', immutable=True).init(st, _func=self.func)
        st.env.update(x=self.x, kwargs=self.kw, executor=Rec(ex, 'executor', immutable=True, methods={'submit': Fn(submit)}), loop=Rec(ex, 'loop', immutable=True, methods={'run_in_executor': Fn(run_in_executor)}))
        return st

    def post(self, ex, outs):
        for k, s, p in outs:
            if k not in ('normal', 'return'):
                ex.oblige(s, 'exit: never raises', False)
                continue
            sub, aw = s.ghost['submitted'], s.ghost['awaited']
            ok = len(sub) == 1 and len(sub[0][0]) == 2 and not sub[0][2] and len(aw) == 1
            want = self.submit_fut(self.func, self.x, self.kw.val)
            ex.oblige(s, 'exit: submits self._func(x, **kwargs) exactly once to the given executor and returns the awaitable of THAT future\'s result',
                      z3.And(sub[0][0][0] == self.func, sub[0][0][1] == self.x, sub[0][1] == self.kw.val, aw[0][0] == NONE, aw[0][1] == want, box(ex, p) == z3.Function('awaitable_of', Val, Val)(want)) if ok else z3.BoolVal(False))


class AsyncParmapperAsyncIter(AsyncParmapperIter):
    """AsyncParmapperAsync.__aiter__ (async environment, async worker func): returns async_fifo_stream(self._instream, <local func>, ...) itself."""
    qual = 'AsyncParmapperAsync.__aiter__'
    executor_type = 'none'
    loops = {}
    assumed_contracts = ('async_fifo_stream(...): units C16:async_fifo_stream[*]', 'func: unit C16:AsyncParmapperAsync.__aiter__.<locals>.func')
    canaries = (('return_x / return_exceptions swapped', 'return_x=self._return_x,\n            return_exceptions=self._return_exceptions,', 'return_x=self._return_exceptions,\n            return_exceptions=self._return_x,', 'own flags'),
                ('preprocessor dropped', 'preprocessor=self._preprocessor,', 'preprocessor=None,', ''))

    def post(self, ex, outs):
        for k, s, p in outs:
            self.check_delegate(ex, s, k, extra=lambda kw: [z3.BoolVal('executor' not in kw)])
            if k in ('normal', 'return'):
                ex.oblige(s, 'exit: returns that async generator itself (so: every element, in order)', z3.BoolVal(unbox_handle(ex, p) is self.gen and len(self.execs) == 0))
            else:
                ex.oblige(s, 'exit: does not raise', False)


class AsyncParmapperAsyncFunc(Unit):
    """the local func of AsyncParmapperAsync.__aiter__: the task running self._func(x, **kwargs) on the given loop (own x)"""
    prop = 'C16'
    file = FA
    qual = 'AsyncParmapperAsync.__aiter__.<locals>.func'
    canaries = (('task of another element', 'return loop.create_task(self._func(x, **kwargs))', 'return loop.create_task(self._func(loop, **kwargs))', ''),)

    def setup(self, ex):
        from pyvc.models import UFunc
        st = St()
        self.x = z3.Const('x', Val)
        self.kw = KwPack(z3.Const('kwargs', Val))
        self.func = UFunc('the_async_func', 1, raises='Exception')
        self.task = z3.Function('task_of', Val, Val)
        st.cells['self'] = Rec(ex, 'self', immutable=True).init(st, _func=self.func)
        st.env.update(x=self.x, kwargs=self.kw, loop=Rec(ex, 'loop', immutable=True, methods={'create_task': Fn(lambda e, s, a, k, n: [('ok', s, self.task(box(e, a[0])))])}))
        return st

    def post(self, ex, outs):
        coro, ok, exc = self.func.app(None, self.x, kw=self.kw.val)
        for k, s, p in outs:
            if k in ('normal', 'return'):
                ex.oblige(s, 'exit: the task created on the given loop for self._func(x, **kwargs) -- its own x, its own kwargs', box(ex, p) == self.task(coro))
            else:
                ex.oblige(s, 'exit(raise): only what calling self._func(x, **kwargs) itself raised', z3.And(z3.Not(ok), p == exc))


# ---------------------------------------------------------------- AsyncStream.parmap: which operator is built, and with what
from contracts.c03 import BuilderUnit, T, is_coro, ClassCtor      # noqa: E402


class AsyncBuildParmap(BuilderUnit):
    """AsyncStream.parmap(func, ...): appends exactly one stage over the previous one -- AsyncParmapperAsync for a coroutine function, AsyncParmapper (sync worker
    on an executor) otherwise -- with the caller's concurrency / return_x / return_exceptions and its other keyword arguments; returns self; consumes nothing."""
    prop = 'C16'
    file = 'streamer/_streamer_async.py'
    qual = 'AsyncStream.parmap'
    canaries = (('return_x and return_exceptions swapped', 'return_x=return_x,\n                return_exceptions=return_exceptions,', 'return_x=return_exceptions,\n                return_exceptions=return_x,', ''),
                ('sync worker handed to the coroutine operator', 'if inspect.iscoroutinefunction(func):', 'if not inspect.iscoroutinefunction(func):', ''))

    def extra_setup(self, ex, st):
        for n in ('AsyncParmapper', 'AsyncParmapperAsync'):
            self.C[n] = ClassCtor(n)
            ex.globals[n] = self.C[n]

    @staticmethod
    def expect(C, last, P, kw):
        mk = lambda n: T(C, n, [last, P['func']], kw, concurrency=P['concurrency'], return_x=P['return_x'], return_exceptions=P['return_exceptions'])
        return z3.If(is_coro(P['func']), mk('AsyncParmapperAsync'), mk('AsyncParmapper'))


UNITS_APARMAP = [AsyncBuildParmap, AsyncParmapperIter, AsyncParmapperIterProcess, AsyncParmapperFunc, AsyncParmapperAsyncIter, AsyncParmapperAsyncFunc]

from contracts.server import ACallUnit, AStreamUnit, AEnqueueUnit, AGatherUnit, AWaitUnit      # noqa: E402
from contracts.buffer import ParmapperAsyncIter, DoAsyncMain, AsyncIterIter        # noqa: E402
from contracts.ctors import STREAM_CTORS      # noqa: E402
from contracts.c16_ops import UNITS as UNITS_ASYNC_OPS      # noqa: E402  (one-to-one AsyncStream operators under their sync counterparts' contracts)
from contracts.c11 import ServerEnterUnit, AServerEnterUnit      # noqa: E402  (each entry of the async server makes its own loop-bound condition, as the sync one makes its own)
# the async parmap with a sync worker submits through the executor wrappers with the LOUD default (the sync Parmapper passes loud_exception=False): the wrapper must not
# change the outcome -- whatever the worker's exception is like
from contracts.c01 import LoudFunction, LoudProcessFunction, SubmitUnit, SubmitUnitProcess      # noqa: E402
UNITS = [AFeed, AFeedNoPre, AConsumer, AConsumerNoPre, LoudFunction, LoudProcessFunction, SubmitUnit, SubmitUnitProcess] + UNITS_APARMAP + list(STREAM_CTORS) + [ParmapperAsyncIter, DoAsyncMain, AsyncIterIter, ACallUnit, AStreamUnit, AEnqueueUnit, AGatherUnit, AWaitUnit, ServerEnterUnit, AServerEnterUnit, C16Lemma] + list(UNITS_ASYNC_OPS)
NOT_DECIDED = ('that loop.run_in_executor / create_task / run_coroutine_threadsafe deliver the outcome of what they wrap (trusted asyncio)',)
SCENARIOS = [('', 'replay/scenarios/c16_sync_vs_async.py'), ('', 'replay/scenarios/c16_async_preprocessor.py')]
BOUNDED = [{'function': 'sync vs async entry points end to end (event loop scheduling, executors, asyncio futures)', 'method': 'runtime scenario replay/scenarios/c16_sync_vs_async.py (differential: Server vs AsyncServer call/stream; Stream.parmap vs its three async variants)', 'bound': '24 inputs x 4 flag combinations, 5 worker behaviours incl. awkward exception classes', 'counted_as_proved': False}]
