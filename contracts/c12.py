"""C12 — Process and Thread objects report how their target really ended."""
import z3

from pyvc import vals as V
from pyvc.vals import Val, SeqV, NONE, fresh, PyTuple
from pyvc.unit import Unit, LoopSpec, LemmaUnit
from pyvc.models import UFunc, Rec, Fn, Nop, Future, FutureCtor, PipeWriter, PipeReader, ThreadCtor, ThreadObj
from pyvc.core import St, Module, box, Unsupported, KwPack, StarPack, Obj, ecode, Callable_, unbox_handle

CTX = 'multiprocessing/context.py'
THR = 'threading/__init__.py'

remote_exc = z3.Function('RemoteException', Val, Val)          # RemoteException(e) (its own contract: C15)

ASSUMPTIONS = (
    'the child\'s two messages travel over a multiprocessing pipe that delivers sent objects in order or raises EOFError when the child has died/closed (trusted Connection contract; pickling fidelity is C15)',
    'Process.exitcode is None until the OS reports the exit and stable afterwards; a negative value is minus the signal number',
    'handle_exception() does not raise (documented requirement on overrides)',
    'the OS-level join/sentinel wait return once the child has exited (bounded time is not decided)',
)
NOT_DECIDED = ('bounded time of OS join / signal delivery', 'that concurrent.futures.wait/as_completed themselves return once the futures are resolved (trusted stdlib; the futures ARE resolved on every path: unit _collect_result / Thread.run)')

LOG_IGNORE = ('root.setLevel', 'root.addHandler', 'logging.captureWarnings', 'logger_queue.close', 'logging.getLogger().removeHandler',
              'sys.stderr.write', 'traceback.print_exc', 'time.sleep')


class KwDict(Obj):
    """self._kwargs of the Process: a dict from which run() pops its two private entries; the rest is an opaque pack."""

    def __init__(self, ex, entries):
        super().__init__(ex, 'kwargs')
        self.entries = entries
        self.pack = KwPack(z3.Const('target_kwargs', Val))

    def havoc(self, ex, st):
        pass

    def m_pop(self, ex, st, args, kwargs, node):
        k = args[0].as_string()
        st = st.fork()
        st.ghost['popped'] = st.ghost.get('popped', ()) + (k,)
        if k not in self.entries:
            return [('ok', st, fresh('kwargs_entry_' + k.strip('_')))]       # an entry this contract does not know: opaque
        return [('ok', st, self.entries[k])]

    def as_kwpack(self, ex, st):
        ex.oblige(st, 'the private entries were removed from kwargs before the target is called',
                  z3.BoolVal(set(self.entries) <= set(st.ghost.get('popped', ()))))
        return self.pack


class ProcessRun(Unit):
    """Child side: on every path exactly two messages (result, error) are sent, per the documented table, then the pipe is closed."""
    prop = 'C12'
    file = CTX
    qual = 'SpawnProcess.run'
    ignore_calls = LOG_IGNORE
    has_target = True
    expected_exits = ('normal',)
    canaries = (
        ('result and error sent in the wrong order', '            result_and_error.send(z)\n            result_and_error.send(None)',
         '            result_and_error.send(None)\n            result_and_error.send(z)', 'two messages'),
        ('non-zero integer exit code reported as success', 'if e.code == 0:', 'if e.code >= 0:', 'two messages'),
        ('exception sent unwrapped in place of the result', '            result_and_error.send(None)\n            result_and_error.send(RemoteException(e))\n        else:',
         '            result_and_error.send(RemoteException(e))\n            result_and_error.send(None)\n        else:', 'two messages'),
        ('pipe not closed', '        finally:\n            result_and_error.close()', '        finally:\n            pass', 'two messages'),
    )
    numeric_vals_are_ints = True

    def __init__(self):
        self.variant = 'target' if self.has_target else 'no-target'
        super().__init__()

    def setup(self, ex):
        st = St()
        self.pipe = PipeWriter(ex, 'result_and_error').init(st)
        self.logq = Rec(ex, 'logger_queue', methods={'close': Nop()})
        self.kw = KwDict(ex, {'_result_and_error_': self.pipe, '_logger_queue_': self.logq})
        self.target = UFunc('target', 1, raises='BaseException')
        self.args = StarPack(z3.Const('target_args', Val))
        # exit codes are None, ints or other objects, but not bools (bool/int equality is outside pyvc's == model)
        st.assume(z3.Not(V.is_boolv(ecode(self.target.exc(self.args.val, z3.Const('target_kwargs', Val))))))
        me = Rec(ex, 'self', methods={'handle_exception': Nop()})
        me.init(st, _kwargs=self.kw, _target=(self.target if self.has_target else NONE), _args=self.args, daemon=z3.Bool('daemon'))
        self.me = me
        st.env['self'] = me
        ex.globals['logging'] = Module('logging')
        ex.globals['logging.getLogger'] = Fn(lambda e, s, a, k, n: [('ok', s, Rec(e, 'root', methods={'hasHandlers': Fn(lambda e2, s2, a2, k2, n2: [('ok', s2, fresh('has_handlers', z3.BoolSort()))]),
                                                                                                   'setLevel': Nop(), 'addHandler': Nop(), 'removeHandler': Nop()}))])
        ex.globals['logging.DEBUG'] = z3.IntVal(10)
        ex.globals['logging.handlers'] = Module('logging.handlers')
        ex.globals['logging.handlers.QueueHandler'] = Fn(lambda e, s, a, k, n: (lambda q: [('ok', s.fork().assume(q != NONE), q)])(fresh('qh')))
        ex.globals['logging.captureWarnings'] = Nop()
        ex.globals['RemoteException'] = Fn(lambda e, s, a, k, n: [('ok', s, remote_exc(box(e, a[0])))], name='RemoteException')
        ex.globals['sys'] = Module('sys')
        ex.globals['traceback'] = Module('traceback')
        return st

    def post(self, ex, outs):
        a = [self.args.val, self.kw.pack.val]
        z, ok, e = self.target.f(*a), self.target.ok(*a), self.target.exc(*a)
        for k, s, p in outs:
            sent, closed = self.pipe.get(s, 'sent'), self.pipe.get(s, 'closed')
            if k == 'raise':
                ex.oblige(s, 'exit: run() itself never raises (every outcome of the target is reported through the pipe)', False)
                continue
            if not self.has_target:
                ex.oblige(s, 'exit(no target): two messages (None, None), pipe closed', z3.And(sent == V.seq_of([NONE, NONE]), closed))
                continue
            code = ecode(e)
            is_exit = V.isinst(e, 'SystemExit')
            clean_exit = z3.And(is_exit, z3.Or(V.is_none(code), z3.And(V.is_intv(code), V.ival(code) == 0)))
            want_ok = sent == V.seq_of([z, NONE])
            want_none = sent == V.seq_of([NONE, NONE])
            want_err = sent == V.seq_of([NONE, remote_exc(e)])
            table = z3.If(ok, want_ok, z3.If(clean_exit, want_none, want_err))
            xc = box(ex, self.me.get(s, '_mpservice_exitcode_'))
            xc_table = z3.If(z3.Or(ok, clean_exit), xc == V.intv(0),
                             z3.If(z3.And(is_exit, V.is_intv(code)), xc == code, xc == V.intv(1)))
            ex.oblige(s, 'exit: exactly two messages (result, error) per the documented table; pipe closed; exit code as documented',
                      z3.And(table, closed, xc_table))


class ProcessRunNoTarget(ProcessRun):
    has_target = False
    canaries = ()
    expected_exits = ('normal',)


# ---------------------------------------------------------------- parent side collector
class ProcRec(Rec):
    """The Process object seen from the parent: `exitcode` is volatile (None until the child has exited, then stable)."""

    def __init__(self, ex, **kw):
        super().__init__(ex, 'self', **kw)
        self.xc = z3.Int('exitcode_final')

    def exited(self, st):
        return st.ghost['child_exited']

    def getattr(self, ex, st, name, node):
        if name == 'exitcode':
            st = st.fork()
            new = fresh('child_exited', z3.BoolSort())
            st.assume(z3.Implies(st.ghost['child_exited'], new))
            # once the pipe has reported EOF the child is gone or going: it will be observed exited eventually (spin loop)
            st.ghost['child_exited'] = new
            return [('ok', st, z3.If(new, V.intv(self.xc), NONE))]
        if name == 'sentinel':
            return [('ok', st, fresh('sentinel'))]
        return super().getattr(ex, st, name, node)


class CollectResult(Unit):
    prop = 'C12'
    file = CTX
    qual = 'SpawnProcess._collect_result'
    ignore_calls = ('time.sleep',)
    numeric_vals_are_ints = True
    expected_exits = ('normal',)
    canaries = (
        ('pinned-tree defect: raise instead of resolving the future',
         "                error = OSError(exitcode, msg)\n                error.__cause__ = exc", "                raise OSError(exitcode, msg) from exc", 'never raises'),
        ('error wins only when result is None', 'if error is not None:', 'if error is not None and result is None:', 'resolved exactly once'),
        ('set_result in the error branch', 'self._future_.set_exception(error)', 'self._future_.set_result(error)', 'resolved exactly once'),
        ('pinned-tree C20 defect: log reader stopped before the child has exited', '        multiprocessing.connection.wait([self.sentinel])\n', '', 'only after the child has exited'),
        ('log reader not waited for', '        self._logger_thread_.join()', '        pass', 'is waited for'),
        ('future left pending after deliberate terminate', '        if error is not None:\n            self._future_.set_exception(error)\n        else:\n            self._future_.set_result(result)',
         '        if error is not None:\n            self._future_.set_exception(error)\n        elif result is not None:\n            self._future_.set_result(result)', 'resolved exactly once'),
    )

    def setup(self, ex):
        st = St()
        # what the child sends before it closes its end / dies: a prefix of (result, error) -- crash point = length 0,1,2
        self.r, self.e = z3.Const('msg_result', Val), z3.Const('msg_error', Val)
        self.nsent = z3.Int('child_sent')
        st.assume(self.nsent >= 0, self.nsent <= 2)
        st.assume(z3.Or(V.is_none(self.e), V.isinst(self.e, 'BaseException')), *V.cls_facts(self.e))       # ProcessRun contract: error is None or an exception
        script = z3.SubSeq(V.seq_of([self.r, self.e]), 0, self.nsent)
        self.pipe = PipeReader(ex, 'pipe').init(st, script)
        self.fut = Future(ex).init(st)
        st.ghost['child_exited'] = z3.BoolVal(False)
        st.ghost['log_none'] = z3.IntVal(0)
        st.ghost['log_none_after_exit'] = z3.BoolVal(True)
        st.ghost['logger_joined'] = z3.BoolVal(False)

        def put(ex2, st2, args, kwargs, node):
            st2 = st2.fork()
            st2.ghost['log_none'] = st2.ghost['log_none'] + 1
            st2.ghost['log_none_after_exit'] = z3.And(st2.ghost['log_none_after_exit'], st2.ghost['child_exited'], box(ex2, args[0]) == NONE)
            return [('ok', st2, NONE)]

        def ljoin(ex2, st2, args, kwargs, node):
            st2 = st2.fork()
            st2.ghost['logger_joined'] = st2.ghost['log_none'] >= 1
            return [('ok', st2, NONE)]
        self.me = ProcRec(ex)
        self.me.init(st, _result_and_error_=self.pipe, _future_=self.fut,
                     _logger_queue_=Rec(ex, 'logq', methods={'put': Fn(put)}), _logger_thread_=Rec(ex, 'logthread', methods={'join': Fn(ljoin)}))
        st.env['self'] = self.me
        ex.globals['errno'] = Module('errno')
        ex.globals['errno.ENOTBLK'] = z3.IntVal(15)
        ex.globals['os'] = Module('os')
        ex.globals['os.strerror'] = Fn(lambda e, s, a, k, n: [('ok', s, fresh('strerror', z3.StringSort()))], trusted='os.strerror returns a string')
        # the signal module, should the code name signals symbolically: numbers as on Linux; strsignal() rejects numbers that are not signals
        for nm, v in (('SIGINT', 2), ('SIGKILL', 9), ('SIGSEGV', 11), ('SIGTERM', 15)):
            ex.globals['signal.' + nm] = z3.IntVal(v)

        def strsignal(e, s, a, k, n):
            from pyvc.core import as_int
            i = as_int(e, s, a[0])
            s1 = s.fork().assume(i >= 1, i <= 64)
            s2 = s.fork().assume(z3.Or(i < 1, i > 64))
            return [x for x in (('ok', s1, fresh('strsignal', z3.StringSort())), e.raise_new(s2, 'ValueError')) if e.feasible(x[1])]
        ex.globals['signal.strsignal'] = Fn(strsignal, trusted='signal.strsignal(n) raises ValueError unless n is a valid signal number (1..64)')

        def signals_enum(e, s, a, k, n):
            # the enum has a member only for the NAMED signals: 1..31, SIGRTMIN (34) and SIGRTMAX (64); any other number -- the real-time signals in
            # between, 0, negatives (an exit code that is not a signal death) -- raises ValueError
            from pyvc.core import as_int
            i = as_int(e, s, a[0])
            named = z3.Or(z3.And(i >= 1, i <= 31), i == 34, i == 64)
            s1 = s.fork().assume(named)
            s2 = s.fork().assume(z3.Not(named))
            member = Rec(e, 'signal_member', immutable=True).init(s1, name=fresh('signal_name', z3.StringSort()), value=i)
            return [x for x in (('ok', s1, member), e.raise_new(s2, 'ValueError')) if e.feasible(x[1])]
        ex.globals['signal.Signals'] = Fn(signals_enum, trusted='signal.Signals(n) raises ValueError unless n is the number of a named signal')
        ex.globals['time'] = Module('time')
        ex.globals['multiprocessing'] = Module('multiprocessing')
        ex.globals['multiprocessing.connection'] = Module('multiprocessing.connection')

        def mpwait(ex2, st2, args, kwargs, node):
            st2 = st2.fork()
            st2.ghost['child_exited'] = z3.BoolVal(True)
            return [('ok', st2, NONE)]
        ex.globals['multiprocessing.connection.wait'] = Fn(mpwait, trusted='multiprocessing.connection.wait([sentinel]) returns once the child process has exited')
        return st

    @property
    def loops(self):
        # spin loop `while self.exitcode is None: time.sleep(...)`: modifies nothing but the observation of the exit code
        return {0: LoopSpec(inv=lambda s, ex: z3.BoolVal(True), keep_ghost=('log_none', 'log_none_after_exit', 'logger_joined', 'peer_gone'))}

    def post(self, ex, outs):
        xc = self.me.xc
        for k, s, p in outs:
            if k == 'raise':
                ex.oblige(s, 'exit: the collector thread never raises (the outcome always goes into the future)', False)
                continue
            done, is_exc, val = self.fut.get(s, 'done'), self.fut.get(s, 'is_exc'), self.fut.get(s, 'val')
            full = self.nsent == 2
            # both messages arrived: future carries the sent outcome
            want_full = z3.If(V.is_none(self.e), z3.And(z3.Not(is_exc), val == self.r), z3.And(is_exc, val == self.e))
            # the child died first (EOF): deliberate terminate (SIGTERM) -> (None, no error); any other death -> an error
            got_result = z3.If(self.nsent >= 1, self.r, NONE)       # the result message may have got through before the child died
            died = z3.If(xc == -15, z3.And(z3.Not(is_exc), val == got_result), z3.And(is_exc, V.isinst(val, 'OSError')))
            ex.oblige(s, 'exit: the future is resolved exactly once, with the sent outcome, or with an error when the child died by an unexpected signal/exit',
                      z3.And(done, self.fut.get(s, 'nset') == 1, z3.If(full, want_full, died)))
            ex.oblige(s, 'exit: the pipe end is closed', self.pipe.get(s, 'closed'))
            ex.oblige(s, 'exit: the log reader is told to stop exactly once, only after the child has exited, and is waited for [C20]',
                      z3.And(s.ghost['log_none'] == 1, s.ghost['log_none_after_exit'], s.ghost['logger_joined']))


# ---------------------------------------------------------------- accessors of Process
class ProcAccessor(Unit):
    """join/result/exception/done agree with the future (resolved by the collector, CollectResult contract)."""
    prop = 'C12'
    file = CTX
    timeout_none = True
    numeric_vals_are_ints = True
    assumed_contracts = ('_collect_result resolves the future before the collector thread ends: unit C12:SpawnProcess._collect_result',
                         'done() == (exitcode is not None): unit C12:SpawnProcess.done')

    def setup(self, ex):
        st = St()
        self.is_exc, self.val = z3.Bool('outcome_is_exc'), z3.Const('outcome_val', Val)
        st.assume(z3.Implies(self.is_exc, V.isinst(self.val, 'BaseException')), *V.cls_facts(self.val))
        self.fut = Future(ex).init(st)
        st.ghost['child_exited'] = z3.BoolVal(False)
        st.ghost['collector_joined'] = z3.BoolVal(False)

        def cjoin(ex2, st2, args, kwargs, node):
            # joining the collector thread: on return the future is resolved (CollectResult: resolved on every path, never raises)
            ex2.oblige(st2, f'line {node.lineno}: the collector thread is joined only after the child is known to have exited', st2.ghost['child_exited'])
            st2 = st2.fork()
            self.fut.set(st2, 'done', z3.BoolVal(True))
            self.fut.set(st2, 'is_exc', self.is_exc)
            self.fut.set(st2, 'val', self.val)
            st2.ghost['collector_joined'] = z3.BoolVal(True)
            return [('ok', st2, NONE)]

        def done(ex2, st2, args, kwargs, node):
            return [('ok', st2, st2.ghost['child_exited'])]
        self.me = Rec(ex, 'self', methods={'done': Fn(done), 'join': Fn(self.join_model)})
        self.me.init(st, _future_=self.fut, _result_collector_thread_=Rec(ex, 'collector', methods={'join': Fn(cjoin)}))
        # exitcode: None until the child has exited, then some integer -- NOT determined by the outcome in the future (a child killed after it
        # delivered its result has a negative exit code and a good result): accessors must not derive errors from it
        self.xc = z3.Int('exitcode_final')

        def exitcode(ex2, st2):
            st2 = st2.fork()
            new = fresh('child_exited', z3.BoolSort())
            st2.assume(z3.Implies(st2.ghost['child_exited'], new))
            st2.ghost['child_exited'] = new
            return [x for x in (('ok', st2.fork().assume(new), V.intv(self.xc)), ('ok', st2.fork().assume(z3.Not(new)), NONE)) if ex2.feasible(x[1])]
        self.me.volatile['exitcode'] = exitcode
        ex.globals['errno'] = Module('errno')
        ex.globals['errno.ENOTBLK'] = z3.IntVal(15)
        ex.globals['os'] = Module('os')
        ex.globals['os.strerror'] = Fn(lambda e, s, a, k, n: [('ok', s, fresh('strerror', z3.StringSort()))])
        st.env['self'] = self.me
        self.timeout = NONE if self.timeout_none else z3.Real('timeout')
        st.env['timeout'] = self.timeout
        ex.globals['TimeoutError'] = ex.lookup('TimeoutError', st)
        return st

    def join_model(self, ex, st, args, kwargs, node):
        raise Unsupported('self.join not modelled in this unit')

    def on_call(self, ex, st, e, src):
        if src == 'super().join':
            # OS-level join: with timeout None it returns only after the child has exited; with a timeout it may time out
            outs = []
            s1 = st.fork()
            s1.ghost['child_exited'] = z3.BoolVal(True)
            outs.append(('ok', s1, NONE))
            if not self.timeout_none:
                outs.append(('ok', st.fork(), NONE))
            return outs
        return None


class ProcJoin(ProcAccessor):
    qual = 'SpawnProcess.join'
    canaries = (('swallows the error', '            raise self._future_.exception()', '            return self._future_.exception()', ''),
                ('collector thread not joined', 'self._result_collector_thread_.join()', 'pass', 'resolved when its outcome is read'))

    def post(self, ex, outs):
        for k, s, p in outs:
            if k in ('normal', 'return'):
                ex.oblige(s, 'exit(return): child exited without error (timeout=None): collector joined, outcome is not an error',
                          z3.And(s.ghost['child_exited'], s.ghost['collector_joined'], z3.Not(self.is_exc)))
            else:
                ex.oblige(s, 'exit(raise): raises the target\'s error, exactly when the outcome is an error', z3.And(self.is_exc, p == self.val))


class ProcJoinTimeout(ProcJoin):
    timeout_none = False
    variant = 'timeout'
    canaries = ()

    def post(self, ex, outs):
        for k, s, p in outs:
            if k in ('normal', 'return'):
                ex.oblige(s, 'exit(return): either still running (timed out, nothing consulted) or finished without error',
                          z3.Or(z3.Not(s.ghost['child_exited']), z3.And(s.ghost['collector_joined'], z3.Not(self.is_exc))))
            else:
                ex.oblige(s, 'exit(raise): raises the target\'s error, exactly when the outcome is an error', z3.And(self.is_exc, p == self.val, s.ghost['child_exited']))


class ProcException(ProcAccessor):
    qual = 'SpawnProcess.exception'
    timeout_none = False
    canaries = (('returns the result instead', 'return self._future_.exception()', 'return self._future_.result()', 'returns the error'),)

    def post(self, ex, outs):
        for k, s, p in outs:
            if k in ('normal', 'return'):
                ex.oblige(s, 'exit(return): returns the error object (or None) of the outcome, after the child exited',
                          z3.And(s.ghost['child_exited'], box(ex, p) == z3.If(self.is_exc, self.val, NONE)))
            else:
                ex.oblige(s, 'exit(raise): only TimeoutError, only while the child is still running',
                          z3.And(V.isinst(p, 'TimeoutError'), z3.Not(s.ghost['child_exited'])))


class ProcResult(ProcAccessor):
    qual = 'SpawnProcess.result'
    timeout_none = False
    assumed_contracts = ProcAccessor.assumed_contracts + ('join(): unit C12:SpawnProcess.join',)
    canaries = (('result() does not wait for the collector thread', 'self.join(timeout)', 'super().join(timeout)', 'resolved when its outcome is read'),)

    def join_model(self, ex, st, args, kwargs, node):
        # contract of join (proved above): times out silently, or child exited and (raises the error | returns)
        outs = [('ok', st.fork(), NONE)]         # timed out
        s1 = st.fork()
        s1.ghost['child_exited'] = z3.BoolVal(True)
        self.fut.set(s1, 'done', z3.BoolVal(True))
        self.fut.set(s1, 'is_exc', self.is_exc)
        self.fut.set(s1, 'val', self.val)
        s_ok = s1.fork().assume(z3.Not(self.is_exc))
        s_err = s1.fork().assume(self.is_exc)
        if ex.feasible(s_ok):
            outs.append(('ok', s_ok, NONE))
        if ex.feasible(s_err):
            outs.append(('raise', s_err, self.val))
        return outs

    def post(self, ex, outs):
        for k, s, p in outs:
            if k in ('normal', 'return'):
                ex.oblige(s, 'exit(return): returns the target\'s return value', z3.And(s.ghost['child_exited'], z3.Not(self.is_exc), box(ex, p) == self.val))
            else:
                ex.oblige(s, 'exit(raise): the target\'s error, or TimeoutError while still running',
                          z3.Or(z3.And(self.is_exc, p == self.val), z3.And(V.isinst(p, 'TimeoutError'), z3.Not(s.ghost['child_exited']))))


class ProcDone(Unit):
    prop = 'C12'
    file = CTX
    qual = 'SpawnProcess.done'
    canaries = (('done() negated', 'return self.exitcode is not None', 'return self.exitcode is None', 'done() <=>'),)

    def setup(self, ex):
        st = St()
        self.xc = z3.Const('exitcode', Val)
        st.env['self'] = Rec(ex, 'self', immutable=True).init(st, exitcode=self.xc)
        return st

    def post(self, ex, outs):
        for k, s, p in outs:
            if k in ('normal', 'return'):
                ex.oblige(s, 'exit: done() <=> the OS has reported the exit code', ex.truth(s, p) == z3.Not(V.is_none(self.xc)))
            else:
                ex.oblige(s, 'exit: never raises', False)


# ---------------------------------------------------------------- Thread
class ThreadRun(Unit):
    prop = 'C12'
    file = THR
    qual = 'Thread.run'
    ignore_calls = ('traceback.print_exc',)
    has_target = True
    numeric_vals_are_ints = True
    ignore_stmts = (r"e\.__traceback__ = None",)
    canaries = (
        ('exception stored as a result', '            self._future_.set_exception(e)\n            # Sometimes', '            self._future_.set_result(e)\n            # Sometimes', 'resolved exactly once'),
        ('sys.exit(0) reported as an error', 'if e.code == 0:', 'if e.code != 0:', 'resolved exactly once'),
        ('result set twice', 'self._future_.set_result(z)', 'self._future_.set_result(z)\n                self._future_.set_result(z)', 'still pending'),
    )

    def __init__(self):
        self.variant = 'target' if self.has_target else 'no-target'
        super().__init__()

    def setup(self, ex):
        st = St()
        self.target = UFunc('target', 1, raises='BaseException')
        self.args = StarPack(z3.Const('target_args', Val))
        self.kw = KwPack(z3.Const('target_kwargs', Val))
        st.assume(z3.Not(V.is_boolv(ecode(self.target.exc(self.args.val, self.kw.val)))))
        self.me = Rec(ex, 'self', methods={'handle_exception': Nop()})
        self.me.init(st, _target=(self.target if self.has_target else NONE), _args=self.args, _kwargs=self.kw, _daemonic=z3.Bool('daemonic'))
        st.env['self'] = self.me
        ex.globals['concurrent'] = Module('concurrent')
        ex.globals['concurrent.futures'] = Module('concurrent.futures')
        ex.globals['concurrent.futures.Future'] = FutureCtor()
        ex.globals['traceback'] = Module('traceback')
        ex.globals['threading'] = Module('threading')
        ex.globals['traceback.format_exception'] = Fn(lambda e, s, a, k, n: [('ok', s, fresh('formatted_traceback_lines'))], trusted='traceback.format_exception does not raise')
        ex.globals['threading.current_thread'] = Fn(lambda e, s, a, k, n: [('ok', s, Rec(e, 'current_thread', immutable=True).init(s, name=fresh('thread_name', z3.StringSort())))])

        # type(e)(tb): the constructor of the USER's exception class called with one string -- it may not accept that (a class with two required arguments,
        # a class that validates its argument ...): any Exception may come out of it
        def type_of(e, s, a, k, n):
            inst = box(e, a[0])

            def construct(e2, s2, a2, k2, n2):
                new = fresh('same_class_exception')
                s_ok = s2.fork().assume(V.ucls(new) == V.ucls(inst), *V.cls_facts(new))
                boom = fresh('exception_class_ctor_failure')
                s_bad = s2.fork().assume(V.isinst(boom, 'Exception'), *V.cls_facts(boom))
                return [('ok', s_ok, new), ('raise', s_bad, boom)]
            return [('ok', s, Fn(construct, name='type(e)'))]
        ex.globals['type'] = Fn(type_of)
        return st

    def on_call(self, ex, st, e, src):
        if src == "''.join":
            return ex.bind(ex.evargs(e, st), lambda s, ak: [('ok', s, fresh('traceback_text', z3.StringSort()))])
        return None

    def post(self, ex, outs):
        a = [self.args.val, self.kw.val]
        z, ok, e = self.target.f(*a), self.target.ok(*a), self.target.exc(*a)
        code = ecode(e)
        clean_exit = z3.And(V.isinst(e, 'SystemExit'), z3.Or(V.is_none(code), z3.And(V.is_intv(code), V.ival(code) == 0)))
        for k, s, p in outs:
            if k == 'raise':
                ex.oblige(s, 'exit: run() never raises', False)
                continue
            fut = self.me.get(s, '_future_')
            done, is_exc, val, nset = fut.get(s, 'done'), fut.get(s, 'is_exc'), fut.get(s, 'val'), fut.get(s, 'nset')
            if not self.has_target:
                want = z3.And(z3.Not(is_exc), val == NONE)
            else:
                want = z3.If(ok, z3.And(z3.Not(is_exc), val == z), z3.If(clean_exit, z3.And(z3.Not(is_exc), val == NONE), z3.And(is_exc, val == e)))
            ex.oblige(s, 'exit: the future is resolved exactly once: return value, None for a clean sys.exit, the exception otherwise',
                      z3.And(done, nset == 1, want))


class ThreadRunNoTarget(ThreadRun):
    has_target = False
    canaries = ()


class ThreadAccessor(Unit):
    prop = 'C12'
    file = THR
    timeout_none = False
    assumed_contracts = ('Thread.run resolves the future on every path before the thread ends: unit C12:Thread.run',)

    def setup(self, ex):
        st = St()
        self.is_exc, self.val = z3.Bool('outcome_is_exc'), z3.Const('outcome_val', Val)
        st.assume(z3.Implies(self.is_exc, V.isinst(self.val, 'BaseException')), *V.cls_facts(self.val))
        self.fut = Future(ex).init(st)
        st.ghost['ended'] = z3.BoolVal(False)

        def is_alive(ex2, st2, args, kwargs, node):
            return [('ok', st2, z3.Not(st2.ghost['ended']))]
        self.me = Rec(ex, 'self', methods={'is_alive': Fn(is_alive, trusted='Thread.is_alive() is False exactly after run() has ended (for a started thread)')})
        self.me.init(st, _future_=self.fut)
        st.env['self'] = self.me
        st.env['timeout'] = NONE if self.timeout_none else z3.Real('timeout')
        ex.globals['TimeoutError'] = ex.lookup('TimeoutError', st)
        return st

    def on_call(self, ex, st, e, src):
        if src == 'super().join':
            s1 = st.fork()
            s1.ghost['ended'] = z3.BoolVal(True)
            self.fut.set(s1, 'done', z3.BoolVal(True))
            self.fut.set(s1, 'is_exc', self.is_exc)
            self.fut.set(s1, 'val', self.val)
            outs = [('ok', s1, NONE)]
            if not self.timeout_none:
                outs.append(('ok', st.fork(), NONE))
            return outs
        return None


class ThreadJoin(ThreadAccessor):
    qual = 'Thread.join'
    canaries = (('error swallowed', 'raise self._future_.exception()', 'pass', 'finished without error'),)

    def post(self, ex, outs):
        for k, s, p in outs:
            if k in ('normal', 'return'):
                ex.oblige(s, 'exit(return): still running (timed out) or finished without error', z3.Or(z3.Not(s.ghost['ended']), z3.Not(self.is_exc)))
            else:
                ex.oblige(s, 'exit(raise): the target\'s error, exactly when the outcome is an error', z3.And(s.ghost['ended'], self.is_exc, p == self.val))


class ThreadResult(ThreadAccessor):
    qual = 'Thread.result'

    def post(self, ex, outs):
        for k, s, p in outs:
            if k in ('normal', 'return'):
                ex.oblige(s, 'exit(return): the target\'s return value', z3.And(s.ghost['ended'], z3.Not(self.is_exc), box(ex, p) == self.val))
            else:
                ex.oblige(s, 'exit(raise): the target\'s error, or TimeoutError while still running',
                          z3.Or(z3.And(s.ghost['ended'], self.is_exc, p == self.val), z3.And(V.isinst(p, 'TimeoutError'), z3.Not(s.ghost['ended']))))


class ThreadException(ThreadAccessor):
    qual = 'Thread.exception'

    def post(self, ex, outs):
        for k, s, p in outs:
            if k in ('normal', 'return'):
                ex.oblige(s, 'exit(return): the error object (or None) of the outcome', z3.And(s.ghost['ended'], box(ex, p) == z3.If(self.is_exc, self.val, NONE)))
            else:
                ex.oblige(s, 'exit(raise): only TimeoutError while still running', z3.And(V.isinst(p, 'TimeoutError'), z3.Not(s.ghost['ended'])))


class DictObj(Obj):
    """a dict with identity (the caller's kwargs vs. a private copy)"""

    def __init__(self, ex, label, keys=()):
        super().__init__(ex, label)
        self.keys = set(keys)

    def havoc(self, ex, st):
        pass

    def setitem(self, ex, st, idx, v, node):
        st = st.fork()
        st.ghost['stores'] = st.ghost.get('stores', ()) + ((self, idx.as_string() if z3.is_string_value(idx) else str(idx), v),)
        return [('ok', st, None)]

    def contains(self, ex, st, item):
        return z3.BoolVal(False)         # precondition: the private keys are not used by the caller

    def truth(self, ex, st):
        return fresh('kwargs_nonempty', z3.BoolSort())


class ProcInit(Unit):
    """SpawnProcess.__init__: the pipe's write end and the log queue go into a PRIVATE copy of the caller's kwargs (the parent must
    not keep the write end alive, or it would never see EOF when the child dies) and the read end / queue are kept on the object."""
    prop = 'C12'
    file = CTX
    qual = 'SpawnProcess.__init__'
    caller_none = False
    ignore_stmts = (r'assert not hasattr\(.*',)
    canaries = (('caller\'s dict used without copying', '            kwargs = dict(kwargs)', '            pass', 'private copy'),
                ('reader and writer swapped', "kwargs['_result_and_error_'] = writer", "kwargs['_result_and_error_'] = reader", 'write end'))

    def __init__(self):
        if self.caller_none:
            self.variant = 'kwargs=None'
        super().__init__()

    def setup(self, ex):
        st = St()
        self.me = Rec(ex, 'self')
        self.caller = DictObj(ex, 'caller_kwargs')
        self.reader, self.writer = Rec(ex, 'reader'), Rec(ex, 'writer')
        from pyvc.vals import PyTuple
        st.env.update(self=self.me, args=StarPack(z3.Const('args', Val)), kwargs=(NONE if self.caller_none else self.caller), moreargs=KwPack(z3.Const('moreargs', Val)))
        ex.globals['multiprocessing.connection.Pipe'] = Fn(lambda e, s, a, k, n: [('ok', s, PyTuple([self.reader, self.writer]))], trusted='Pipe(duplex=False) returns (read end, write end)')
        self.logq = Rec(ex, 'logq')
        def mkq(e, s, a, k, n):
            # [C20] the child's logging.handlers.QueueHandler enqueues with put_nowait: on a bounded queue that is full the record is dropped in the child
            e.oblige(s, f'line {n.lineno}: [C20] the log queue is unbounded (the child enqueues records without blocking: a full queue would drop them)', z3.BoolVal(not a and not k))
            return [('ok', s, self.logq)]
        ex.globals['MP_SPAWN_CTX'] = Rec(ex, 'ctx', methods={'Queue': Fn(mkq)})
        self.copies = []

        def mkdict(e, s, a, k, n):
            d = DictObj(e, 'private_kwargs')
            self.copies.append((d, unbox_handle(e, a[0]) if a else None))
            return [('ok', s, d)]
        ex.globals['dict'] = Fn(mkdict, name='dict')
        st.ghost['super_init'] = ()
        return st

    def ev_hook(self):
        pass

    def on_call(self, ex, st, e, src):
        if src == 'super().__init__':
            def f(s, ak):
                s = s.fork()
                s.ghost['super_init'] = s.ghost['super_init'] + ((ak[0], ak[1]),)
                return [('ok', s, NONE)]
            return ex.bind(ex.evargs(e, st), f)
        if src == 'dict' and not e.args:
            return None
        return None

    def post(self, ex, outs):
        for k, s, p in outs:
            if k in ('normal', 'return'):
                stores = s.ghost.get('stores', ())
                target = {key: (d, v) for d, key, v in stores}
                sup = s.ghost['super_init']
                ok = set(target) == {'_result_and_error_', '_logger_queue_'} and len(sup) == 1
                if ok:
                    d1, w = target['_result_and_error_']
                    d2, q = target['_logger_queue_']
                    passed = unbox_handle(ex, sup[0][1].get('kwargs'))
                    ok = d1 is d2 and d1 is not self.caller and unbox_handle(ex, w) is self.writer and unbox_handle(ex, q) is self.logq and passed is d1
                    ok = ok and (self.caller_none or any(c[0] is d1 and c[1] is self.caller for c in self.copies))
                    ok = ok and self.me.get(s, '_result_and_error_') is self.reader and self.me.get(s, '_logger_queue_') is self.logq
                ex.oblige(s, 'exit: write end + log queue stored in a private copy of the caller\'s kwargs (which is what the child receives); read end + queue kept on the object',
                          z3.BoolVal(bool(ok)))
            else:
                ex.oblige(s, 'exit: does not raise (under the precondition that the private keys are unused)', False)


class ProcInitNone(ProcInit):
    caller_none = True
    canaries = ()


class Agreement(LemmaUnit):
    """Top-level lemma: the accessors agree with each other because each equals a function of the single outcome stored
    in the future (ProcessRun table -> pipe -> CollectResult -> future -> accessors)."""
    prop = 'C12'
    qual = 'lemma(agreement)'

    def lemmas(self):
        is_exc = z3.Bool('is_exc')
        val = z3.Const('val', Val)
        j_raises, r_raises = z3.Bools('join_raises result_raises')
        exc_ret, res_ret, j_exc, r_exc = z3.Consts('exception_returns result_returns join_raised result_raised', Val)
        hyps = [j_raises == is_exc, z3.Implies(j_raises, j_exc == val), r_raises == is_exc, z3.Implies(r_raises, r_exc == val),
                z3.Implies(z3.Not(r_raises), res_ret == val), exc_ret == z3.If(is_exc, val, NONE)]
        yield ('join raises <=> result raises <=> exception() is not None, and they carry the same object',
               hyps + [z3.Implies(is_exc, V.isinst(val, 'BaseException'))] + V.cls_facts(val),
               z3.And(j_raises == r_raises, j_raises == z3.Not(V.is_none(exc_ret)), z3.Implies(j_raises, z3.And(j_exc == r_exc, j_exc == exc_ret))))



# ================================================================ wait() / as_completed(): futures are mapped back to their own workers
import ast as _ast       # noqa: E402
worker_at = z3.Function('worker_at', z3.IntSort(), Val)
wfut_at = z3.Function('future_of_worker_at', z3.IntSort(), Val)          # worker_at(i)._future_
py_id = z3.Function('py_id', Val, z3.IntSort())
IDX = z3.Int('generic_index')


class Fam(Obj):
    """a sequence/set/dict built by a comprehension over the workers: element (key, value) as z3 terms of the generic index IDX,
    restricted to the indices satisfying `member` (a predicate of IDX)"""

    def __init__(self, ex, kind, elem, key=None, member=None):
        super().__init__(ex, kind)
        self.kind, self.elem, self.key, self.member = kind, elem, key, member if member is not None else z3.BoolVal(True)

    def havoc(self, ex, st):
        pass

    def at(self, term, j):
        return z3.substitute(term, (IDX, j))

    def truth(self, ex, st):
        return z3.Bool(f'{self.kind}_{self.oid}_nonempty')

    def getitem(self, ex, st, idx, node):
        # dict lookup: the value whose key equals idx.  Keys are ids of the workers' futures: injective (obligation below), so the
        # lookup of key(j) is value(j); any other key has no known value.
        if self.kind != 'dict':
            raise Unsupported('subscript of a comprehension result')
        k = idx if z3.is_expr(idx) and idx.sort() == z3.IntSort() else None
        if k is None:
            raise Unsupported('dict key')
        res = fresh('looked_up_value')
        j, i2 = fresh('some_index', z3.IntSort()), fresh('other_index', z3.IntSort())
        ex.oblige(st, f'line {node.lineno}: the keys of the future->worker map are pairwise distinct (one entry per worker)',
                  z3.Implies(z3.And(j >= 0, i2 >= 0, self.at(self.key, j) == self.at(self.key, i2)), j == i2))
        # dict semantics, instantiated at every worker index that occurs in the key being looked up
        cands, stack, seen = [], [k], set()
        while stack:
            t = stack.pop()
            if t.get_id() in seen:
                continue
            seen.add(t.get_id())
            if z3.is_app(t) and (t.decl().eq(wfut_at) or t.decl().eq(worker_at)):
                cands.append(t.arg(0))
            stack.extend(t.children())
        st = st.fork()
        for c in cands:
            st.assume(z3.Implies(z3.And(c >= 0, k == self.at(self.key, c)), res == self.at(self.elem, c)))
        return [('ok', st, res)]


class WaitUnitBase(Unit):
    """wait(workers, timeout, return_when): hands ALL the workers' own futures to concurrent.futures.wait and maps every future of the two
    result sets back to ITS OWN worker (so: done/not_done are the workers whose targets have / have not ended)."""
    prop = 'C12'
    file = 'multiprocessing/__init__.py'
    qual = 'wait'
    variant = 'multiprocessing'
    canaries = (('map keyed by the worker instead of its future', 'future_to_thread = {id(t._future_): t for t in workers}', 'future_to_thread = {id(t): t for t in workers}', ''),
                ('done and not_done swapped', 'return done, not_done', 'return not_done, done', ''),
                ('the workers themselves are handed to concurrent.futures.wait', 'futures = [t._future_ for t in workers]', 'futures = [t for t in workers]', ''))

    def setup(self, ex):
        st = St()
        self.workers = Fam(ex, 'workers', worker_at(IDX))
        self.done = z3.Function('future_is_done', Val, z3.BoolSort())
        st.env.update(workers=self.workers, threads=self.workers, timeout=z3.Const('timeout', Val), return_when=RetWhen(ex))
        # every worker has its own future; ids of live objects are unique
        i, j = z3.Ints('wi wj')
        self.facts = lambda a, b: [z3.Implies(wfut_at(a) == wfut_at(b), a == b), z3.Implies(py_id(wfut_at(a)) == py_id(wfut_at(b)), wfut_at(a) == wfut_at(b)),
                                   z3.Implies(py_id(worker_at(a)) == py_id(wfut_at(b)), False)]
        st.ghost['cfwait'] = ()
        ex.sym_models['t'] = self
        ex.sym_models['f'] = self

        def cf_wait(e, s, a, k, n):
            s = s.fork()
            futs = unbox_handle(e, a[0])
            ok = isinstance(futs, Fam) and futs.kind == 'list'
            e.oblige(s, f'line {n.lineno}: concurrent.futures.wait gets the futures of ALL the workers, each worker\'s own (with the caller\'s timeout and return_when)',
                     z3.And(futs.elem == wfut_at(IDX), futs.member == z3.BoolVal(True), box(e, k.get('timeout')) == z3.Const('timeout', Val), box(e, k.get('return_when')) == z3.Const('RETURN_WHEN_UPPER', Val)) if ok else z3.BoolVal(False))
            s.ghost['cfwait'] = s.ghost['cfwait'] + (1,)
            d = Fam(e, 'set', wfut_at(IDX), member=self.done(wfut_at(IDX)))
            nd = Fam(e, 'set', wfut_at(IDX), member=z3.Not(self.done(wfut_at(IDX))))
            return [('ok', s, PyTuple([d, nd]))]
        ex.globals['concurrent.futures.wait'] = Fn(cf_wait, trusted='concurrent.futures.wait(fs, timeout, return_when) returns (done, not_done), a partition of fs')
        return st

    # t._future_ of a worker term
    def getattr(self, ex, st, base, attr, node):
        if attr == '_future_':
            b = z3.simplify(base)
            if z3.is_app(b) and b.decl().eq(worker_at):
                return [('ok', st, wfut_at(b.arg(0)))]
        raise Unsupported(f'.{attr} on {base}')

    def on_comprehension(self, ex, st, e):
        gens = e.generators
        if len(gens) != 1 or gens[0].ifs or not isinstance(gens[0].target, _ast.Name):
            return None
        var = gens[0].target.id

        def f(s, src):
            src = unbox_handle(ex, src)
            if not isinstance(src, Fam):
                raise Unsupported('comprehension over something else than the workers / a wait() result set')
            s2 = s.fork()
            s2.env = dict(s.env)
            s2.env[var] = src.elem            # the element at the generic index
            if isinstance(e, _ast.DictComp):
                (k1, s3, key), = ex.ev(e.key, s2)
                (k2, s4, val), = ex.ev(e.value, s3)
                return [('ok', s, Fam(ex, 'dict', box(ex, val), key=key, member=src.member))]
            (k1, s3, val), = ex.ev(e.elt, s2)
            out = Fam(ex, 'list' if isinstance(e, _ast.ListComp) else 'gen', box(ex, val), member=src.member)
            s = s.fork()
            s.pc = list(s3.pc)                # keep the facts gained while evaluating the element expression (dict lookups)
            return [('ok', s, out)]
        return ex.bind(ex.ev(gens[0].iter, st), f)

    def on_call(self, ex, st, e, src):
        if src == 'set' and len(e.args) == 1:
            def f(s, g):
                g = unbox_handle(ex, g)
                if not isinstance(g, Fam):
                    raise Unsupported('set() of something else')
                return [('ok', s, Fam(ex, 'set', g.elem, member=g.member))]
            return ex.bind(ex.ev(e.args[0], st), f)
        return None

    def post(self, ex, outs):
        a, b = z3.Ints('wi wj')
        for k, s, p in outs:
            if k not in ('normal', 'return'):
                ex.oblige(s, 'exit: does not raise', False)
                continue
            p = unbox_handle(ex, p)
            ok = isinstance(p, PyTuple) and len(p.items) == 2 and len(s.ghost['cfwait']) == 1
            if not ok:
                ex.oblige(s, 'exit: returns (done, not_done) after one concurrent.futures.wait', False)
                continue
            d, nd = (unbox_handle(ex, x) for x in p.items)
            done_i = self.done(wfut_at(IDX))
            # an empty result set is returned as is (the empty set of futures): fine, nothing to map
            def good(fam, member):
                if not isinstance(fam, Fam):
                    return z3.BoolVal(False)
                mapped = z3.And(z3.Implies(IDX >= 0, fam.elem == worker_at(IDX)), fam.member == member)
                unmapped_empty = z3.And(z3.Not(fam.truth(ex, s)), fam.member == member)
                return z3.Or(mapped, unmapped_empty)
            ex.oblige(s, 'exit: done is exactly the set of workers whose own future is done, not_done exactly the others (each future mapped back to its own worker)', z3.And(good(d, done_i), good(nd, z3.Not(done_i))))

    def run(self, override=None):
        res = super().run(override)
        # the witness instantiation and the injectivity facts are hypotheses of every obligation
        a, b = z3.Ints('wi wj')
        for ob in res['obligations']:
            idxs = [v for v in _consts(ob) if v.sort() == z3.IntSort()]
            extra = []
            for x in idxs[:6]:
                for y in idxs[:6]:
                    extra += self.facts(x, y)
            ob.hyps = list(ob.hyps) + extra
        return res


def _consts(ob):
    seen, out, stack = set(), [], [ob.goal] + list(ob.hyps)
    while stack:
        t = stack.pop()
        if not z3.is_expr(t) or t.get_id() in seen:
            continue
        seen.add(t.get_id())
        if z3.is_const(t) and t.decl().kind() == z3.Z3_OP_UNINTERPRETED:
            out.append(t)
        stack.extend(t.children())
    return out


class RetWhen(Obj):
    def __init__(self, ex):
        super().__init__(ex, 'return_when')

    def havoc(self, ex, st):
        pass

    def m_upper(self, ex, st, args, kwargs, node):
        return [('ok', st, z3.Const('RETURN_WHEN_UPPER', Val))]


class WaitUnitThreading(WaitUnitBase):
    file = THR
    variant = 'threading'
    canaries = ()


class AsCompletedUnit(WaitUnitBase):
    """as_completed(workers, timeout): yields, for every future concurrent.futures.as_completed produces, that future's own worker."""
    qual = 'as_completed'
    canaries = (('map keyed by the worker instead of its future', 'future_to_thread = {id(t._future_): t for t in workers}', 'future_to_thread = {id(t): t for t in workers}', ''),)

    def setup(self, ex):
        st = super().setup(ex)
        st.ghost['out'] = V.EMPTY
        self.order = z3.Function('completion_order', z3.IntSort(), z3.IntSort())      # index of the worker whose future completes k-th
        unit = self

        class Completed(Obj):
            def havoc(self_, e, s):
                pass

            def iter_start(self_, e, s, node):
                s = s.fork()
                s.ghost['ci'] = z3.IntVal(0)
                return [('ok', s, self_)]

            def havoc_index(self_, s):
                i = fresh('ci', z3.IntSort())
                s.assume(i >= 0)
                s.ghost['ci'] = i

            def idx(self_, s):
                return s.ghost['ci']

            def pull(self_, e, s, node):
                i = s.ghost['ci']
                s1 = s.fork().assume(unit.order(i) >= 0)
                s1.ghost['ci'] = i + 1
                s2 = s.fork()
                s2.ghost['ended'] = i
                s3 = s.fork()
                return [('item', s1, wfut_at(unit.order(i))), ('stop', s2, None), e.raise_new(s3, 'TimeoutError')]

        def cf_as_completed(e, s, a, k, n):
            s = s.fork()
            futs = unbox_handle(e, a[0])
            ok = isinstance(futs, Fam) and futs.kind == 'list'
            e.oblige(s, f'line {n.lineno}: concurrent.futures.as_completed gets the futures of ALL the workers, each worker\'s own (with the caller\'s timeout)',
                     z3.And(futs.elem == wfut_at(IDX), futs.member == z3.BoolVal(True), box(e, k.get('timeout')) == z3.Const('timeout', Val)) if ok else z3.BoolVal(False))
            s.ghost['cfwait'] = s.ghost['cfwait'] + (1,)
            return [('ok', s, Completed(e, 'as_completed(...)'))]
        ex.globals['concurrent.futures.as_completed'] = Fn(cf_as_completed, trusted='concurrent.futures.as_completed(fs, timeout) yields each future of fs once, as it completes; TimeoutError at the deadline')
        return st

    def on_yield(self, ex, st, val, node):
        i = st.ghost['ci'] - 1
        w = self.order(i)
        ex.oblige(st, f'line {node.lineno}: what is yielded for the k-th completed future is that future\'s own worker', val == worker_at(w))
        st.ghost['out'] = z3.Concat(st.ghost['out'], z3.Unit(val))

    @property
    def loops(self):
        return {0: LoopSpec(inv=lambda s, ex: z3.Length(s.ghost['out']) == s.ghost['ci'], keep=('futures', 'future_to_thread'))}

    def post(self, ex, outs):
        for k, s, p in outs:
            if k in ('normal', 'return'):
                ex.oblige(s, 'exit: one worker yielded per completed future, after one concurrent.futures.as_completed', z3.And(z3.Length(s.ghost['out']) == s.ghost.get('ended', z3.IntVal(-1)), z3.BoolVal(len(s.ghost['cfwait']) == 1)))
            else:
                ex.oblige(s, 'exit(raise): only the time-out of concurrent.futures.as_completed', V.isinst(p, 'TimeoutError'))


class AsCompletedUnitThreading(AsCompletedUnit):
    file = THR
    variant = 'threading'
    canaries = ()


UNITS_WAIT = [WaitUnitBase, WaitUnitThreading, AsCompletedUnit, AsCompletedUnitThreading]


class ThreadDone(Unit):
    """Thread.done(): False while the target runs and before start; True exactly when the thread was started and is no longer alive (consistent with join/result)."""
    prop = 'C12'
    file = THR
    qual = 'Thread.done'
    canaries = (('a thread that was never started reports done', 'return self._started.is_set()', 'return True', ''),)

    def setup(self, ex):
        st = St()
        self.alive, self.started = z3.Bool('is_alive'), z3.Bool('started')
        st.assume(z3.Implies(self.alive, self.started))
        me = Rec(ex, 'self', immutable=True, methods={'is_alive': Fn(lambda e, s, a, k, n: [('ok', s, self.alive)])})
        me.init(st, _started=Rec(ex, 'started_event', immutable=True, methods={'is_set': Fn(lambda e, s, a, k, n: [('ok', s, self.started)])}))
        st.env['self'] = me
        return st

    def post(self, ex, outs):
        for k, s, p in outs:
            ex.oblige(s, 'exit: done() == started and not alive', z3.And(z3.BoolVal(k in ('normal', 'return')), box(ex, p) == V.boolv(z3.And(self.started, z3.Not(self.alive)))) if k in ('normal', 'return') else z3.BoolVal(False))


class ThreadTerminate(Unit):
    """Thread.terminate(): keeps throwing SystemExit into the thread until it is no longer alive; returns only then (or when throw() reports it already ended)."""
    prop = 'C12'
    file = THR
    qual = 'Thread.terminate'
    canaries = (('gives up after one attempt', '        while self.is_alive():', '        if self.is_alive():', ''),
                ('throws an exception the target may catch', 'self.throw(SystemExit)', 'self.throw(Exception)', ''))

    def setup(self, ex):
        st = St()
        st.ghost['throws'] = ()
        st.ghost['alive_seen'] = None

        def is_alive(e, s, a, k, n):
            b = fresh('alive', z3.BoolSort())
            s = s.fork()
            s.ghost['alive_seen'] = b
            return [('ok', s, b)]

        def throw(e, s, a, k, n):
            s = s.fork()
            c = unbox_handle(e, a[0])
            s.ghost['throws'] = s.ghost['throws'] + (getattr(c, 'name', None),)
            # the thread may end between is_alive() and throw(): InvalidStateError
            return [('ok', s, NONE), e.raise_new(s.fork(), 'mp.InvalidStateError')]
        me = Rec(ex, 'self', immutable=True, methods={'is_alive': Fn(is_alive), 'throw': Fn(throw)})
        st.env['self'] = me
        return st

    def on_call(self, ex, st, e, src):
        if src == 'super().join':
            st = st.fork()
            st.ghost['waited'] = True
            return [('ok', st, NONE)]
        return None

    @property
    def loops(self):
        sp = LoopSpec(inv=lambda s, ex: z3.BoolVal(all(t == 'SystemExit' for t in s.ghost['throws'])), keep_ghost=('throws',))

        def head(h, ex):
            h.ghost['throws_at_head'] = len(h.ghost['throws'])
            h.ghost['waited'] = False
        sp.at_head = head
        # every round on a thread found alive makes progress towards its end: one SystemExit thrown into it, then a short wait (not a spin)
        sp.on_backedge = lambda s, ex: ex.oblige(s, 'iteration: a thread found alive gets SystemExit thrown into it (once per round) and is then given a moment (bounded join) before the next look',
                                                 z3.BoolVal(len(s.ghost['throws']) == s.ghost.get('throws_at_head', 0) + 1 and bool(s.ghost.get('waited'))))
        return {0: sp}

    def post(self, ex, outs):
        for k, s, p in outs:
            thr = s.ghost['throws']
            if k in ('normal', 'return'):
                ex.oblige(s, 'exit: returns only once is_alive() is False; everything thrown was SystemExit', z3.And(z3.Not(s.ghost['alive_seen']) if s.ghost['alive_seen'] is not None else z3.BoolVal(False), z3.BoolVal(all(t == 'SystemExit' for t in thr))))
            else:
                ex.oblige(s, 'exit(raise): only the "thread is not running" error of throw() (the thread ended by itself in between)', V.isinst(p, 'mp.InvalidStateError'))


class StartUnit(Unit):
    prop = 'C20'
    file = CTX
    qual = 'SpawnProcess.start'
    ignore_stmts = (r'self\._finalizer_ = .*',)
    canaries = (('log reader started on another queue', 'args=(self._logger_queue_,),', 'args=(MP_SPAWN_CTX.Queue(),),', 'reads this process'),
                ('collector thread not started', '        self._result_collector_thread_.start()', '        pass', 'both started'),
                ('no future for the collector to resolve', '        self._future_ = concurrent.futures.Future()\n', '', 'pending future'))

    def setup(self, ex):
        st = St()
        self.logq = z3.Const('logger_queue', Val)
        self.run_logger = Fn(lambda e, s, a, k, n: [('ok', s, NONE)], name='_run_logger')
        self.collect = Fn(lambda e, s, a, k, n: [('ok', s, NONE)], name='_collect_result')
        self.me = Rec(ex, 'self', methods={'_run_logger': self.run_logger, '_collect_result': self.collect}).init(st, _logger_queue_=self.logq, name=z3.String('name'), daemon=z3.Bool('daemon'))
        st.env['self'] = self.me
        ex.globals['Thread'] = ThreadCtor()
        from pyvc.models import FutureCtor
        ex.globals['concurrent.futures.Future'] = FutureCtor()
        ex.globals['MP_SPAWN_CTX'] = Rec(ex, 'ctx', methods={'Queue': Fn(lambda e, s, a, k, n: [('ok', s, fresh('otherq'))])})
        st.ghost['os_started'] = z3.BoolVal(False)
        return st

    def on_call(self, ex, st, e, src):
        if src == 'super().start':
            st = st.fork()
            st.ghost['os_started'] = z3.BoolVal(True)
            return [('ok', st, NONE)]
        if src == 'getattr':
            return [('ok', st, st.env['self'].get(st, 'daemon'))]
        return None

    def on_thread_start(self, ex, st, t, node):
        # [C12] the collector resolves self._future_: it must exist -- a future of this start, pending -- before that thread runs
        if t.target is self.collect:
            from pyvc.models import Future
            f = unbox_handle(ex, self.me.get(st, '_future_')) if self.me.has(st, '_future_') else None
            ex.oblige(st, f'line {node.lineno}: [C12] a new, pending future is stored on the process before the result collector (which resolves it) is started',
                      z3.And(z3.BoolVal(isinstance(f, Future)), z3.Not(f.get(st, 'done'))) if isinstance(f, Future) else z3.BoolVal(False))

    def post(self, ex, outs):
        for k, s, p in outs:
            if k in ('normal', 'return'):
                th = [o for o in ex.objs.values() if isinstance(o, ThreadObj)]
                lg = [t for t in th if t.target is self.run_logger]
                co = [t for t in th if t.target is self.collect]
                ok = len(th) == 2 and len(lg) == 1 and len(co) == 1
                args = unbox_handle(ex, lg[0].args) if ok else None
                ok = ok and isinstance(args, PyTuple) and len(args.items) == 1
                ex.oblige(s, 'exit: the log reader thread reads this process\'s log queue, the result collector runs _collect_result; both started after the OS process',
                          z3.And(z3.BoolVal(bool(ok)), box(ex, args.items[0]) == self.logq, lg[0].get(s, 'started'), co[0].get(s, 'started'), s.ghost['os_started'],
                                 z3.BoolVal(self.me.get(s, '_logger_thread_') is lg[0])) if ok else z3.BoolVal(False))
            else:
                ex.oblige(s, 'exit: does not raise', False)



UNITS_THREAD_EXTRA = [ThreadDone, ThreadTerminate]

UNITS = [ProcInit, ProcInitNone, ProcessRun, ProcessRunNoTarget, CollectResult, ProcJoin, ProcJoinTimeout, ProcException, ProcResult, ProcDone,
         ThreadRun, ThreadRunNoTarget, ThreadJoin, ThreadResult, ThreadException] + UNITS_THREAD_EXTRA + UNITS_WAIT + [StartUnit, Agreement]


SCENARIOS = [('', 'replay/scenarios/c12_sigkill_wait.py'), ('', 'replay/scenarios/c12_exotic_exceptions.py')]
