"""C19 — EagerBatcher partitions its input and waits no longer than told."""
import z3

from pyvc import vals as V
from pyvc.vals import Val, SeqV, NONE, fresh
from pyvc.unit import Unit, LoopSpec
from pyvc.models import SpecFn, Rec, TimedQueue, GhostClock, Sleep, seqof, snoc
from pyvc.core import St, Module

F = 'streamer/_streamer.py'

ASSUMPTIONS = (
    'time passes only inside blocking queue calls; a timed get raises Empty exactly at its timeout (real-time accuracy of the OS timer is not decided)',
    'float arithmetic on times is exact real arithmetic',
    '`==` between a queue item and the end marker is logical equality (total, side-effect free)',
    'the input queue has this EagerBatcher as its only consumer',
)
NOT_DECIDED = ('wall-clock accuracy of queue.get(timeout=...)',)


class EagerBatcherIter(Unit):
    prop = 'C19'
    file = F
    qual = 'EagerBatcher.__iter__'
    consumer_may_stop = True
    expected_exits = ('normal',)
    canaries = (
        ('batch may exceed batch_size', 'while n < batchsize:', 'while n <= batchsize:', 'has 1..batch_size'),
        ('deadline reset for every item', '                batch.append(z)\n                n += 1',
         '                batch.append(z)\n                n += 1\n                deadline = time.perf_counter() + batchwaittime', 'invariant preserved'),
        ('end marker appended to the batch', '                    if z is None:\n                        yield batch\n                        return',
         '                    if z is None:\n                        batch.append(z)\n                        yield batch\n                        return', 'concatenation'),
        ('waits although the deadline passed', 'z = q_in.get(timeout=max(0, t))', 'z = q_in.get(timeout=max(1, t))', 'no later than'),
        ('item dropped on timeout path', '                batch.append(z)\n                n += 1', '                n += 1', 'invariant preserved'),
    )

    def setup(self, ex):
        st = St()
        self.bs = z3.Int('batch_size')
        self.w = z3.Real('batch_wait_time')
        self.END = z3.Const('endmarker', Val)
        st.assume(self.bs >= 1, self.w >= 0)
        self.sflat = SpecFn('sflatten', lambda acc, v: z3.Concat(acc, seqof(v)))
        self.noend = SpecFn('noend', lambda acc, x: z3.And(acc, x != self.END), result_sort=z3.BoolSort(), empty=z3.BoolVal(True))
        st.assume(*self.sflat.base_facts(), *self.noend.base_facts())
        self.q = TimedQueue(ex, 'q', fns=(self.noend,))
        self.q.init(st)
        me = Rec(ex, 'self', immutable=True).init(st, _instream=self.q, _batch_size=self.bs, _batch_wait_time=self.w, _endmarker=self.END)
        st.env['self'] = me
        st.ghost['out'] = V.EMPTY
        st.ghost['slept'] = z3.RealVal(0)
        ex.globals['time'] = Module('time')
        ex.globals['time.perf_counter'] = GhostClock()
        ex.globals['time.sleep'] = Sleep()
        ex.globals['queue'] = Module('queue')
        return st

    def common(self, s):
        return z3.And(s.env['batchsize'] == self.bs, s.env['batchwaittime'] == self.w, s.env['end'] == self.END,
                      z3.Length(self.q.times(s)) == z3.Length(self.q.taken(s)), s.ghost['slept'] == 0)

    @property
    def loops(self):
        def outer(s, ex):
            return z3.And(self.common(s), self.sflat(s.ghost['out']) == self.q.taken(s), self.noend(self.q.taken(s)))

        def inner(s, ex):
            taken, times = self.q.taken(s), self.q.times(s)
            n, batch = s.env['n'], s.env['batch']
            t_first = times[z3.Length(taken) - n]
            return z3.And(self.common(s), z3.Concat(self.sflat(s.ghost['out']), batch) == taken, self.noend(taken),
                          n == z3.Length(batch), n >= 1, n <= self.bs,
                          s.env['deadline'] == t_first + self.w, s.ghost['clock'] <= s.env['deadline'], s.ghost['clock'] >= t_first)
        return {0: LoopSpec(inv=outer), 1: LoopSpec(inv=inner)}

    def on_yield(self, ex, st, val, node):
        out0 = st.ghost['out']
        taken, times = self.q.taken(st), self.q.times(st)
        k = z3.Length(self.sflat(out0))
        t_first = times[k]
        n = z3.Length(seqof(val))
        ex.oblige(st, f'line {node.lineno}: yielded batch is a list and has 1..batch_size items', z3.And(V.is_lst(val), n >= 1, n <= self.bs))
        ex.oblige(st, f'line {node.lineno}: batch released no later than batch_wait_time after its first item was taken',
                  z3.And(k < z3.Length(times), st.ghost['clock'] <= t_first + self.w))
        ended = z3.And(z3.Not(st.ghost['q.last_empty']), V.last(taken) == self.END, z3.Length(taken) == k + n + 1)
        timed_out = z3.And(st.ghost['q.last_empty'], st.ghost['clock'] == t_first + self.w, z3.Length(taken) == k + n)
        ex.oblige(st, f'line {node.lineno}: a partial batch is released only on the end marker or on expiry of the wait, and then at once',
                  z3.Implies(n < self.bs, z3.And(z3.Or(ended, timed_out), st.ghost['slept'] == 0)))
        st.ghost['out'] = snoc(st, out0, val, (self.sflat,))
        ex.oblige(st, f'line {node.lineno}: concatenation of the batches so far is a prefix of the items taken, in order',
                  z3.And(z3.PrefixOf(self.sflat(st.ghost['out']), taken), self.noend(self.sflat(st.ghost['out']))))

    def post(self, ex, outs):
        for k, s, p in outs:
            if k in ('normal', 'return'):
                taken, out = self.q.taken(s), s.ghost['out']
                ex.oblige(s, 'exit: concatenation of all batches == the items received before the end marker; nothing is taken after it',
                          z3.And(taken == z3.Concat(self.sflat(out), z3.Unit(self.END)), self.noend(self.sflat(out))))
            elif k == 'raise':
                ex.oblige(s, 'exit(raise): only because the consumer stopped', V.isinst(p, 'GeneratorExit'))


class EagerBatcherInit(Unit):
    prop = 'C19'
    file = F
    qual = 'EagerBatcher.__init__'
    canaries = (
        ('default wait ignored', 'self._batch_wait_time = batch_wait_time', 'self._batch_wait_time = 60', 'stores its parameters'),
    )

    def setup(self, ex):
        st = St()
        self.me = Rec(ex, 'self')
        st.env['self'] = self.me
        self.ins = z3.Const('instream', Val)
        self.bs = z3.Int('batch_size')
        self.w = z3.Const('batch_wait_time', Val)     # None or a real
        self.end = z3.Const('endmarker', Val)
        st.assume(z3.Or(V.is_none(self.w), V.is_realv(self.w)))
        st.env.update(instream=self.ins, batch_size=self.bs, batch_wait_time=self.w, endmarker=self.end)
        return st

    def post(self, ex, outs):
        for k, s, p in outs:
            if k in ('normal', 'return'):
                w = self.me.get(s, '_batch_wait_time')
                from pyvc.core import box
                wv = box(ex, w)
                dflt = z3.If(self.bs > 1, V.realv(z3.RealVal(60)), V.realv(z3.RealVal(0)))
                dflt_i = z3.If(self.bs > 1, V.intv(z3.IntVal(60)), V.intv(z3.IntVal(0)))
                ex.oblige(s, 'exit: stores its parameters; wait defaults to 60 (batch_size>1) or 0',
                          z3.And(box(ex, self.me.get(s, '_instream')) == self.ins, self.me.get(s, '_batch_size') == self.bs,
                                 box(ex, self.me.get(s, '_endmarker')) == self.end,
                                 z3.If(V.is_none(self.w), z3.Or(wv == dflt, wv == dflt_i), wv == self.w)))
            else:
                ex.oblige(s, 'exit: __init__ does not raise', False)


UNITS = [EagerBatcherIter, EagerBatcherInit]
# the instream may be a ResponsiveQueue: "waits no longer than told" then rests on its get(timeout=t) giving up after t in total (0: at once)
from contracts.c17 import GetPutUnit, GetPutUnitNoTimeout, RQGet      # noqa: E402
UNITS += [GetPutUnit, GetPutUnitNoTimeout, RQGet]
# the battery takes half a second and covers what the contracts ASSUME (elements with a well-behaved ==): always run
ALWAYS_RUN_SCENARIOS = True

SCENARIOS = [('', 'replay/scenarios/c19_virtual_clock.py')]
THOROUGH_SCENARIOS = [('', 'replay/scenarios/c19_virtual_clock.py', (s,), 300) for s in (1, 2, 3, 4, 5)]
