"""C08 — streaming has bounded look-ahead and bounded concurrency.

Thread-local counter invariants proved in the units (each holds at every instant of that role):
  feeder / buffer worker : pulled - nput <= 1      (an element is put before the next is pulled: `k == len(seen) - 1` at every put)
  hand-off queue         : nput - nget <= maxsize  (SingleLane representation invariant, units SingleLane.put/get)
  consumer               : nget - nyield <= 1      (each item taken is handed out before the next get: `n == k` at every yield)
with maxsize == capacity + 1 (fifo_stream spawn obligation) resp. == n (Buffer._start), executor max_workers == concurrency and
fifo capacity == 2 * concurrency (Parmapper).  The lemma below adds them up; no stream length occurs anywhere."""
import z3

from pyvc.unit import LemmaUnit
from contracts.singlelane import SLInit, SLPut, SLGet, SLRelyGuarantee, ASSUMPTIONS as SL_ASSUMPTIONS
from contracts.fifo import FeedUnit, FeedUnitNoPre, ConsumerUnit, ConsumerUnitNoPre
from contracts.buffer import RunWorker, RunWorkerNoExtern, BufIter, BufStart
from contracts.c01 import ParmapperInit, ParmapperInitDefault, ParmapperIter, ParmapperIterProcess, WorkUnit, SubmitUnit, SubmitUnitProcess, EXECUTOR_FRAME, TRUSTED as C01_TRUSTED


class C08Lemma(LemmaUnit):
    prop = 'C08'
    qual = 'lemma(C08)'

    def lemmas(self):
        pulled, nput, nget, nyield, maxsize, cap, n, conc = z3.Ints('pulled nput nget nyield maxsize capacity n concurrency')
        comp = [pulled - nput <= 1, nput - nget <= maxsize, nget - nyield <= 1]
        yield ('fifo_stream / parmap: pulled - handed_out <= capacity + 3 at every instant', comp + [maxsize == cap + 1], pulled - nyield <= cap + 3)
        yield ('parmap: capacity is twice the concurrency, so pulled - handed_out <= 2*concurrency + 3', comp + [maxsize == cap + 1, cap == 2 * conc], pulled - nyield <= 2 * conc + 3)
        yield ('buffer(n): pulled - handed_out <= n + 2 at every instant', comp + [maxsize == n], pulled - nyield <= n + 2)
        running, max_workers = z3.Ints('running_calls max_workers')
        yield ('at most `concurrency` invocations of the worker function run at once (executor built with max_workers == concurrency; trusted executor bound)',
               [running <= max_workers, max_workers == conc], running <= conc)


UNITS = [SLInit, SLPut, SLGet, SLRelyGuarantee, FeedUnit, FeedUnitNoPre, ConsumerUnit, ConsumerUnitNoPre, RunWorker, RunWorkerNoExtern, BufIter, BufStart,
         ParmapperInit, ParmapperInitDefault, ParmapperIter, ParmapperIterProcess, WorkUnit, SubmitUnit, SubmitUnitProcess] + list(EXECUTOR_FRAME) + [C08Lemma]
ASSUMPTIONS = tuple(SL_ASSUMPTIONS) + ('an executor built with max_workers=n runs at most n submitted calls at a time (trusted stdlib contract)',
                                       'the three counter invariants hold at every instant of their role because each is re-established before the role\'s next action on that counter (loop invariants + per-put / per-yield obligations)')
TRUSTED = C01_TRUSTED
SCENARIOS = [('', 'replay/scenarios/c08_lookahead.py')]
