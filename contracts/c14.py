"""C14 — a proxy call behaves like a direct call on the hosted object.

Contracts along the call path: generated/hand-written proxy methods -> BaseProxy._callmethod (client side or in-server
short-cut) -> Connection (trusted: pickles faithfully) -> Server.serve_client -> Server._callmethod -> the hosted object's
method (uninterpreted: outcome is a function of object state, name, args, kwds).  The lemma composes them."""
import ast
import z3

from pyvc import vals as V
from pyvc.vals import Val, NONE, fresh, PyTuple
from pyvc.unit import Unit, LoopSpec, LemmaUnit, load_source
from pyvc.models import Rec, Fn, Nop, Event
from pyvc.core import St, box, Unsupported, Obj, unbox_handle, StarPack, KwPack, ExcClass, Obligation

F = 'multiprocessing/server_process.py'
S = z3.StringVal

# the hosted object's method as an uninterpreted function of (object, name, args pack, kwargs pack)
has_method = z3.Function('has_method', Val, Val, z3.BoolSort())
m_ok = z3.Function('method_ok', Val, Val, Val, Val, z3.BoolSort())
m_res = z3.Function('method_result', Val, Val, Val, Val, Val)
m_exc = z3.Function('method_exception', Val, Val, Val, Val, Val)
remote = z3.Function('RemoteException', Val, Val)
created = z3.Function('server_create', Val, Val, Val)                 # proxy returned by Server.create(conn, typeid, obj) (unit C13:Server.create)
typeid_of = z3.Function('method_to_typeid_get', Val, Val)
conv = z3.Function('convert_to_error', Val, Val, Val)
server_cm = z3.Function('Server._callmethod', Val, Val, Val, Val, Val)  # the message computed by Server._callmethod(ident, name, args, kwds)


def msg(kind, v):
    return V.tup(V.seq_of([V.strv(S(kind)), v]))


ASSUMPTIONS = (
    'multiprocessing.Connection: send(x) then recv() on the other end returns a pickle round trip of x, in order (trusted); the round trip of a RemoteException is C15',
    'the hosted object\'s method is an uninterpreted function of (object, method name, args, kwds): its effects on the object happen inside that call, in the server process, on the one hosted object',
    'stdlib convert_to_error(kind, result) returns `result` for kind "#ERROR" (managers.py:95-97) and a RemoteError otherwise',
    'one thread per client connection serves requests sequentially (stdlib Server.accepter/handle_request)',
)
NOT_DECIDED = ('ServerProcess.register / the create-methods on the manager (stdlib dispatch + Server.create, the latter under C13)', 'thread-safety of the hosted object itself (user responsibility)',
               'BaseException subclasses other than Exception raised by a hosted method (they end the serving thread, as in the stdlib)')


class ArgsPack(Obj):
    pass


class ServerCallMethod(Unit):
    prop = 'C14'
    file = F
    qual = 'Server._callmethod'
    variant = 'plain'
    with_typeids = False
    canaries = (('result of a failing call reported as a return value', "msg = ('#ERROR', self._wrap_user_exc(e))", "msg = ('#RETURN', self._wrap_user_exc(e))", ''),
                ('method called without its keyword arguments', 'res = function(*args, **kwds)', 'res = function(*args)', ''),
                ('method looked up on the server instead of the hosted object', 'function = getattr(obj, methodname)', 'function = getattr(self, methodname)', ''))

    def setup(self, ex):
        st = St()
        self.obj, self.ident, self.mname = z3.Const('hosted_obj', Val), z3.Const('ident', Val), z3.Const('methodname', Val)
        self.args, self.kwds = StarPack(z3.Const('args', Val)), KwPack(z3.Const('kwds', Val))
        self.conn = z3.Const('conn', Val)
        self.exposed = z3.Const('exposed', Val)
        unit = self

        class IdToObj(Obj):
            def getitem(self, e, s, idx, node):
                e.oblige(s, f'line {node.lineno}: the hosted object is looked up under the request\'s ident', box(e, idx) == unit.ident)
                return [('ok', s, PyTuple([unit.obj, unit.exposed, unit.typeids if unit.with_typeids else NONE]))]

        class TypeIds(Obj):
            def truth(self, e, s):
                return z3.Bool('method_to_typeid_nonempty')

            def m_get(self, e, s, a, k, node):
                t = typeid_of(box(e, a[0]))
                s = s.fork().assume(z3.Implies(z3.Not(z3.Bool('method_to_typeid_nonempty')), t == NONE), z3.Or(t == NONE, V.is_strv(t)))
                return [('ok', s, t)]

        class Fallbacks(Obj):
            def getitem(self, e, s, idx, node):
                has = z3.Bool('has_fallback')
                s1 = s.fork().assume(has)
                s2 = s.fork().assume(z3.Not(has))
                return [('ok', s1, Fn(unit.fallback)), e.raise_new(s2, 'KeyError')]
        self.typeids = TypeIds(ex, 'method_to_typeid')
        self.fb_ok = z3.Bool('fallback_ok')
        self.fb_res = z3.Const('fallback_result', Val)
        self.tb = z3.Const('format_exc', Val)
        st.ghost['calls'] = ()
        st.ghost['creates'] = ()

        def create(e, s, a, k, n):
            s = s.fork()
            s.ghost['creates'] = s.ghost['creates'] + ((box(e, a[0]), box(e, a[1]), box(e, a[2])),)
            return [('ok', s, created(box(e, a[1]), box(e, a[2])))]
        self.me = Rec(ex, 'self', immutable=True, methods={'_wrap_user_exc': Fn(lambda e, s, a, k, n: [('ok', s, remote(box(e, a[0])))]), 'create': Fn(create)})
        self.me.init(st, id_to_obj=IdToObj(ex, 'id_to_obj'), fallback_mapping=Fallbacks(ex, 'fallback_mapping'))
        st.env.update(self=self.me, conn=self.conn, ident=self.ident, methodname=self.mname, args=self.args, kwds=self.kwds)

        def getattr_(e, s, a, k, n):
            o, nm = box(e, a[0]), box(e, a[1])
            s1 = s.fork().assume(has_method(o, nm))
            s2 = s.fork().assume(z3.Not(has_method(o, nm)))
            return [('ok', s1, Fn(unit.method(o, nm))), e.raise_new(s2, 'AttributeError')]
        ex.globals['getattr'] = Fn(getattr_)
        ex.globals['format_exc'] = Fn(lambda e, s, a, k, n: [('ok', s, self.tb)])
        st.assume(V.is_strv(self.tb), z3.Implies(V.is_none(self.mname), z3.Not(has_method(self.obj, self.mname))),
                  z3.Implies(z3.Not(z3.Bool('method_to_typeid_nonempty')), typeid_of(self.mname) == NONE), *ex.truth_facts(typeid_of(self.mname)))
        return st

    def packs(self, e, a, k):
        star = [x for x in a if isinstance(x, StarPack)]
        kw = k.get('**')
        if len(star) != 1 or len(a) != 1 or not isinstance(kw, KwPack) or kw.known or len(k) != 1:
            return None
        return star[0].val, kw.val

    def method(self, o, nm):
        def call(e, s, a, k, n):
            pk = self.packs(e, a, k)
            e.oblige(s, f'line {n.lineno}: the method is called with exactly the request\'s positional and keyword arguments', z3.BoolVal(pk is not None) if pk is None else z3.And(pk[0] == self.args.val, pk[1] == self.kwds.val))
            if pk is None:
                return []
            s = s.fork()
            s.ghost['calls'] = s.ghost['calls'] + ((o, nm),)
            ok = m_ok(o, nm, pk[0], pk[1])
            exc = m_exc(o, nm, pk[0], pk[1])
            s1 = s.fork().assume(ok)
            s2 = s.fork().assume(z3.Not(ok), V.isinst(exc, 'BaseException'), *V.cls_facts(exc))
            return [('ok', s1, m_res(o, nm, pk[0], pk[1])), ('raise', s2, exc)]
        return call

    def fallback(self, e, s, a, k, n):
        # fallback_func(self, conn, ident, obj, *args, **kwds): __str__/__repr__/#GETVALUE of the stdlib
        exc = fresh('fallback_exc')
        s1 = s.fork().assume(self.fb_ok)
        s2 = s.fork().assume(z3.Not(self.fb_ok), V.isinst(exc, 'Exception'), *V.cls_facts(exc))
        return [('ok', s1, self.fb_res), ('raise', s2, exc)]

    def post(self, ex, outs):
        o, nm, a, k = self.obj, self.mname, self.args.val, self.kwds.val
        t = typeid_of(nm)
        for kind, s, p in outs:
            calls, creates = s.ghost['calls'], s.ghost['creates']
            has = has_method(o, nm)
            once = z3.BoolVal(len(calls) == 1 and calls[0][0] is o) if len(calls) == 1 else z3.BoolVal(False)
            if kind in ('normal', 'return'):
                p = box(ex, p)
                T = V.truthy(t) if self.with_typeids else z3.BoolVal(False)
                want_has = z3.If(m_ok(o, nm, a, k), z3.If(T, msg('#PROXY', created(t, m_res(o, nm, a, k))), msg('#RETURN', m_res(o, nm, a, k))),
                                 msg('#ERROR', remote(m_exc(o, nm, a, k))))
                want_not = z3.If(V.is_none(nm), msg('#TRACEBACK', self.tb), z3.If(z3.And(z3.Bool('has_fallback'), self.fb_ok), msg('#RETURN', self.fb_res), msg('#TRACEBACK', self.tb)))
                ex.oblige(s, 'exit: the message is ("#RETURN", result) of exactly one call of the named method on the hosted object with the request\'s arguments; '
                             '("#ERROR", RemoteException(its exception)) when it raises; ("#PROXY", create(typeid, result)) when the method is registered as returning a managed value',
                          z3.And(p == z3.If(has, want_has, want_not), z3.Implies(has, once), z3.Implies(z3.Not(has), z3.BoolVal(len(calls) == 0)),
                                 z3.BoolVal(len(creates) <= 1), z3.BoolVal(all(c[0] is self.conn or c[0].eq(self.conn) for c in creates))))
            else:
                ex.oblige(s, 'exit(raise): only a non-Exception BaseException of the hosted method itself propagates', z3.And(has, once, box(ex, p) == m_exc(o, nm, a, k), z3.Not(V.isinst(p, 'Exception'))))


class ServerCallMethodTyped(ServerCallMethod):
    variant = 'method_to_typeid'
    with_typeids = True
    canaries = (('managed return value sent back as a copy', "msg = ('#PROXY', proxy)", "msg = ('#RETURN', res)", ''),
                ('proxy created for another value', 'proxy = self.create(conn, typeid, res)', 'proxy = self.create(conn, typeid, obj)', ''))


class ServeClient(Unit):
    """Server.serve_client: every request received gets exactly one response, the message of _callmethod on that request (or a
    traceback notice), in order; the loop goes on after error responses (the connection stays usable)."""
    prop = 'C14'
    file = F
    qual = 'Server.serve_client'
    ignore_calls = ('threading.current_thread',)
    assumed_contracts = ('self._callmethod: units C14:Server._callmethod[*]',)
    canaries = (('server thread exits after an error response', "            except Exception:\n                msg = ('#TRACEBACK', format_exc())\n", "            except Exception:\n                msg = ('#TRACEBACK', format_exc())\n                send(msg)\n                return\n", ''),
                ('request dispatched with a fixed method name', 'msg = self._callmethod(conn, ident, methodname, args, kwds)', "msg = self._callmethod(conn, ident, '__repr__', args, kwds)", 'own'),
                ('response dropped when the method failed', "                try:\n                    send(msg)", "                try:\n                    if msg[0] != '#ERROR':\n                        send(msg)", ''))

    def setup(self, ex):
        st = St()
        self.req = z3.Function('request_at', z3.IntSort(), z3.IntSort(), Val)      # field f of the k-th request
        st.ghost['nrecv'] = z3.IntVal(0)
        st.ghost['nsent'] = z3.IntVal(0)
        st.ghost['cur_sent'] = z3.IntVal(0)
        self.tb = z3.Const('format_exc', Val)
        self.cm_ok = z3.Function('callmethod_ok', z3.IntSort(), z3.BoolSort())
        unit = self

        class Conn(Obj):
            def m_recv(self, e, s, a, k, node):
                j = s.ghost['nrecv']
                s1 = s.fork()
                s1.ghost['nrecv'] = j + 1
                s3 = s.fork()
                s3.ghost['nrecv'] = j + 1          # a request that cannot be decoded is consumed too; it is answered with a traceback notice
                bad = fresh('undecodable_request')
                s3.assume(V.isinst(bad, 'Exception'), z3.Not(V.isinst(bad, 'EOFError')), *V.cls_facts(bad))
                return [('ok', s1, PyTuple([unit.req(j, i) for i in range(4)])), e.raise_new(s.fork(), 'EOFError'), ('raise', s3, bad)]

            def m_send(self, e, s, a, k, node):
                s1 = s.fork()
                m = box(e, a[0])
                j = s.ghost['nrecv'] - 1
                first = s.ghost['cur_sent'] == 0
                e.oblige(s, f'line {node.lineno}: the response is the message computed for the request just received (or, after that failed to be sent, the unserializable notice)',
                         z3.If(first, z3.Or(m == server_cm(*[unit.req(j, i) for i in range(4)]), m == msg('#TRACEBACK', unit.tb)),
                               m == msg('#UNSERIALIZABLE', unit.tb)))
                sendable = fresh('sendable', z3.BoolSort())
                s1.assume(sendable)
                s1.ghost['nsent'] = s1.ghost['nsent'] + 1
                s1.ghost['cur_sent'] = s1.ghost['cur_sent'] + 1
                s2 = s.fork().assume(z3.Not(sendable))
                s2.ghost['cur_sent'] = s2.ghost['cur_sent'] + 1
                return [('ok', s1, NONE), e.raise_new(s2, 'Exception')]

            def m_close(self, e, s, a, k, node):
                return [('ok', s, NONE)]
        self.conn = Conn(ex, 'conn')
        self.stop = Event(ex, 'stop_event')
        self.stop.init(st)

        def callmethod(e, s, a, k, n):
            j = s.ghost['nrecv'] - 1
            e.oblige(s, f'line {n.lineno}: the k-th request is dispatched with its own ident, method name, args and kwds, on this connection',
                     z3.And(z3.BoolVal(unbox_handle(e, a[0]) is self.conn), *[box(e, a[i + 1]) == self.req(j, i) for i in range(4)]))
            exc = fresh('dispatch_exc')
            # Server._callmethod lets only a KeyError (unknown ident) or a non-Exception BaseException out (unit C14:Server._callmethod): never EOFError
            s2 = s.fork().assume(V.isinst(exc, 'Exception'), z3.Not(V.isinst(exc, 'EOFError')), *V.cls_facts(exc))
            return [('ok', s, server_cm(*[self.req(j, i) for i in range(4)])), ('raise', s2, exc)]
        st.env.update(self=Rec(ex, 'self', immutable=True, methods={'_callmethod': Fn(callmethod)}).init(st, stop_event=self.stop), conn=self.conn)
        ex.globals['format_exc'] = Fn(lambda e, s, a, k, n: [('ok', s, self.tb)])
        ex.globals['sys.exit'] = Fn(lambda e, s, a, k, n: [e.raise_new(s, 'SystemExit')])
        return st

    @property
    def loops(self):
        sp = LoopSpec(inv=lambda s, ex: z3.And(s.ghost['nsent'] == s.ghost['nrecv'], s.ghost['nrecv'] >= 0), keep=('recv', 'send'))

        def head(h, ex):
            h.ghost['cur_sent'] = z3.IntVal(0)
            h.ghost['#n0'] = h.ghost['nrecv']
        sp.at_head = head
        # a received request is always answered before the next one is read; a failed recv (not EOF) is answered with a traceback notice
        sp.on_backedge = lambda s, ex: ex.oblige(s, 'iteration: exactly one response was sent, and the loop goes on (the connection stays usable after an error response)',
                                                 z3.And(s.ghost['nsent'] == s.ghost['nrecv'], s.ghost['nrecv'] <= s.ghost['#n0'] + 1))
        return {0: sp}

    def post(self, ex, outs):
        for k, s, p in outs:
            if k == 'raise':
                ex.oblige(s, 'exit(raise): the thread ends only by SystemExit -- at EOF (client gone) with every request answered, or when a response cannot be sent at all',
                          z3.And(V.isinst(p, 'SystemExit'), z3.Or(s.ghost['nsent'] == s.ghost['nrecv'], s.ghost['cur_sent'] == 2)))


class LoopInv(LoopSpec):
    pass


class ProxyCallMethod(Unit):
    """BaseProxy._callmethod, client side: sends exactly (own id, method name, args, kwds) on this thread's connection, reads one
    response; '#RETURN'/'#PROXY' -> the result itself, anything else -> raise convert_to_error(kind, result)."""
    prop = 'C14'
    file = F
    qual = 'BaseProxy._callmethod'
    variant = 'client'
    in_server = False
    ignore_calls = ('threading.current_thread',)
    canaries = (('request sent under the token typeid instead of the object id', 'conn.send((self._id, methodname, args, kwds))', 'conn.send((self._token.typeid, methodname, args, kwds))', ''),
                ('error responses returned instead of raised', '        raise convert_to_error(kind, result)', '        return convert_to_error(kind, result)', ''),
                ('keyword arguments dropped', 'conn.send((self._id, methodname, args, kwds))', 'conn.send((self._id, methodname, args, {}))', ''))

    def setup(self, ex):
        st = St()
        self.id, self.mname, self.args, self.kwds = z3.Const('proxy_id', Val), z3.Const('methodname', Val), z3.Const('args', Val), z3.Const('kwds', Val)
        self.kind, self.result = z3.Const('resp_kind', Val), z3.Const('resp_result', Val)
        st.ghost['io'] = ()
        st.ghost['connected'] = z3.Bool('already_connected')
        unit = self

        class Conn(Obj):
            def m_send(self, e, s, a, k, node):
                s = s.fork()
                s.ghost['io'] = s.ghost['io'] + (('send', box(e, a[0])),)
                return [('ok', s, NONE)]

            def m_recv(self, e, s, a, k, node):
                s = s.fork()
                s.ghost['io'] = s.ghost['io'] + (('recv',),)
                return [('ok', s, PyTuple([unit.kind, unit.result]))]
        self.conn = Conn(ex, 'connection')

        class Tls(Obj):
            def getattr(self, e, s, name, node):
                if name != 'connection':
                    raise Unsupported(name)
                s1 = s.fork().assume(s.ghost['connected'])
                s2 = s.fork().assume(z3.Not(s.ghost['connected']))
                return ([('ok', s1, unit.conn)] if e.feasible(s1) else []) + ([e.raise_new(s2, 'AttributeError')] if e.feasible(s2) else [])

        def connect(e, s, a, k, n):
            s = s.fork()
            s.ghost['connected'] = z3.BoolVal(True)
            return [('ok', s, NONE)]

        def server_callmethod(e, s, a, k, n):
            s = s.fork()
            s.ghost['io'] = s.ghost['io'] + (('direct', tuple(box(e, x) for x in a)),)
            return [('ok', s, PyTuple([unit.kind, unit.result]))]
        self.token_id = z3.Const('token_id', Val)
        server = Rec(ex, 'server', immutable=True, methods={'_callmethod': Fn(server_callmethod)}) if self.in_server else NONE
        me = Rec(ex, 'self', immutable=True, methods={'_connect': Fn(connect)})
        me.init(st, _server=server, _tls=Tls(ex, 'tls'), _id=self.id, _token=Rec(ex, 'token', immutable=True).init(st, id=self.token_id, typeid=z3.Const('typeid', Val)))
        st.env.update(self=me, methodname=self.mname, args=self.args, kwds=self.kwds)
        ERR = V.strv(S('#ERROR'))
        self.inner_exc = z3.Const('exception_carried_by_the_RemoteException', Val)

        def convert(e, s, a, k, n):
            # stdlib convert_to_error: for '#ERROR' the payload itself; otherwise a RemoteError / ValueError built from it
            kind, res = box(e, a[0]), box(e, a[1])
            c = conv(kind, res)
            s = s.fork().assume(z3.If(kind == ERR, c == res, V.isinst(c, 'Exception')), *V.cls_facts(c))
            return [('ok', s, c)]
        ex.globals['convert_to_error'] = Fn(convert, trusted='stdlib convert_to_error(kind, result): result itself for "#ERROR", a RemoteError/ValueError otherwise (managers.py:95-108)')
        ex.globals['RemoteException'] = ExcClass('RemoteException')
        st.assume(V.is_strv(self.kind), *V.cls_facts(self.result))
        if self.in_server:
            # no pickling on this path: an '#ERROR' payload is the RemoteException object itself (not an exception!), carrying the method's exception
            st.assume(z3.Implies(self.kind == ERR, z3.And(V.isinst(self.result, 'RemoteException'), z3.Not(V.isinst(self.result, 'BaseException')))),
                      V.isinst(self.inner_exc, 'Exception'), *V.cls_facts(self.inner_exc))
            unit = self

            class Payload:
                def getattr(self_, e, s, base, attr, node):
                    if attr == 'exc':
                        return [('ok', s, unit.inner_exc)]
                    raise Unsupported(f'result.{attr}')
            ex.sym_models['result'] = Payload()
        else:
            # the payload crossed the connection: a RemoteException unpickles to the exception it carries (C15)
            st.assume(z3.Implies(self.kind == ERR, V.isinst(self.result, 'Exception')))
        return st

    def post(self, ex, outs):
        good = z3.Or(self.kind == V.strv(S('#RETURN')), self.kind == V.strv(S('#PROXY')))
        for k, s, p in outs:
            io = s.ghost['io']
            if self.in_server:
                shape = len(io) == 1 and io[0][0] == 'direct' and len(io[0][1]) == 5
                sent = z3.And(io[0][1][0] == NONE, io[0][1][1] == self.token_id, io[0][1][2] == self.mname, io[0][1][3] == self.args, io[0][1][4] == self.kwds) if shape else z3.BoolVal(False)
                what = 'one direct Server._callmethod(None, own ident, method name, args, kwds) call (in-server short-cut, same message format)'
            else:
                shape = len(io) == 2 and io[0][0] == 'send' and io[1][0] == 'recv'
                sent = (io[0][1] == V.tup(V.seq_of([self.id, self.mname, self.args, self.kwds]))) if shape else z3.BoolVal(False)
                what = 'exactly one request (own id, method name, args, kwds) sent and one response read on this thread\'s connection'
            if k in ('normal', 'return'):
                ex.oblige(s, f'exit: {what}; a "#RETURN"/"#PROXY" response is returned as is', z3.And(sent, good, box(ex, p) == self.result))
            else:
                ERR = V.strv(S('#ERROR'))
                own = self.inner_exc if self.in_server else self.result
                ex.oblige(s, f'exit(raise): {what}; any other response is raised as an exception: for "#ERROR" the method\'s own exception (the one the RemoteException carries), otherwise convert_to_error(kind, result)',
                          z3.And(sent, z3.Not(good), V.isinst(p, 'BaseException'), z3.If(self.kind == ERR, box(ex, p) == own, V.isinst(p, 'Exception'))))


class ProxyCallMethodInServer(ProxyCallMethod):
    variant = 'in-server'
    in_server = True
    canaries = (('short-cut calls the method under the proxy id of another namespace', 'None, self._token.id, methodname, args, kwds', 'None, self._token.typeid, methodname, args, kwds', ''),
                ('the un-pickled RemoteException itself is raised (pinned-tree defect: TypeError)', "            if kind == '#ERROR' and isinstance(result, RemoteException):", "            if False:", ''))


# ------------------------------------------------------------------ proxy methods
class ProxyMethod(Unit):
    """A proxy method forwards to self._callmethod(<remote method>, <its own arguments>) and returns the outcome."""
    prop = 'C14'
    file = F
    remote_name = None
    params = ()             # names of the positional parameters forwarded, or '*' for the *args pack
    returns_self = False

    def load_fn(self, override):
        return None

    def setup(self, ex):
        st = St()
        st.ghost['cm'] = ()
        self.out = z3.Const('callmethod_result', Val)

        def cm(e, s, a, k, n):
            s = s.fork()
            s.ghost['cm'] = s.ghost['cm'] + ((a, k),)
            exc = fresh('remote_exc')
            s2 = s.fork().assume(V.isinst(exc, 'Exception'), *V.cls_facts(exc))
            s2.ghost['raised'] = exc
            return [('ok', s, self.out), ('raise', s2, exc)]
        self.cm = Fn(cm)
        self.me = Rec(ex, 'self', immutable=True, methods={'_callmethod': self.cm})
        st.env['self'] = self.me
        self.pvals = {}
        if self.params == '*':
            self.star = StarPack(z3.Const('args', Val))
            st.env['args'] = self.star
        elif self.params == '*k':
            self.star = StarPack(z3.Const('args', Val))
            self.kw = KwPack(z3.Const('kwargs', Val))
            st.env['args'] = self.star
            st.env['kwargs'] = self.kw
        else:
            for p in self.params:
                self.pvals[p] = z3.Const(p, Val)
                st.env[p] = self.pvals[p]
        return st

    def check_call(self, ex, s):
        cm = s.ghost['cm']
        if len(cm) != 1:
            return z3.BoolVal(False)
        a, k = cm[0]
        if not a or not (z3.is_string_value(a[0]) and a[0].as_string() == self.remote_name):
            return z3.BoolVal(False)
        rest = a[1:]
        if self.params == '*':
            ok = len(rest) == 1 and rest[0] is self.star and not k
            return z3.BoolVal(ok)
        if self.params == '*k':
            ok = len(rest) == 2 and rest[0] is self.star and rest[1] is self.kw and not k
            return z3.BoolVal(ok)
        if not self.params:
            return z3.BoolVal(len(rest) == 0 and not k)
        if len(rest) != 1 or k:
            return z3.BoolVal(False)
        return box(ex, rest[0]) == V.tup(V.seq_of([self.pvals[p] for p in self.params]))

    def post(self, ex, outs):
        for k, s, p in outs:
            fwd = self.check_call(ex, s)
            if k in ('normal', 'return'):
                ret = z3.BoolVal(unbox_handle(ex, p) is self.me) if self.returns_self else box(ex, p) == self.out
                ex.oblige(s, f'exit: forwards once to _callmethod({self.remote_name!r}, its own arguments) and returns ' + ('the proxy itself (in-place operator)' if self.returns_self else 'the outcome'), z3.And(fwd, ret))
            else:
                ex.oblige(s, 'exit(raise): only the exception of that remote call', z3.And(fwd, box(ex, p) == s.ghost.get('raised', NONE)))


def proxy_method(cls, meth, remote_name, params, returns_self=False, canaries=()):
    return type(f'PM_{cls}_{meth}', (ProxyMethod,), dict(qual=f'{cls}.{meth}', remote_name=remote_name, params=params, returns_self=returns_self, canaries=canaries))


class IteratorProxyIter(Unit):
    """IteratorProxy.__iter__: the proxy is its own iterator -- returned as is, without any request to the server.  In particular iterating through one proxy never
    closes (or otherwise finalizes) the hosted iterator: it is SHARED by every proxy of it, and stays usable for them as long as one exists (C13)."""
    prop = 'C14'
    file = F
    qual = 'IteratorProxy.__iter__'
    canaries = (('leaving a for loop closes the shared hosted generator', '        return self\n', '        try:\n            while True:\n                yield self.__next__()\n        finally:\n            self.close()\n', ''),)

    def setup(self, ex):
        st = St()
        st.ghost['cm'] = ()

        def cm(e, s, a, k, n):
            s = s.fork()
            s.ghost['cm'] = s.ghost['cm'] + ((a[0].as_string() if z3.is_string_value(a[0]) else '?'),)
            boom = fresh('remote_failure')
            s2 = s.fork().assume(V.isinst(boom, 'Exception'), *V.cls_facts(boom))
            return [('ok', s, fresh('remote_result')), ('raise', s2, boom)]
        self.me = Rec(ex, 'self', immutable=True, methods={'_callmethod': Fn(cm)})
        st.env['self'] = self.me
        return st

    def on_yield(self, ex, st, val, node):
        st.ghost['yielded'] = True

    # should the method grow a loop (a generator wrapper): any loop, trivial invariant -- the exit obligation below is what decides
    loops = {i: LoopSpec(inv=lambda s, ex: z3.BoolVal(True), keep_ghost=('cm', 'yielded')) for i in range(4)}

    def post(self, ex, outs):
        for k, s, p in outs:
            ex.oblige(s, 'exit: returns the proxy itself, at once: no request is sent to the hosted iterator (never closed on behalf of one consumer: the other proxies share it)',
                      z3.BoolVal(k in ('normal', 'return') and not s.ghost['cm'] and not s.ghost.get('yielded') and p is not None and unbox_handle(ex, p) is self.me))


PROXY_METHODS = [
    proxy_method('IteratorProxy', '__next__', '__next__', '*', canaries=(('next forwarded as send', "self._callmethod('__next__', args)", "self._callmethod('send', args)", ''),)),
    proxy_method('IteratorProxy', 'send', 'send', '*'),
    proxy_method('IteratorProxy', 'throw', 'throw', '*'),
    proxy_method('IteratorProxy', 'close', 'close', '*'),
    proxy_method('ValueProxy', 'get', 'get', ()),
    proxy_method('ValueProxy', 'set', 'set', ('value',), canaries=(('set forwards nothing', "self._callmethod('set', (value,))", "self._callmethod('set')", ''),)),
    proxy_method('ListProxy', '__iadd__', 'extend', ('value',), returns_self=True, canaries=(('+= returns a copy', "        self._callmethod('extend', (value,))\n        return self", "        return self._callmethod('__add__', (value,))", ''),)),
    proxy_method('ListProxy', '__imul__', '__imul__', ('value',), returns_self=True),
]


class GeneratedProxyMethod(ProxyMethod):
    """The method template that add_proxy_methods exec()s for every exposed name: extracted from the string constant in the
    source on every run, instantiated for a sample name, parsed and verified like any other function."""
    qual = 'add_proxy_methods'
    variant = 'generated method template'
    remote_name = 'sample_method'
    params = '*k'
    canaries = (('generated method drops keyword arguments', 'return self._callmethod(%r, args, kwargs)', 'return self._callmethod(%r, args)', ''),)

    def load(self, override=None):
        fn, sha, seg = super().load(override)
        tmpl = None
        for x in ast.walk(fn):
            if isinstance(x, ast.Call) and isinstance(x.func, ast.Name) and x.func.id == 'exec' and x.args and isinstance(x.args[0], ast.BinOp) \
                    and isinstance(x.args[0].op, ast.Mod) and isinstance(x.args[0].left, ast.Constant) and isinstance(x.args[0].left.value, str):
                tmpl = x.args[0]
        if tmpl is None:
            raise KeyError('exec(<template> % (meth, meth)) not found in add_proxy_methods')
        # the right operand must be the tuple (meth, meth) of the loop variable
        r = tmpl.right
        if not (isinstance(r, ast.Tuple) and len(r.elts) == 2 and all(isinstance(e, ast.Name) and e.id == 'meth' for e in r.elts)):
            raise KeyError('template arguments are not (meth, meth)')
        import textwrap
        src = tmpl.left.value % (self.remote_name, self.remote_name)
        first, _, rest = src.partition('\n')
        gen = ast.parse(first + '\n' + textwrap.indent(textwrap.dedent(rest), '    ')).body[0]
        if gen.name != self.remote_name:
            raise KeyError('generated function has another name')
        ast.increment_lineno(gen, fn.lineno)
        return gen, sha, seg


class CreateMethod(Unit):
    """ServerProcess.register.<locals>.temp -- the generated `manager.<Typeid>(*args, **kwds)`: exactly one `create` request for THIS typeid with the caller's
    arguments, on a connection of its own that is closed on every path; what the server answers (the proxy: Server.create / serve_client units) is returned."""
    prop = 'C14'
    file = F
    qual = 'ServerProcess.register.<locals>.temp'
    assert_mode = 'assume'
    canaries = (('creation request for another typeid', "dispatch(conn, None, 'create', (typeid,) + args, kwds)", "dispatch(conn, None, 'create', ('list',) + args, kwds)", ''),
                ('connection left open', '                    conn.close()', '                    pass', ''),
                ('keyword arguments dropped', "dispatch(conn, None, 'create', (typeid,) + args, kwds)", "dispatch(conn, None, 'create', (typeid,) + args, {})", ''))

    def setup(self, ex):
        st = St()
        st.ghost['ev'] = ()
        self.typeid = z3.Const('typeid', Val)
        self.args, self.kw = StarPack(z3.Const('args', Val)), KwPack(z3.Const('kwds', Val))
        self.addr, self.authkey = z3.Const('address', Val), z3.Const('authkey', Val)
        self.answer = z3.Const('server_answer', Val)
        self.conn = Rec(ex, 'conn', immutable=True, methods={'close': Fn(lambda e, s, a, k, n: (log(s := s.fork(), 'close'), [('ok', s, NONE)])[1])})

        def log(s, *x):
            s.ghost['ev'] = s.ghost['ev'] + (x,)

        def client(e, s, a, k, n):
            s = s.fork()
            log(s, 'connect', box(e, a[0]), box(e, k.get('authkey', NONE)))
            return [('ok', s, self.conn)]
        started = z3.Const('State.STARTED', Val)
        me = Rec(ex, 'self', immutable=True, methods={'_Client': Fn(client)}).init(st, _address=self.addr, _authkey=self.authkey, _state=Rec(ex, 'state', immutable=True).init(st, value=started))
        ex.globals['State'] = Rec(ex, 'State', immutable=True).init(st, STARTED=started)
        self.cat = z3.Function('tuple_concat', Val, Val, Val)

        def dispatch(e, s, a, k, n):
            s = s.fork()
            log(s, 'dispatch', a)
            exc = fresh('create_exc')
            s2 = s.fork().assume(V.isinst(exc, 'Exception'), *V.cls_facts(exc))
            return [('ok', s, self.answer), ('raise', s2, exc)]
        ex.globals['dispatch'] = Fn(dispatch)
        st.cells['typeid'] = self.typeid
        st.env.update(self=me, args=self.args, kwds=self.kw)
        return st

    def on_binop(self, ex, st, op, l, r, node):
        # (typeid,) + args  with args an opaque pack
        if isinstance(op, ast.Add) and isinstance(r, StarPack):
            return [('ok', st, self.cat(box(ex, l), r.val))]
        return None

    def post(self, ex, outs):
        from pyvc.vals import PyTuple
        for k, s, p in outs:
            evs = s.ghost['ev']
            kinds = [e_[0] for e_ in evs]
            ex.oblige(s, 'exit: one connection to this manager\'s own address with its authkey, one request on it, and the connection is closed afterwards -- on every path',
                      z3.And(z3.BoolVal(kinds == ['connect', 'dispatch', 'close']), evs[0][1] == self.addr, evs[0][2] == self.authkey) if kinds[:1] == ['connect'] else z3.BoolVal(False))
            d = [e_ for e_ in evs if e_[0] == 'dispatch']
            if len(d) == 1:
                a = d[0][1]
                ok = len(a) == 5 and unbox_handle(ex, a[0]) is self.conn and unbox_handle(ex, a[4]) is self.kw
                ex.oblige(s, 'exit: the request is create(<this typeid>, *args, **kwds) with the caller\'s arguments',
                          z3.And(box(ex, a[1]) == NONE, box(ex, a[2]) == box(ex, z3.StringVal('create')), box(ex, a[3]) == self.cat(V.tup(V.seq_of([self.typeid])), self.args.val)) if ok else z3.BoolVal(False))
            if k in ('normal', 'return'):
                ex.oblige(s, 'exit: returns what the server answered', box(ex, p) == self.answer)


class MakeProxyType(Unit):
    """AutoProxy.<locals>.make_proxy_type(name, exposed): the proxy class for an object has exactly that object's exposed methods.  The class cache
    must therefore be keyed by (name, exposed) -- two objects registered under one typeid may have different method sets."""
    prop = 'C14'
    file = F
    qual = 'AutoProxy.<locals>.make_proxy_type'
    canaries = (('class cache keyed by the name only', 'return _cache[(name, exposed)]', 'return _cache[name]', ''),
                ('class cached under the name only', '_cache[(name, exposed)] = ProxyType', '_cache[name] = ProxyType', ''),
                ('methods generated for another set', 'ProxyType = add_proxy_methods(*exposed)(type(name, (BaseProxy,), {}))', 'ProxyType = add_proxy_methods()(type(name, (BaseProxy,), {}))', ''))

    def setup(self, ex):
        from pyvc.models import SharedMap
        st = St()
        self.pname, self.exposed = z3.Const('name', Val), z3.Const('exposed', Val)
        self.methods_of = z3.Function('methods_of_class', Val, Val)
        self.cache = SharedMap(ex, '_cache').init(st, z3.Const('cache0', z3.ArraySort(Val, Val)), z3.Int('ncache0'))
        self.tupled = z3.Function('tuple', Val, Val)
        self.key = V.tup(V.seq_of([self.pname, self.tupled(self.exposed)]))
        # cache invariant (established by this very function at every insertion): the class stored under (n, e) has methods e
        from pyvc.models import Absent
        hit = z3.Select(self.cache.arr(st), self.key)
        st.assume(z3.Implies(hit != Absent, self.methods_of(hit) == self.tupled(self.exposed)), self.tupled(self.tupled(self.exposed)) == self.tupled(self.exposed))
        st.env.update(name=self.pname, exposed=self.exposed, _cache=self.cache)
        ex.globals['tuple'] = Fn(lambda e, s, a, k, n: [('ok', s, StarPack(self.tupled(box(e, a[0]))))])       # a tuple of unknown length: passed on as one pack
        ex.globals['BaseProxy'] = z3.Const('BaseProxy', Val)
        st.ghost['made'] = ()

        def type_(e, s, a, k, n):
            return [('ok', s, z3.Const('new_class', Val))]
        ex.globals['type'] = Fn(type_)

        def add_proxy_methods(e, s, a, k, n):
            star = [x for x in a if isinstance(x, StarPack)]
            names = star[0].val if len(star) == 1 and len(a) == 1 else (V.tup(V.seq_of([box(e, x) for x in a])) if not star else None)

            def deco(e2, s2, a2, k2, n2):
                cls = fresh('ProxyType')
                s2 = s2.fork().assume(self.methods_of(cls) == (names if names is not None else fresh('unknown_methods')), cls != Absent)
                s2.ghost['made'] = s2.ghost['made'] + (cls,)
                return [('ok', s2, cls)]
            return [('ok', s, Fn(deco))]
        ex.globals['add_proxy_methods'] = Fn(add_proxy_methods)
        return st

    def interfere(self, ex, st, m, node):
        pass

    def on_call(self, ex, st, e, src):
        return None

    def after_map_write(self, ex, st, m, kind, k, v, node):
        ex.oblige(st, f'line {node.lineno}: a new proxy class is cached under (name, its own method set) -- the key determines the methods', z3.And(k == self.key, self.methods_of(v) == self.tupled(self.exposed)))

    def post(self, ex, outs):
        for k, s, p in outs:
            if k in ('normal', 'return'):
                ex.oblige(s, 'exit: the class returned has exactly the exposed methods of THIS object (cache hit or newly generated)', self.methods_of(box(ex, p)) == self.tupled(self.exposed))
            else:
                ex.oblige(s, 'exit: does not raise', False)


class AutoProxyUnit(Unit):
    """AutoProxy(token, serializer, authkey, exposed, incref): builds ONE proxy of the class generated for (typeid, this object's exposed methods), for the given
    token and serializer, with the caller's incref flag (RebuildProxy relies on it: C13) and marks it so that pickling it again rebuilds an AutoProxy with
    the same method set."""
    prop = 'C14'
    file = F
    qual = 'AutoProxy'
    inlined_defs = ()
    canaries = (('incref flag not passed to the proxy', 'proxy = ProxyType(token, serializer, authkey=authkey, incref=incref)', 'proxy = ProxyType(token, serializer, authkey=authkey)', ''),
                ('method set not remembered for re-pickling', '    proxy._exposed_ = exposed', '    proxy._exposed_ = ()', ''))

    def setup(self, ex):
        st = St()
        self.serializer, self.authkey, self.exposed = z3.Const('serializer', Val), z3.Const('authkey', Val), z3.Const('exposed', Val)
        self.incref = z3.Bool('incref')
        self.token = Rec(ex, 'token', immutable=True).init(st, address=z3.Const('address', Val), typeid=z3.String('typeid'))
        st.env.update(token=self.token, serializer=self.serializer, authkey=self.authkey, exposed=self.exposed, incref=self.incref)
        st.assume(self.exposed != NONE, self.authkey != NONE)          # the library always passes both (the fall-backs are a stdlib inheritance: listed unreachable)
        st.ghost['made'] = ()
        unit = self

        class LC(Obj):
            def getitem(self_, e, s, idx, node):
                return [('ok', s, PyTuple([z3.Const('Listener', Val), z3.Const('Client', Val)]))]
        ex.globals['listener_client'] = LC(ex, 'listener_client')
        ex.globals['get_server'] = Fn(lambda e, s, a, k, n: [('ok', s, z3.Const('server_or_None', Val))])
        self.proxy = Rec(ex, 'proxy')

        def proxy_type(e, s, a, k, n):
            s = s.fork()
            s.ghost['made'] = s.ghost['made'] + (([unbox_handle(e, x) for x in a], dict(k)),)
            return [('ok', s, unit.proxy)]
        self.ptype = Fn(proxy_type)
        st.ghost['mpt'] = ()
        return st

    unreachable_ok = ('if server:', 'exposed = server.get_methods(None, token)', 'conn = _Client(token.address, authkey=authkey)', 'try:', 'authkey = current_process().authkey', 'exposed = tuple(exposed)', 'return _cache[(name, exposed)]', 'pass',
                      'ProxyType = add_proxy_methods(*exposed)(type(name, (BaseProxy,), {}))', '_cache[(name, exposed)] = ProxyType', 'return ProxyType', 'conn.close()', 'exposed = dispatch(conn, None')

    def on_call(self, ex, st, e, src):
        if src == 'make_proxy_type':
            # the nested function has its own unit (AutoProxy.<locals>.make_proxy_type): here only what it is asked for
            def f(s, ak):
                s = s.fork()
                s.ghost['mpt'] = s.ghost['mpt'] + ([box(ex, x) for x in ak[0]],)
                return [('ok', s, self.ptype)]
            return ex.bind(ex.evargs(e, st), f)
        return None

    def on_binop(self, ex, st, op, a, b, node):
        return [('ok', st, z3.Function('autoproxy_name', Val, Val)(box(ex, b)))]

    def post(self, ex, outs):
        for k, s, p in outs:
            made, mpt = s.ghost['made'], s.ghost['mpt']
            ok = k in ('normal', 'return') and len(made) == 1 and len(mpt) == 1 and len(mpt[0]) == 2 and len(made[0][0]) == 2 and made[0][0][0] is self.token
            ex.oblige(s, 'exit: one proxy, of the class made for (name of the typeid, THIS exposed set), for the given token and serializer, with the caller\'s authkey and incref flag; marked automatic with its method set; returned',
                      z3.And(mpt[0][1] == self.exposed, mpt[0][0] == z3.Function('autoproxy_name', Val, Val)(V.strv(self.token.get(s, 'typeid'))), box(ex, made[0][0][1]) == self.serializer,
                             (box(ex, made[0][1]['authkey']) == self.authkey) if 'authkey' in made[0][1] else z3.BoolVal(False), (box(ex, made[0][1]['incref']) == V.boolv(self.incref)) if 'incref' in made[0][1] else z3.BoolVal(False),
                             box(ex, self.proxy.get(s, '_isauto')) == V.boolv(z3.BoolVal(True)), box(ex, self.proxy.get(s, '_exposed_')) == self.exposed, z3.BoolVal(unbox_handle(ex, p) is self.proxy)) if ok else z3.BoolVal(False))


class DecoratorNames(Unit):
    """Precondition of add_proxy_methods, checked at every call site in the module: the generated names must not shadow the
    attribute protocol or the private machinery that BaseProxy itself runs on (a generated __getattribute__ makes every
    attribute access of the proxy recurse: the pinned tree did that for NamespaceProxy, fixed in bf06a20)."""
    prop = 'C14'
    file = F
    qual = '(module): add_proxy_methods call sites'
    FORBIDDEN = ('__getattribute__', '__getattr__', '__setattr__', '__delattr__', '__init__', '__new__', '__del__', '__reduce__', '__reduce_ex__', '__class__', '__dict__')
    canaries = (('generated __getattribute__ on a proxy class', "@add_proxy_methods('__len__', '__getitem__', '__setitem__')", "@add_proxy_methods('__len__', '__getitem__', '__setitem__', '__getattribute__')", ''),)

    def load(self, override=None):
        import hashlib
        src = load_source(self.file, override)
        return None, hashlib.sha256(src.encode()).hexdigest(), src

    def run(self, override=None):
        import hashlib
        res = {'unit': self.name, 'status': 'ok', 'obligations': [], 'covers': {}, 'ignored': [], 'sha': None, 'error': None, 'paths': 0, 'lineno': 1}
        self.ex = None
        try:
            src = load_source(self.file, override)
            tree = ast.parse(src)
        except (SyntaxError, FileNotFoundError) as e:
            res['status'] = 'undecided'
            res['error'] = repr(e)
            return res
        res['sha'] = hashlib.sha256(src.encode()).hexdigest()
        sites = 0
        for x in ast.walk(tree):
            if isinstance(x, ast.Call) and isinstance(x.func, ast.Name) and x.func.id == 'add_proxy_methods':
                names = []
                opaque = False
                for a in x.args:
                    if isinstance(a, ast.Constant) and isinstance(a.value, str):
                        names.append(a.value)
                    elif isinstance(a, ast.Starred) and ast.unparse(a.value) == 'exposed':
                        continue       # AutoProxy: names come from public_methods(obj), which never start with '_'
                    else:
                        opaque = True
                sites += 1
                bad = [n for n in names if n in self.FORBIDDEN or (n.startswith('_') and not n.startswith('__'))]
                ob = Obligation(f'{self.qual}: line {x.lineno}: generated method names do not shadow the attribute protocol / private machinery of BaseProxy (found {bad or "none"})',
                                [], z3.BoolVal(not bad and not opaque), [x.lineno], 'assert')
                ob.unit = self.name
                res['obligations'].append(ob)
        if sites == 0:
            res['status'] = 'undecided'
            res['error'] = 'no add_proxy_methods call site found'
        return res


class NamespaceAttr(Unit):
    prop = 'C14'
    file = F
    qual = 'NamespaceProxy.__getattr__'
    remote = '__getattribute__'
    nargs = 1
    local = 'object.__getattribute__'
    canaries = (('public attribute read locally', "if key[0] == '_':", "if key[0] != '#':", ''),)

    def setup(self, ex):
        st = St()
        self.key = z3.String('key')
        self.value = z3.Const('value', Val)
        st.assume(z3.Length(self.key) > 0)
        self.me = Rec(ex, 'self', immutable=True)
        st.env.update(self=self.me, key=self.key, value=self.value)
        st.ghost['cm'] = ()
        st.ghost['local'] = ()
        self.out = z3.Const('callmethod_result', Val)
        return st

    def on_call(self, ex, st, e, src):
        if src in ('object.__getattribute__', 'object.__setattr__', 'object.__delattr__'):
            def f(s, ak):
                a = ak[0]
                if src == 'object.__getattribute__' and z3.is_string_value(a[1]) and a[1].as_string() == '_callmethod':
                    return [('ok', s, Fn(self.cm))]
                s = s.fork()
                s.ghost['local'] = s.ghost['local'] + ((src, a),)
                return [('ok', s, z3.Const('local_result', Val))]
            return ex.bind(ex.evargs(e, st), f)
        return None

    def cm(self, e, s, a, k, n):
        s = s.fork()
        s.ghost['cm'] = s.ghost['cm'] + ((a, k),)
        return [('ok', s, self.out)]

    def post(self, ex, outs):
        private = z3.SubString(self.key, 0, 1) == S('_')
        for k, s, p in outs:
            cm, loc = s.ghost['cm'], s.ghost['local']
            if k not in ('normal', 'return'):
                ex.oblige(s, 'exit: no exception of its own', False)
                continue
            if len(cm) == 1 and not loc:
                a, kw = cm[0]
                want = [V.strv(self.key)] + ([self.value] if self.nargs == 2 else [])
                ok = len(a) == 2 and not kw and z3.is_string_value(a[0]) and a[0].as_string() == self.remote
                g = z3.And(z3.Not(private), box(ex, a[1]) == V.tup(V.seq_of(want)), box(ex, p) == self.out) if ok else z3.BoolVal(False)
            elif len(loc) == 1 and not cm:
                g = z3.And(private, z3.BoolVal(loc[0][0] == self.local))
            else:
                g = z3.BoolVal(False)
            ex.oblige(s, f'exit: a public attribute name is forwarded once as _callmethod({self.remote!r}, (key{", value" if self.nargs == 2 else ""})) on the hosted namespace; only names starting with "_" stay local to the proxy', g)


class NamespaceSetAttr(NamespaceAttr):
    qual = 'NamespaceProxy.__setattr__'
    remote = '__setattr__'
    nargs = 2
    local = 'object.__setattr__'
    canaries = (('value not forwarded', "callmethod('__setattr__', (key, value))", "callmethod('__setattr__', (key, key))", ''),)


class NamespaceDelAttr(NamespaceAttr):
    qual = 'NamespaceProxy.__delattr__'
    remote = '__delattr__'
    local = 'object.__delattr__'
    canaries = ()


class C14Lemma(LemmaUnit):
    prop = 'C14'
    qual = 'lemma(C14)'

    def lemmas(self):
        o, ident, nm, a, k = z3.Consts('hosted_obj ident methodname args kwds', Val)
        sent, got_kind, got_result, outcome = z3.Consts('server_msg got_kind got_result outcome', Val)
        unp = z3.Function('pickle_roundtrip', Val, Val)
        res, exc = m_res(o, nm, a, k), m_exc(o, nm, a, k)
        ok = m_ok(o, nm, a, k)
        # contracts: Server._callmethod[plain] (has_method, no typeid), serve_client (the response is that message), Connection (round trip),
        # BaseProxy._callmethod[client] (returns result / raises convert_to_error), convert_to_error('#ERROR', r) == r
        hyps = [has_method(o, nm),
                sent == z3.If(ok, msg('#RETURN', res), msg('#ERROR', remote(exc))),
                got_kind == z3.If(ok, V.strv(S('#RETURN')), V.strv(S('#ERROR'))),
                got_result == z3.If(ok, unp(res), unp(remote(exc))),
                conv(V.strv(S('#ERROR')), got_result) == got_result]
        returned = z3.Bool('proxy_call_returned')
        hyps += [returned == z3.Or(got_kind == V.strv(S('#RETURN')), got_kind == V.strv(S('#PROXY'))),
                 outcome == z3.If(returned, got_result, conv(got_kind, got_result))]
        yield ('a proxy call returns (a pickle round trip of) the direct call\'s result when the direct call returns, and raises (the round trip of) RemoteException(direct call\'s exception) when it raises -- which unpickles to that exception with the server-side traceback by C15',
               hyps, z3.And(returned == ok, outcome == z3.If(ok, unp(res), unp(remote(exc)))))


from contracts.c13 import ServerCreate, ServerCreateBadArgs, ServerCreateTyped, ServerCreateCallable, Managed, ManagedNoTypeid, ManagedOutside, ProxyDecref, ProxyDecrefInServer      # noqa: E402  managed() values are live proxies to the hosted value itself
UNITS = [ServerCallMethod, ServerCallMethodTyped, ServeClient, ProxyCallMethod, ProxyCallMethodInServer, GeneratedProxyMethod, CreateMethod, MakeProxyType, AutoProxyUnit, DecoratorNames,
         NamespaceAttr, NamespaceSetAttr, NamespaceDelAttr, IteratorProxyIter] + PROXY_METHODS + [ServerCreate, ServerCreateBadArgs, ServerCreateTyped, ServerCreateCallable, Managed, ManagedNoTypeid, ManagedOutside, ProxyDecref, ProxyDecrefInServer, C14Lemma]
ALWAYS_RUN_SCENARIOS = True      # both batteries together take about 3 s; they are the bounded stand-in for operation sequences
SCENARIOS = [('BaseProxy._callmethod', 'replay/scenarios/c14_in_server_error.py'), ('', 'replay/scenarios/c14_proxy_vs_direct.py')]
BOUNDED = [{'function': 'operation sequences through several proxies / threads / a child process', 'method': 'runtime scenario replay/scenarios/c14_proxy_vs_direct.py (differential against local objects)', 'bound': '6 seeds x 60 operations x 3 object kinds + fixed Value/Namespace/managed()/thread/child script', 'counted_as_proved': False}]
THOROUGH_SCENARIOS = [('', 'replay/scenarios/c14_proxy_vs_direct.py', (6, 30, 150), 600)]
