"""C17 — IterableQueue delivers every item once and every consumer finishes.

Shared abstract state: token counts sp/ap/us of the three helper queues (sp + ap + us + tokens in hands == n), the number
of end markers mk in the data queue.  Each function's EFFECT on that state (order and atomicity of its actions) is proved
on the real code; the lemma unit then shows that these effects preserve the protocol invariant
    mk + pending == ap + extra,  extra in {0, 1},  extra == 1 => us == n
and that per round exactly one consumer adds the extra marker -- which is what the pinned tree violated (token move and
`full()` test were separate actions)."""
import ast
import z3

from pyvc import vals as V
from pyvc.vals import Val, SeqV, NONE, fresh
from pyvc.unit import Unit, LoopSpec, LemmaUnit
from pyvc.models import Rec, Fn, Nop, Lock, Event, GhostClock
from pyvc.core import St, Module, box, Unsupported, Obj, unbox_handle, ExcClass, KwPack, Callable_

F = 'queue.py'

ASSUMPTIONS = (
    'queue.Queue / multiprocessing.Queue: each item put is received by exactly one get (MPMC, FIFO per producer); full() on the bounded helper queues is exact w.r.t. completed puts',
    'usage precondition (documented): each supplier calls put_end once per round; renew is called once, after the round is complete, while no consumer is iterating',
    'None is never put as a data item (documented)',
)
NOT_DECIDED = ('termination of consumers needs fairness (a marker is always present once all suppliers ended: invariant)', 'cross-process pickling of the helper queues and the lock')


class Tok(Obj):
    """one of the helper token queues, as a shared counter"""

    def __init__(self, ex, name, unit):
        super().__init__(ex, name)
        self.u = unit

    def havoc(self, ex, st):
        pass

    def cnt(self, st):
        return st.ghost[self.label]

    def m_full(self, ex, st, args, kwargs, node):
        st = st.fork()
        self.u.interfere(ex, st)
        self.u.log(st, ('full?', self.label, self.u.lids_lock.held(st)))
        return [('ok', st, self.cnt(st) == self.u.n)]

    def m_get(self, ex, st, args, kwargs, node):
        st = st.fork()
        self.u.interfere(ex, st)
        timed = 'timeout' in kwargs
        outs = []
        s1 = st.fork().assume(self.cnt(st) >= 1)
        s1.ghost[self.label] = self.cnt(st) - 1
        s1.ghost['hand'] = s1.ghost['hand'] + 1
        self.u.log(s1, ('get', self.label, self.u.lids_lock.held(s1)))
        if not timed:
            s1.ghost['#blocking'] = s1.ghost.get('#blocking', ()) + ((node.lineno, f'get {self.label}', ()),)
        outs.append(('ok', s1, NONE))
        if timed:
            s2 = st.fork()
            outs.append(ex.raise_new(s2, 'queue.Empty'))
        return outs

    def m_put(self, ex, st, args, kwargs, node):
        st = st.fork()
        self.u.interfere(ex, st)
        ex.oblige(st, f'line {node.lineno}: a token is put only if this role holds one', st.ghost['hand'] >= 1)
        st.ghost[self.label] = self.cnt(st) + 1
        st.ghost['hand'] = st.ghost['hand'] - 1
        self.u.log(st, ('put', self.label, self.u.lids_lock.held(st)))
        return [('ok', st, NONE)]


class IQBase(Unit):
    prop = 'C17'
    file = F

    def mk(self, ex, st):
        self.n = z3.Int('num_suppliers')
        st.assume(self.n >= 1)
        for nm in ('spare', 'applied', 'used'):
            st.ghost[nm] = z3.Int(nm + '0')
            st.assume(st.ghost[nm] >= 0)
        st.assume(st.ghost['spare'] + st.ghost['applied'] + st.ghost['used'] <= self.n)
        st.ghost['hand'] = z3.IntVal(0)
        st.ghost['log'] = ()
        st.ghost['markers_put'] = z3.IntVal(0)
        st.ghost['items_put'] = V.EMPTY
        self.lids_lock = Lock(ex, '_lids_lock').init(st)
        self.spare, self.applied, self.used = (Tok(ex, nm, self) for nm in ('spare', 'applied', 'used'))
        self.to_stop = Event(ex, 'to_stop')
        self.to_stop.init(st)

        def qput(e, s, a, k, n):
            s = s.fork()
            v = box(e, a[0])
            if z3.is_true(z3.simplify(v == NONE)):
                s.ghost['markers_put'] = s.ghost['markers_put'] + 1
                self.log(s, ('marker', 'q', self.lids_lock.held(s)))
            else:
                s.ghost['items_put'] = z3.Concat(s.ghost['items_put'], z3.Unit(v))
            return [('ok', s, NONE)]
        self.qput = Fn(qput, name='self.put / q.put')
        self.me = Rec(ex, 'self', methods={'put': self.qput}).init(st, _spare_lids=self.spare, _applied_lids=self.applied, _used_lids=self.used, _lids_lock=self.lids_lock,
                                                                  _num_suppliers=self.n, _to_stop=self.to_stop, _can_timeout=z3.BoolVal(True))
        self.me.havoc = lambda ex2, st2: None
        st.env['self'] = self.me
        ex.globals['StopRequested'] = ExcClass('StopRequested')
        return st

    def log(self, st, ev):
        st.ghost['log'] = st.ghost['log'] + (ev,)

    def interfere(self, ex, st):
        """other suppliers/consumers move tokens: within a round tokens only move spare -> applied -> used"""
        held = z3.simplify(self.lids_lock.held(st))
        sp, ap, us = (fresh(nm, z3.IntSort()) for nm in ('spare', 'applied', 'used'))
        st.assume(sp >= 0, ap >= 0, us >= 0, sp <= st.ghost['spare'], us >= st.ghost['used'], sp + ap + us + st.ghost['hand'] <= self.n)
        if z3.is_int_value(held) and held.as_long() >= 1:
            st.assume(us == st.ghost['used'])        # only movers (under the lock) change `used`; suppliers may still apply lids
        st.ghost['spare'], st.ghost['applied'], st.ghost['used'] = sp, ap, us


class NextUnit(IQBase):
    qual = 'IterableQueue.__next__'
    expected_exits = ('normal', 'raise')
    canaries = (
        ('pinned-tree defect: move and test are separate actions', '            with self._lids_lock:\n                z = self._applied_lids.get()\n                self._used_lids.put(z)\n                is_last_lid = self._used_lids.full()',
         '            z = self._applied_lids.get()\n            self._used_lids.put(z)\n            is_last_lid = self._used_lids.full()', 'atomic'),
        ('test after the lock is released', '                self._used_lids.put(z)\n                is_last_lid = self._used_lids.full()\n', '                self._used_lids.put(z)\n            is_last_lid = self._used_lids.full()\n', 'atomic'),
        ('extra marker not re-inserted by the late reader', '                self.put(None)\n                # Let there always be an end marker', '                pass\n                # Let there always be an end marker', 'marker'),
        ('item dropped', '        return z', '        return self.__next__()', ''),
    )

    def setup(self, ex):
        st = St()
        self.mk(ex, st)
        self.item = z3.Const('the_item', Val)
        self.got_marker = z3.Bool('got_marker')

        def qget(e, s, a, k, n):
            s = s.fork()
            self.interfere(e, s)
            self.log(s, ('qget', 'q', self.lids_lock.held(s)))
            s.ghost['#blocking'] = s.ghost.get('#blocking', ()) + ((n.lineno, 'get q', tuple(self.lids_lock.locks_held_labels(e, s))),)
            s1 = s.fork().assume(self.got_marker)
            s2 = s.fork().assume(z3.Not(self.got_marker), self.item != NONE)
            return [('ok', s1, NONE), ('ok', s2, self.item)]
        self.me.set(st, '_q', Rec(ex, 'q', methods={'get': Fn(qget, trusted='data queue get(): returns one item or one end marker, each delivered to exactly one consumer')}))
        self.me.methods['__next__'] = Fn(self.rec_call, name='__next__ (own contract)')
        st.ghost['recursed'] = z3.BoolVal(False)
        return st

    def rec_call(self, ex, st, args, kwargs, node):
        ex.oblige(st, f'line {node.lineno}: recursive call with no token in hand and no lock held', z3.And(st.ghost['hand'] == 0, self.lids_lock.held(st) == 0))
        st = st.fork()
        st.ghost['recursed'] = z3.BoolVal(True)
        r = fresh('next_item')
        s1 = st.fork().assume(r != NONE)
        return [('ok', s1, r), ex.raise_new(st.fork(), 'StopIteration')]

    def post(self, ex, outs):
        for k, s, p in outs:
            log = s.ghost['log']
            moves = [e for e in log if e[0] in ('get', 'put') and e[1] in ('applied', 'used')]
            markers = [e for e in log if e[0] == 'marker']
            ex.oblige(s, f'exit({k}): no token left in hand, lock released', z3.And(s.ghost['hand'] == 0, self.lids_lock.held(s) == 0))
            if moves:
                # the decisive full() test is the one logged right after the move, inside the same lock hold
                idx = [i for i, e in enumerate(log) if e == moves[-1]][-1]
                test = log[idx + 1] if idx + 1 < len(log) and log[idx + 1][0] == 'full?' else None
                atomic = test is not None and all(z3.is_true(z3.simplify(e[2] >= 1)) for e in moves + [test]) and [e[:2] for e in moves] == [('get', 'applied'), ('put', 'used')]
                ex.oblige(s, f'exit({k}): the token move applied -> used and the test "is the used set now complete?" are ONE atomic step (same hold of the lids lock): exactly one consumer per round sees the completion',
                          z3.BoolVal(bool(atomic)))
            if k in ('normal', 'return'):
                ex.oblige(s, 'exit(return): a data item taken from the queue is returned itself, unchanged (only after an end marker does the consumer look again); no marker is inserted on this path',
                          z3.And(z3.If(self.got_marker, s.ghost['recursed'], z3.And(box(ex, p) == self.item, z3.Not(s.ghost['recursed']))), box(ex, p) != NONE, z3.BoolVal(len(markers) == 0)))
            else:
                ex.oblige(s, 'exit(raise): only StopIteration', V.isinst(p, 'StopIteration'))
                took = len([e for e in log if e[0] == 'qget']) == 1
                moved = len(moves) == 2
                if took:
                    # marker accounting on the paths that end this consumer's iteration after taking a marker
                    ex.oblige(s, 'exit(StopIteration after taking a marker): the marker is re-inserted exactly once iff it was the extra one (used already complete) or this consumer completed the used set; never otherwise',
                              z3.Or(z3.Not(self.got_marker), s.ghost['recursed'], z3.BoolVal(len(markers) == 1)))


class PutEndUnit(IQBase):
    qual = 'IterableQueue.put_end'
    expected_exits = ('normal', 'raise')
    canaries = (('marker visible before its lid is applied', '        self._applied_lids.put(z)\n        self.put(None)', '        self.put(None)\n        self._applied_lids.put(z)', 'lid is applied before'),
                ('two markers per supplier', '        self.put(None)', '        self.put(None)\n        self.put(None)', ''),
                ('a stop request does not end the wait for renew', '                        raise StopRequested', '                        pass', 'stop request ends the wait'))

    def setup(self, ex):
        st = St()
        self.mk(ex, st)
        st.env['wait_for_renew'] = z3.Bool('wait_for_renew')
        return st

    @property
    def loops(self):
        sp = LoopSpec(inv=lambda s, ex: z3.And(s.ghost['hand'] == 0, s.ghost['markers_put'] == 0, z3.BoolVal(True)), keep_ghost=('hand', 'markers_put', 'items_put'))

        def head(h, ex):
            h.ghost['#polled'] = None
            if not hasattr(self, '_orig_is_set'):
                self._orig_is_set = self.to_stop.m_is_set

                def is_set(ex2, st2, args, kwargs, node):
                    outs = self._orig_is_set(ex2, st2, args, kwargs, node)
                    for k, s2, v in outs:
                        s2.ghost['#polled'] = v
                    return outs
                self.to_stop.m_is_set = is_set
        sp.at_head = head
        sp.on_backedge = lambda s, ex: ex.oblige(s, 'iteration (waiting for renew): before waiting another second the stop event was polled and found clear -- a stop request ends the wait with StopRequested within the interval',
                                                 z3.Not(s.ghost['#polled']) if s.ghost.get('#polled') is not None else z3.BoolVal(False))
        return {0: sp}

    def post(self, ex, outs):
        for k, s, p in outs:
            log = [e[:2] for e in s.ghost['log'] if e[0] in ('get', 'put', 'marker')]
            if k in ('normal', 'return'):
                ex.oblige(s, 'exit: one lid moved spare -> applied and exactly one end marker put, the lid is applied before the marker becomes visible',
                          z3.And(z3.BoolVal(log[-3:] == [('get', 'spare'), ('put', 'applied'), ('marker', 'q')] and len([e for e in log if e[0] == 'marker']) == 1),
                                 s.ghost['hand'] == 0, s.ghost['markers_put'] == 1))
            else:
                ex.oblige(s, 'exit(raise): RuntimeError (called too often) or StopRequested, with no effect on the queue',
                          z3.And(z3.Or(V.isinst(p, 'RuntimeError'), V.isinst(p, 'StopRequested')), s.ghost['hand'] == 0, s.ghost['markers_put'] == 0))


class RenewUnit(IQBase):
    qual = 'IterableQueue.renew'
    expected_exits = ('normal', 'raise')
    canaries = (('marker left in the queue', '        z = self._q.get()  # take out the extra `None`', '        z = None', 'extra marker is removed'),
                ('one lid not recycled', 'for _ in range(self._num_suppliers):', 'for _ in range(self._num_suppliers - 1):', 'all lids'))

    def setup(self, ex):
        st = St()
        self.mk(ex, st)
        st.ghost['qgets'] = z3.IntVal(0)
        self.z = z3.Const('taken', Val)

        def qget(e, s, a, k, n):
            s = s.fork()
            s.ghost['qgets'] = s.ghost['qgets'] + 1
            return [('ok', s, self.z)]
        self.me.set(st, '_q', Rec(ex, 'q', methods={'get': Fn(qget)}))
        ex.globals['range'] = Fn(lambda e, s, a, k, n: [('ok', s, RangeVal(a[0]))])
        st.ghost['used0'], st.ghost['spare0'] = st.ghost['used'], st.ghost['spare']
        st.ghost['ri'] = z3.IntVal(0)
        st.ghost['#counted'] = False          # True once a range() loop drives the recycling (then ri counts the tokens moved)
        return st

    def interfere(self, ex, st):
        pass        # precondition: renew runs alone (round complete, no consumer iterating, suppliers wait for the spare lids)

    @property
    def loops(self):
        def inv(s, ex):
            base = [s.ghost['hand'] == 0, s.ghost['used'] + s.ghost['spare'] == s.ghost['used0'] + s.ghost['spare0'], s.ghost['qgets'] == 1, s.ghost['used0'] == self.n, self.z == NONE, s.ghost['used'] >= 0]
            if s.ghost.get('#counted'):
                base += [s.ghost['spare'] == s.ghost['spare0'] + s.ghost['ri'], s.ghost['ri'] >= 0, s.ghost['ri'] <= self.n]
            return z3.And(base)
        return {0: LoopSpec(inv=inv, keep_ghost=('qgets', 'used0', 'spare0', 'hand', 'applied'))}

    def run(self, override=None):
        return super().run(override)

    def post(self, ex, outs):
        for k, s, p in outs:
            if k in ('normal', 'return'):
                ex.oblige(s, 'exit: the extra marker is removed (exactly one get, and it was a marker) and all lids are recycled used -> spare',
                          z3.And(s.ghost['qgets'] == 1, self.z == NONE, s.ghost['used'] == 0, s.ghost['spare'] == s.ghost['spare0'] + self.n, s.ghost['hand'] == 0))
            else:
                ex.oblige(s, 'exit(raise): RuntimeError when the round is not complete (no effect); when the item taken is not a marker (the protocol was violated by the caller) RuntimeError -- or whatever printing that item raised',
                          z3.Or(z3.And(V.isinst(p, 'RuntimeError'), z3.Or(s.ghost['qgets'] == 0, self.z != NONE)), z3.And(self.z != NONE, s.ghost['qgets'] == 1, V.isinst(p, 'Exception'))))


class RangeVal(Obj):
    def __init__(self, n):
        self.n = n
        self.oid = -3

    def havoc(self, ex, st):
        pass

    def iter_start(self, ex, st, node):
        st = st.fork()
        st.ghost['ri'] = z3.IntVal(0)
        st.ghost['used0'], st.ghost['spare0'] = st.ghost['used'], st.ghost['spare']
        st.ghost['#counted'] = True
        return [('ok', st, self)]

    def pull(self, ex, st, node):
        i = st.ghost['ri']
        s1 = st.fork().assume(i >= self.n)
        s2 = st.fork().assume(i < self.n)
        s2.ghost['ri'] = i + 1
        return [x for x in (('stop', s1, None), ('item', s2, i)) if ex.feasible(x[1])]


class GetPutUnit(Unit):
    """ResponsiveQueue._get_put: polls the stop event between bounded waits."""
    prop = 'C17'
    file = F
    qual = 'ResponsiveQueue._get_put'
    expected_exits = ('normal', 'raise')
    numeric_vals_are_ints = False
    timeout_none = False
    canaries = (('stop event not polled', '                if stop_requested.is_set():\n                    raise StopRequested', '                pass', 'within the wait interval'),
                ('waits the whole timeout in one slice', 'timeout=max(0, min(wait_interval_seconds, time_available)),', 'timeout=max(0, time_available),', 'slice'))

    def setup(self, ex):
        st = St()
        self.w = z3.Real('wait_interval')
        st.assume(self.w > 0)
        self.stop = Event(ex, 'stop_requested')
        self.stop.init(st)
        st.env['self'] = Rec(ex, 'self', immutable=True).init(st, wait_interval_seconds=self.w, stop_requested=self.stop)
        if self.timeout_none:
            st.env['timeout'] = NONE
        else:
            self.timeout = z3.Real('timeout')
            st.assume(self.timeout >= 0)
            st.env['timeout'] = self.timeout
        st.ghost['clock'] = z3.RealVal(0)
        st.ghost['stop_since'] = z3.RealVal(-1)          # time at which the stop was requested (ghost), -1: not yet
        st.ghost['max_slice'] = z3.RealVal(0)
        self.res = z3.Const('result', Val)

        def func(e, s, a, k, n):
            t = k['timeout']
            now = s.ghost['clock']
            e.oblige(s, f'line {n.lineno}: every blocking slice is bounded by the wait interval (so a stop request is noticed within it)', z3.And(t >= 0, t <= self.w))
            s1 = s.fork()
            t1 = fresh('t', z3.RealSort())
            s1.assume(t1 >= now, t1 <= now + t)
            s1.ghost['clock'] = t1
            s2 = s.fork()
            s2.ghost['clock'] = now + t
            return [('ok', s1, self.res), e.raise_new(s2, 'queue.Empty')]
        st.env['func'] = Fn(func, trusted='queue get/put with block=True, timeout=t: returns within t or raises Empty/Full at t')
        from pyvc.core import ExcClass as EC
        st.env['exc'] = EC('queue.Empty')
        ex.globals['perf_counter'] = GhostClock()
        ex.globals['StopRequested'] = ExcClass('StopRequested')
        return st

    def on_call(self, ex, st, e, src):
        return None

    @property
    def loops(self):
        def inv(s, ex):
            from pyvc.core import as_num
            total = as_num(ex, s, s.env['time_total']) if not (z3.is_expr(s.env['time_total']) and s.env['time_total'].sort() in (z3.RealSort(), z3.IntSort())) else s.env['time_total']
            avail = s.env['time_available']
            # the time budget: what the caller said (a whole day stands in for "no timeout"; 0 means 0), and what is left of it is exactly total - elapsed
            budget = (total == 3600 * 24) if self.timeout_none else (total == self.timeout)
            return z3.And(s.ghost['clock'] >= 0, s.env['t0'] == 0, budget, avail == total - s.ghost['clock'], z3.Or(avail > 0, s.ghost['clock'] == 0))
        sp = LoopSpec(inv=inv, keep=('func', 'exc', 'stop_requested', 'wait_interval_seconds', 'time_total', 't0'))

        def head(h, ex):
            h.ghost['#polled'] = None
            orig = self.stop.m_is_set

            def is_set(ex2, st2, args, kwargs, node):
                outs = orig(ex2, st2, args, kwargs, node)
                for k, s2, v in outs:
                    s2.ghost['#polled'] = v
                return outs
            self.stop.m_is_set = is_set
        sp.at_head = head
        sp.on_backedge = lambda s, ex: ex.oblige(s, 'iteration: before blocking for another slice the stop event was polled and found clear (so a stop request is honoured within the wait interval)',
                                                 z3.Not(s.ghost['#polled']) if s.ghost.get('#polled') is not None else z3.BoolVal(False))
        return {0: sp}

    def post(self, ex, outs):
        for k, s, p in outs:
            if k in ('normal', 'return'):
                ex.oblige(s, 'exit(return): the underlying operation\'s result', box(ex, p) == self.res)
            else:
                ex.oblige(s, 'exit(raise): StopRequested only if the stop event was seen set; otherwise the operation\'s own Empty/Full after the total timeout',
                          z3.Or(z3.And(V.isinst(p, 'StopRequested'), self.stop.get(s, 'flag')), V.isinst(p, 'queue.Empty')))
                if not self.timeout_none:
                    ex.oblige(s, 'exit(raise): [C17/C19] the call has waited no longer than the caller\'s timeout in total -- a timeout of 0 polls once and gives up at once',
                              s.ghost['clock'] <= self.timeout)


class GetPutUnitNoTimeout(GetPutUnit):
    timeout_none = True
    variant = 'timeout=None'
    canaries = ()


class RQGet(Unit):
    """ResponsiveQueue.get/put: a blocking call always goes through _get_put (so it is sliced and polls the stop event);
    the underlying queue is called directly only in non-blocking mode."""
    prop = 'C17'
    file = F
    qual = 'ResponsiveQueue.get'
    op = 'get'
    canaries = (('blocking get bypasses the stop-aware loop', 'return self._get_put(self.queue.get, timeout, Empty)', 'return self.queue.get(block=True, timeout=timeout)', 'goes through _get_put'),)

    def setup(self, ex):
        st = St()
        st.ghost['direct'] = ()
        st.ghost['via'] = ()

        def direct(e, s, a, k, n):
            s = s.fork()
            s.ghost['direct'] = s.ghost['direct'] + ((tuple(a), dict(k)),)
            return [('ok', s, fresh('direct_result'))]

        def via(e, s, a, k, n):
            s = s.fork()
            s.ghost['via'] = s.ghost['via'] + ((tuple(a), dict(k)),)
            return [('ok', s, fresh('sliced_result'))]
        self.qget, self.qput = Fn(direct, name='queue.get'), Fn(direct, name='queue.put')
        q = Rec(ex, 'queue', methods={'get': self.qget, 'put': self.qput, 'empty': Fn(lambda e, s, a, k, n: [('ok', s, fresh('empty', z3.BoolSort()))]),
                                      'full': Fn(lambda e, s, a, k, n: [('ok', s, fresh('full', z3.BoolSort()))]), 'qsize': Fn(lambda e, s, a, k, n: [('ok', s, fresh('qsize', z3.IntSort()))])})
        self.me = Rec(ex, 'self', methods={'_get_put': Fn(via, name='_get_put')}).init(st, queue=q)
        st.env['self'] = self.me
        self.block = z3.Bool('block')
        st.env.update(block=self.block, timeout=z3.Const('timeout', Val), x=z3.Const('x', Val))
        ex.globals['Empty'] = ExcClass('queue.Empty')
        ex.globals['Full'] = ExcClass('queue.Full')
        ex.globals['functools.partial'] = Fn(lambda e, s, a, k, n: [('ok', s, PartialOf(unbox_handle(e, a[0]), a[1:]))])
        return st

    def post(self, ex, outs):
        for k, s, p in outs:
            if k in ('normal', 'return'):
                d, v = s.ghost['direct'], s.ghost['via']
                blocking_ok = len(v) == 1 and len(d) == 0
                if blocking_ok:
                    tgt = unbox_handle(ex, v[0][0][0])
                    want = self.qget if self.op == 'get' else self.qput
                    blocking_ok = tgt is want or (isinstance(tgt, PartialOf) and tgt.f is want)
                nonblocking_ok = len(d) == 1 and len(v) == 0 and 'block' in d[0][1]
                ex.oblige(s, 'exit: a blocking call goes through _get_put on the underlying operation (sliced waits, stop event polled); only a non-blocking call reaches the queue directly',
                          z3.If(self.block, z3.BoolVal(bool(blocking_ok)), z3.BoolVal(bool(nonblocking_ok))))
            else:
                ex.oblige(s, 'exit: no exception of its own', False)


class PartialOf:
    def __init__(self, f, args):
        self.f, self.args = f, args


class RQPut(RQGet):
    qual = 'ResponsiveQueue.put'
    op = 'put'
    canaries = ()


class C17Lemma(LemmaUnit):
    prop = 'C17'
    qual = 'lemma(C17)'

    def lemmas(self):
        n, sp, ap, us, mk, pend, extra = z3.Ints('n spare applied used markers pending extra')
        Inv = lambda sp, ap, us, mk, pend, extra: z3.And(sp >= 0, ap >= 0, us >= 0, mk >= 0, pend >= 0, sp + ap + us + pend == n, mk + pend == ap + pend + extra,
                                                         z3.Or(extra == 0, extra == 1), z3.Implies(extra == 1, us == n))
        base = [n >= 1, Inv(sp, ap, us, mk, pend, extra)]
        yield ('put_end effect (spare-1, applied+1, marker+1) preserves the invariant', base + [sp >= 1, extra == 0], Inv(sp - 1, ap + 1, us, mk + 1, pend, extra))
        yield ('consumer takes a marker while the used set is incomplete: it is an applied marker, so a lid is waiting for it (applied.get() cannot block forever)',
               base + [mk >= 1, us < n], z3.And(extra == 0, ap >= 1))
        yield ('atomic move applied -> used by a non-last mover preserves the invariant', base + [mk >= 1, us + 1 < n, extra == 0, ap >= 1], Inv(sp, ap - 1, us + 1, mk - 1, pend, extra))
        yield ('the last mover (used becomes n) re-inserts ONE marker: the extra, invariant preserved', base + [mk >= 1, us + 1 == n, extra == 0, ap >= 1],
               z3.And(Inv(sp, ap - 1, us + 1, mk - 1 + 1, pend, 1), ap - 1 == 0))
        yield ('a consumer reading the extra marker (used complete) puts it back: state unchanged', base + [us == n, mk >= 1], z3.And(extra == 1, mk == 1, Inv(sp, ap, us, mk - 1 + 1, pend, extra)))
        yield ('renew (used complete): removes the single marker and recycles the lids: a fresh round with no marker left over',
               base + [us == n, mk == 1], z3.And(Inv(n, 0, 0, 0, 0, 0), extra == 1))
        a1, a2 = z3.Bools('c1_saw_complete c2_saw_complete')
        u1, u2 = z3.Ints('used_after_c1 used_after_c2')
        yield ('exactly one consumer per round sees the completion when move-and-test is atomic (serialised by the lids lock: used values after two moves differ)',
               [u1 != u2, a1 == (u1 == n), a2 == (u2 == n)], z3.Not(z3.And(a1, a2)))



# ================================================================ construction, pickling state, put
class IQInit(Unit):
    """IterableQueue.__init__: three token queues, EACH of capacity exactly num_suppliers (the end-of-round test is `_used_lids.full()`), the spare one
    filled with exactly num_suppliers tokens; a stop event wraps the data queue in ResponsiveQueue; everything is stored."""
    prop = 'C17'
    file = F
    qual = 'IterableQueue.__init__'
    variant = 'thread queue'
    kind = 'thread'
    with_stop = False
    unreachable_ok = ()
    canaries = (('token queues one slot larger (full() never true)', 'self._used_lids = queue.Queue(maxsize=num_suppliers)', 'self._used_lids = queue.Queue(maxsize=num_suppliers + 1)', ''),
                ('one spare token short', 'for _ in range(num_suppliers):\n            self._spare_lids.put(None)', 'for _ in range(num_suppliers - 1):\n            self._spare_lids.put(None)', ''))

    def setup(self, ex):
        st = St()
        self.n = z3.Int('num_suppliers')
        st.assume(self.n >= 1)
        self.me = Rec(ex, 'self')
        self.me.havoc = lambda ex2, st2: None          # the loop only puts tokens on a queue: no attribute of self is rebound in it
        self.q = Rec(ex, 'q', immutable=True)
        self.q.qkind = self.kind
        self.stop = Rec(ex, 'to_stop', immutable=True) if self.with_stop else NONE
        st.env.update(self=self.me, q=self.q, num_suppliers=self.n, to_stop=self.stop)
        st.ghost['made'] = ()
        st.ghost['spare_puts'] = z3.IntVal(0)
        unit = self

        def mkq(kind):
            def f(e, s, a, k, n):
                o = Rec(e, 'tokq', methods={'put': Fn(unit.tok_put)})
                o.qkind = kind
                s = s.fork()
                s.ghost['made'] = s.ghost['made'] + ((o, kind, k.get('maxsize', a[0] if a else None)),)
                return [('ok', s, o)]
            return Fn(f)
        ex.globals['queue.Queue'] = mkq('thread')
        ex.globals['multiprocessing.Queue'] = mkq('process')
        ex.globals['threading.Lock'] = Fn(lambda e, s, a, k, n: [('ok', s, Rec(e, 'thread-lock', immutable=True))])
        ex.globals['multiprocessing.Lock'] = Fn(lambda e, s, a, k, n: [('ok', s, Rec(e, 'process-lock', immutable=True))])
        self.wrapped = None

        def rq(e, s, a, k, n):
            w = Rec(e, 'ResponsiveQueue', immutable=True)
            w.qkind = 'wrapped'
            w.inner = (unbox_handle(e, a[0]), unbox_handle(e, a[1]))
            unit.wrapped = w
            return [('ok', s, w)]
        ex.globals['ResponsiveQueue'] = Fn(rq)

        def isinstance_(e, s, a, k, n):
            o = unbox_handle(e, a[0])
            t = ast.unparse(n.args[1])
            kind = getattr(o, 'qkind', None)
            if t == 'multiprocessing.SimpleQueue':
                return [('ok', s, z3.BoolVal(kind == 'mp-simple'))]
            if t == '(queue.Queue, queue.SimpleQueue)':
                return [('ok', s, z3.BoolVal(kind == 'thread'))]
            raise Unsupported('isinstance ' + t)
        ex.globals['isinstance'] = Fn(isinstance_)
        ex.globals['range'] = Fn(lambda e, s, a, k, n: [('ok', s, RangeVal2(a[0]))])
        return st

    def tok_put(self, e, s, a, k, n):
        s = s.fork()
        s.ghost['spare_puts'] = s.ghost['spare_puts'] + 1
        s.ghost['last_put_on'] = True
        return [('ok', s, NONE)]

    @property
    def loops(self):
        return {0: LoopSpec(inv=lambda s, ex: z3.And(s.ghost['spare_puts'] == s.ghost['ri2'], s.ghost['ri2'] >= 0, s.ghost['ri2'] <= self.n), keep_ghost=('made',))}

    def post(self, ex, outs):
        for k, s, p in outs:
            if k not in ('normal', 'return'):
                ex.oblige(s, 'exit(raise): only ValueError, only for a stop event together with a queue that cannot time out (multiprocessing.SimpleQueue); nothing was created',
                          z3.And(V.isinst(p, 'ValueError'), z3.BoolVal(self.kind == 'mp-simple' and self.with_stop and len(s.ghost['made']) == 0)))
                continue
            if self.kind == 'mp-simple' and self.with_stop:
                ex.oblige(s, 'exit: a stop event with a queue that cannot time out is refused', False)
                continue
            made = s.ghost['made']
            g = lambda f: unbox_handle(ex, self.me.get(s, f))      # noqa: E731
            ok = len(made) == 3 and [m[0] for m in made] == [g('_spare_lids'), g('_applied_lids'), g('_used_lids')]
            from pyvc.core import as_int
            sizes = z3.And([as_int(ex, s, m[2]) == self.n for m in made]) if ok and all(m[2] is not None for m in made) else z3.BoolVal(False)
            dq = g('_q')
            wrap_ok = (dq is self.wrapped and self.wrapped is not None and self.wrapped.inner == (self.q, self.stop)) if self.with_stop else (dq is self.q)
            ex.oblige(s, 'exit: three distinct token queues, each of capacity exactly num_suppliers, the spare one holding exactly num_suppliers tokens, the others empty; the data queue is the given one'
                         + (' wrapped in ResponsiveQueue(q, to_stop)' if self.with_stop else '') + '; num_suppliers and the stop event are stored; time-outs are possible unless the data queue is a multiprocessing.SimpleQueue',
                      z3.And(z3.BoolVal(bool(ok and wrap_ok)), sizes, s.ghost['spare_puts'] == self.n, box(ex, self.me.get(s, '_num_suppliers')) == V.intv(self.n),
                             z3.BoolVal(g('_to_stop') is self.stop if self.with_stop else z3.is_true(z3.simplify(box(ex, self.me.get(s, '_to_stop')) == NONE))),
                             self.me.get(s, '_can_timeout') == z3.BoolVal(self.kind != 'mp-simple')))


class RangeVal2(Obj):
    def __init__(self, n):
        self.n = n
        self.oid = -31

    def havoc(self, ex, st):
        pass

    def iter_start(self, ex, st, node):
        st = st.fork()
        st.ghost['ri2'] = z3.IntVal(0)
        return [('ok', st, self)]

    def havoc_index(self, st):
        i = fresh('ri2', z3.IntSort())
        st.assume(i >= 0)
        st.ghost['ri2'] = i

    def idx(self, st):
        return st.ghost['ri2']

    def pull(self, ex, st, node):
        i = st.ghost['ri2']
        s1 = st.fork().assume(i >= self.n)
        s2 = st.fork().assume(i < self.n)
        s2.ghost['ri2'] = i + 1
        return [x for x in (('stop', s1, None), ('item', s2, i)) if ex.feasible(x[1])]


class IQInitStop(IQInit):
    variant = 'thread queue with a stop event'
    with_stop = True
    canaries = ()


class IQInitProcess(IQInit):
    variant = 'process queue'
    kind = 'process'
    canaries = ()


class IQInitMpSimple(IQInit):
    variant = 'multiprocessing.SimpleQueue'
    kind = 'mp-simple'
    canaries = ()


class IQInitMpSimpleStop(IQInit):
    variant = 'multiprocessing.SimpleQueue with a stop event'
    kind = 'mp-simple'
    with_stop = True
    canaries = ()


class IQState(Unit):
    """__getstate__ / __setstate__ round trip, executed symbolically on the real text of both: the object rebuilt in another process from what
    __getstate__ returns refers to the SAME eight things -- data queue, stop event, supplier count, the three token queues, the timeout flag and the lock
    that makes "move my token and test whether the set is complete" one atomic step ACROSS processes.  (A lock made anew on unpickling would be private
    to each process: two consumer processes could both add the extra end marker, and one would survive renew().)"""
    prop = 'C17'
    file = F
    qual = 'IterableQueue.__getstate__'
    canaries = (('two token queues swapped in the pickled state', '            self._applied_lids,\n            self._used_lids,\n            self._can_timeout,', '            self._used_lids,\n            self._applied_lids,\n            self._can_timeout,', ''),
                ('the lock is not part of the pickled state', '            self._can_timeout,\n            self._lids_lock,\n        )', '            self._can_timeout,\n            self._can_timeout,\n        )', ''))
    FIELDS = ('_q', '_to_stop', '_num_suppliers', '_spare_lids', '_applied_lids', '_used_lids', '_can_timeout', '_lids_lock')

    def setup(self, ex):
        st = St()
        self.vals = {f: z3.Const('field' + f, Val) for f in self.FIELDS}
        self.me = Rec(ex, 'self', immutable=True).init(st, **self.vals)
        st.env['self'] = self.me
        # anything constructed while unpickling is a NEW object, private to the unpickling process
        for nm in ('multiprocessing.Lock', 'multiprocessing.RLock', 'threading.Lock', 'threading.RLock', 'multiprocessing.Queue', 'multiprocessing.SimpleQueue', 'queue.Queue', 'queue.SimpleQueue',
                   'multiprocessing.Event', 'threading.Event'):
            ex.globals[nm] = Fn(lambda e, s, a, k, n, nm=nm: [('ok', s, fresh('new_' + nm.replace('.', '_')))])
        ex.globals['multiprocessing'] = Module('multiprocessing')
        ex.globals['threading'] = Module('threading')
        ex.globals['queue'] = Module('queue')
        return st

    def on_call(self, ex, st, e, src):
        if src == 'isinstance':
            # what kind of queue the data queue is: a pure look-up
            return ex.bind(ex.ev(e.args[0], st), lambda s, v: [('ok', s, z3.Function('isinstance_of_kind', Val, z3.StringSort(), z3.BoolSort())(box(ex, v), z3.StringVal(ast.unparse(e.args[1]))))])
        return None

    def post(self, ex, outs):
        from pyvc.unit import load_source, find_function
        from pyvc.core import Closure
        fn2 = find_function(ast.parse(load_source(self.file, self._override)), 'IterableQueue.__setstate__')
        for k, s, p in outs:
            if k not in ('normal', 'return'):
                ex.oblige(s, 'exit: __getstate__ does not raise', False)
                continue
            new = Rec(ex, 'the unpickled object')
            for k2, s2, p2 in ex.inline(s, Closure(fn2, ex), [new, p], {}, fn2):
                if k2 not in ('ok', 'normal', 'return'):
                    ex.oblige(s2, 'round trip: __setstate__ accepts what __getstate__ wrote', False)
                    continue
                for f in self.FIELDS:
                    if f == '_can_timeout':
                        # a plain flag derived from the kind of the data queue: carried over or derived again -- either is fine, as long as it is there
                        ex.oblige(s2, 'round trip: the rebuilt object has its _can_timeout flag', z3.BoolVal(new.has(s2, f)))
                        continue
                    ex.oblige(s2, f'round trip: the rebuilt object\'s {f} is the very one of the original (shared across processes, not a new one)',
                              box(ex, new.get(s2, f)) == self.vals[f] if new.has(s2, f) else z3.BoolVal(False))


class IQPut(Unit):
    """IterableQueue.put(x, timeout): exactly one put of x on the data queue (with the caller's timeout where the queue supports one)."""
    prop = 'C17'
    file = F
    qual = 'IterableQueue.put'
    canaries = (('timeout dropped', 'self._q.put(x, timeout=timeout)', 'self._q.put(x)', ''),)

    def setup(self, ex):
        st = St()
        self.x, self.timeout = z3.Const('x', Val), z3.Const('timeout', Val)
        self.can = z3.Bool('can_timeout')
        st.ghost['puts'] = ()

        def put(e, s, a, k, n):
            s = s.fork()
            s.ghost['puts'] = s.ghost['puts'] + ((box(e, a[0]), box(e, k['timeout']) if 'timeout' in k else None),)
            exc = fresh('put_exc')
            s2 = s.fork().assume(V.isinst(exc, 'BaseException'), *V.cls_facts(exc))
            return [('ok', s, NONE), ('raise', s2, exc)]
        me = Rec(ex, 'self', immutable=True).init(st, _can_timeout=self.can, _q=Rec(ex, 'q', immutable=True, methods={'put': Fn(put)}))
        st.env.update(self=me, x=self.x, timeout=self.timeout)
        ex.globals['type'] = Fn(lambda e, s, a, k, n: [('ok', s, Rec(e, 'cls', immutable=True).init(s, __name__=z3.StringVal('Q')))])
        return st

    def post(self, ex, outs):
        for k, s, p in outs:
            puts = s.ghost['puts']
            if len(puts) == 0:
                ex.oblige(s, 'exit: nothing put only when a timeout was asked of a queue that cannot time out (ValueError)', z3.And(z3.BoolVal(k == 'raise'), V.isinst(p, 'ValueError') if k == 'raise' else z3.BoolVal(False), z3.Not(self.can), self.timeout != NONE))
            else:
                ex.oblige(s, 'exit: exactly one put of x on the data queue, with the caller\'s timeout where the queue supports one',
                          z3.And(z3.BoolVal(len(puts) == 1), puts[0][0] == self.x, z3.If(self.can, (puts[0][1] == self.timeout) if puts[0][1] is not None else z3.BoolVal(False), z3.BoolVal(puts[0][1] is None))))


class IQIter(Unit):
    """IterableQueue.__iter__: hands out exactly what successive __next__() calls return, each once and in order -- whatever the values are (0, '', an
    empty batch are legitimate items) -- until __next__ raises StopIteration, and then ends; any other exception of __next__ (the queue's own timeout,
    a stop request) passes through unchanged.  `__next__` is under its own contract (unit C17:IterableQueue.__next__); here it is an arbitrary source."""
    prop = 'C17'
    file = F
    qual = 'IterableQueue.__iter__'
    consumer_may_stop = True
    assumed_contracts = ('self.__next__(): unit C17:IterableQueue.__next__',)
    canaries = (('a falsy item ends the iteration', '                yield self.__next__()', '                z = self.__next__()\n                if not z:\n                    break\n                yield z', 'exhausted'),
                ('every item handed out twice', '                yield self.__next__()', '                z = self.__next__()\n                yield z\n                yield z', 'invariant preserved'),
                ('every other item skipped', '                yield self.__next__()', '                self.__next__()\n                yield self.__next__()', 'invariant preserved'),
                ('other errors of __next__ swallowed', 'except StopIteration:', 'except Exception:', 'own error'))

    def setup(self, ex):
        from pyvc.models import Source
        st = St()
        self.src = Source(ex, 'src', may_raise='BaseException')
        self.src.init(st)
        st.ghost['out'] = V.EMPTY

        def nxt(e, s, a, k, n):
            outs = []
            for kind, s1, x in self.src.pull(e, s, n):
                if kind == 'stop':
                    si = fresh('stopiter')
                    s1 = s1.fork().assume(V.ucls(si) == V.K['StopIteration'], *V.cls_facts(si))
                    outs.append(('raise', s1, si))
                elif kind == 'raise':
                    outs.append(('raise', s1, x))
                else:
                    outs.append(('ok', s1, x))
            return outs
        st.env['self'] = Rec(ex, 'self', immutable=True, methods={'__next__': Fn(nxt)})
        return st

    @property
    def loops(self):
        live = lambda s: z3.And(z3.Not(self.src.done(s)), z3.Not(self.src.failed(s)))
        return {0: LoopSpec(inv=lambda s, ex: z3.And(live(s), s.ghost['out'] == self.src.seen(s)))}

    def post(self, ex, outs):
        for k, s, p in outs:
            out, seen = s.ghost['out'], self.src.seen(s)
            if k in ('normal', 'return'):
                ex.oblige(s, 'exit(exhausted): every value __next__ returned was handed out, once, in order, and __next__ has raised StopIteration',
                          z3.And(out == seen, self.src.done(s)))
            elif k == 'raise':
                own = z3.And(self.src.failed(s), p == s.ghost.get('src.error', p), out == seen)
                stopped = z3.And(V.isinst(p, 'GeneratorExit'), out == seen)
                ex.oblige(s, 'exit(raise): __next__\'s own error, unchanged, after everything before it was handed out -- or the consumer stopped',
                          z3.Or(own, stopped))


UNITS_IQ_EXTRA = [IQInit, IQInitStop, IQInitProcess, IQInitMpSimple, IQInitMpSimpleStop, IQState, IQPut, IQIter]

UNITS = UNITS_IQ_EXTRA + [NextUnit, PutEndUnit, RenewUnit, GetPutUnit, GetPutUnitNoTimeout, RQGet, RQPut, C17Lemma]
SCENARIOS = [('', 'replay/scenarios/c17_double_end_marker.py')]
