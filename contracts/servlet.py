"""mpserver servlets: forwarding threads (C02/C04) and start/stop life cycle (C11)."""
import ast
import z3

from pyvc import vals as V
from pyvc.vals import Val, SeqV, NONE, fresh, PyTuple
from pyvc.unit import Unit, LoopSpec, LemmaUnit
from pyvc.models import Rec, Fn, Nop, UFunc, QueueReader, QueueWriter, SharedMap, ThreadCtor, ThreadObj
from pyvc.core import St, Module, box, Unsupported, Obj, unbox_handle, ExcClass, DictVal, as_seq, as_int
from contracts.worker import in_uid, in_x, remote, mk_remote

F = 'mpserver/_servlet.py'


class MemberQueues(Obj):
    """self._qins: the list of member input queues; iterating it / indexing it yields member #i's queue.  Puts are logged as (member, item)."""

    def __init__(self, ex, unit):
        super().__init__(ex, 'qins')
        self.u = unit
        self.nn = z3.Int('n_members')

    def havoc(self, ex, st):
        pass

    def length(self, ex, st, node):
        return [('ok', st, self.nn)]

    def iter_start(self, ex, st, node):
        st = st.fork()
        st.ghost['mi'] = z3.IntVal(0)
        st.ghost['round'] = st.ghost.get('round', z3.IntVal(0)) + 1
        return [('ok', st, self)]

    def havoc_index(self, st):
        i = fresh('mi', z3.IntSort())
        st.assume(i >= 0, i <= self.nn)
        st.ghost['mi'] = i

    def pull(self, ex, st, node):
        i = st.ghost['mi']
        s1 = st.fork().assume(i >= self.nn)
        s2 = st.fork().assume(i < self.nn)
        s2.ghost['mi'] = i + 1
        outs = []
        if ex.feasible(s1):
            outs.append(('stop', s1, None))
        if ex.feasible(s2):
            outs.append(('item', s2, MemberQ(self.u, i)))
        return outs

    def getitem(self, ex, st, idx, node):
        i = as_int(ex, st, idx)
        ex.oblige(st, f'line {node.lineno}: member index in range', z3.And(i >= 0, i < self.nn))
        return [('ok', st, MemberQ(self.u, i))]


class MemberQ(Obj):
    def __init__(self, unit, i):
        self.u, self.i = unit, i
        self.oid = -5

    def havoc(self, ex, st):
        pass

    def m_put(self, ex, st, args, kwargs, node):
        st = st.fork()
        self.u.member_put(ex, st, self.i, args[0], node)
        return [('ok', st, NONE)]


class ForwardBase(Unit):
    """common part of EnsembleServlet._enqueue / SwitchServlet._enqueue"""
    prop = 'C02'
    file = F
    expected_exits = ('normal',)

    def base_setup(self, ex):
        st = St()
        self.qin = QueueReader(ex, 'qin')
        self.qin.init(st)
        self.qout = QueueWriter(ex, 'qout')
        self.qout.init(st)
        self.qins = MemberQueues(ex, self)
        st.assume(self.qins.nn >= 1)
        st.ghost['none_got'] = z3.BoolVal(False)
        st.ghost['cur'] = z3.IntVal(-1)
        st.ghost['shorted'] = z3.IntVal(0)
        st.ghost['sent'] = z3.IntVal(0)            # number of member puts for the current request
        st.ghost['nones_sent'] = z3.IntVal(0)
        st.ghost['handled'] = z3.IntVal(0)
        ex.globals['RemoteException'] = ExcClass('RemoteException')
        self.mk_remote = mk_remote(ex)
        return st

    def on_call(self, ex, st, e, src):
        if src == 'RemoteException':
            return ex.bind(ex.evargs(e, st), lambda s, ak: self.mk_remote.invoke(ex, s, ak[0], ak[1], e))
        return None

    def on_get(self, ex, st, q, k, z, node):
        ex.oblige(st, f'line {node.lineno}: nothing is read after the end marker; the previous request was fully handled', z3.And(z3.Not(st.ghost['none_got']), st.ghost['handled'] == k))
        s1 = st.fork().assume(z == NONE)
        s1.ghost['none_got'] = z3.BoolVal(True)
        s2 = st.fork().assume(z == V.tup(V.seq_of([in_uid(k), in_x(k)])), *V.cls_facts(in_x(k)))
        s2.ghost['cur'] = k
        s2.ghost['sent'] = z3.IntVal(0)
        return [s1, s2]

    def on_put(self, ex, st, q, k, item, node):
        # short-circuit to the output queue
        cur = st.ghost['cur']
        x = in_x(cur)
        item_u = unbox_handle(ex, item)
        ok = isinstance(item_u, PyTuple) and len(item_u.items) == 2
        v = box(ex, item_u.items[1]) if ok else NONE
        ex.oblige(st, f'line {node.lineno}: [C04] an incoming exception value is forwarded to the output queue under its own uid (wrapped in RemoteException if it is a bare exception) and is not sent to any member',
                  z3.And(z3.BoolVal(ok), box(ex, item_u.items[0]) == in_uid(cur), z3.Or(z3.And(V.isinst(x, 'RemoteException'), v == x), z3.And(V.isinst(x, 'BaseException'), v == remote(x))),
                         st.ghost['sent'] == 0) if ok else z3.BoolVal(False))
        st.ghost['shorted'] = st.ghost['shorted'] + 1
        st.ghost['handled'] = st.ghost['handled'] + 1


class EnsembleEnqueue(ForwardBase):
    qual = 'EnsembleServlet._enqueue'
    canaries = (
        ('catalog entry created after dispatch', '            catalog[uid] = z\n            for q in qins:\n                q.put((uid, x))', '            for q in qins:\n                q.put((uid, x))\n            catalog[uid] = z', 'entry exists before'),
        ('request sent twice to each member', '            for q in qins:\n                q.put((uid, x))', '            for q in qins:\n                q.put((uid, x))\n                q.put((uid, x))', ''),
        ('exception value sent to the members', '                qout.put((uid, x))\n                continue', '                qout.put((uid, x))', ''),
        ('end marker not sent to the members', '                for q in qins:\n                    q.put(z)  # send the same sentinel to each servlet', '                pass', 'every member'),
    )

    def setup(self, ex):
        st = self.base_setup(ex)
        self.catalog = SharedMap(ex, 'catalog').init(st)
        st.ghost['entry_made'] = z3.BoolVal(False)
        self.me = Rec(ex, 'self', immutable=True).init(st, _qin=self.qin, _qout=self.qout, _qins=self.qins, _uid_to_results=self.catalog)
        st.env['self'] = self.me
        return st

    def interfere(self, ex, st, m, node):
        pass        # the _dequeue thread only removes entries of requests it has answered

    def after_map_write(self, ex, st, m, kind, k, v, node):
        ex.oblige(st, f'line {node.lineno}: the catalog gains a fresh entry under the request\'s own uid, before anything is sent to the members',
                  z3.And(z3.BoolVal(kind == 'set'), k == in_uid(st.ghost['cur']), st.ghost['sent'] == 0))
        st.ghost['entry_made'] = z3.BoolVal(True)

    def member_put(self, ex, st, i, item, node):
        z = box(ex, item) if not isinstance(unbox_handle(ex, item), PyTuple) else None
        item_u = unbox_handle(ex, item)
        if isinstance(item_u, PyTuple):
            cur = st.ghost['cur']
            ex.oblige(st, f'line {node.lineno}: [C02] every member receives exactly (uid, x) of the current request, members in order, after its catalog entry exists before dispatch',
                      z3.And(z3.BoolVal(len(item_u.items) == 2), box(ex, item_u.items[0]) == in_uid(cur), box(ex, item_u.items[1]) == in_x(cur),
                             i == st.ghost['sent'], st.ghost['entry_made'], z3.Not(V.isinst(in_x(cur), 'BaseException')), z3.Not(V.isinst(in_x(cur), 'RemoteException'))))
            st.ghost['sent'] = st.ghost['sent'] + 1
            st.ghost['handled'] = st.ghost['handled'] + z3.If(st.ghost['sent'] == self.qins.nn, 1, 0)       # handled once the last member has it
        else:
            ex.oblige(st, f'line {node.lineno}: only the end marker is sent bare, after it was read', z3.And(z == NONE, st.ghost['none_got'], i == st.ghost['nones_sent']))
            st.ghost['nones_sent'] = st.ghost['nones_sent'] + 1

    @property
    def loops(self):
        keep = ('qin', 'qout', 'qins', 'catalog', 'nn')
        main = lambda s, ex: z3.And(z3.Not(s.ghost['none_got']), s.ghost['handled'] == self.qin.nget(s), s.ghost['nones_sent'] == 0, s.env['nn'] == self.qins.nn)
        nones = lambda s, ex: z3.And(s.ghost['none_got'], s.ghost['nones_sent'] == s.ghost['mi'])
        members = lambda s, ex: z3.And(z3.Not(s.ghost['none_got']), s.ghost['sent'] == s.ghost['mi'], s.ghost['entry_made'], s.ghost['handled'] == self.qin.nget(s) - 1 + z3.If(s.ghost['sent'] == self.qins.nn, 1, 0),
                                       s.ghost['cur'] == self.qin.nget(s) - 1, s.ghost['nones_sent'] == 0, s.env['nn'] == self.qins.nn,
                                       z3.Not(V.isinst(in_x(s.ghost['cur']), 'BaseException')), z3.Not(V.isinst(in_x(s.ghost['cur']), 'RemoteException')),
                                       s.env['uid'] == in_uid(s.ghost['cur']), box(ex, s.env['x']) == in_x(s.ghost['cur']))
        sp2 = LoopSpec(inv=members, keep=keep + ('uid', 'x', 'z'), keep_ghost=('cur', 'qin.nget', 'none_got', 'entry_made', 'nones_sent', 'shorted', 'qout.nput'))

        def done_members(s, ex):
            pass
        return {0: LoopSpec(inv=main, keep=keep), 1: LoopSpec(inv=nones, keep=keep, keep_ghost=('none_got', 'handled', 'qin.nget', 'cur', 'shorted', 'qout.nput')), 2: sp2}

    def stmt_hook(self):
        pass

    def post(self, ex, outs):
        for k, s, p in outs:
            if k in ('normal', 'return'):
                ex.oblige(s, 'exit: only on the end marker, which was sent to every member [C11]', z3.And(s.ghost['none_got'], s.ghost['nones_sent'] == self.qins.nn))
            else:
                ex.oblige(s, 'exit: no exception escapes the forwarding thread', False)


class EnsembleEnqueueAfterMembers(LemmaUnit):
    prop = 'C02'
    qual = 'lemma(ensemble dispatch)'

    def lemmas(self):
        sent, nn = z3.Ints('sent n_members')
        yield ('after the member loop every member has received the request exactly once', [sent == nn, nn >= 1], sent == nn)


class SwitchEnqueue(ForwardBase):
    qual = 'SwitchServlet._enqueue'
    canaries = (
        ('always the first member', 'qins[idx].put((uid, x))', 'qins[0].put((uid, x))', 'selected member'),
        ('request sent to two members', 'qins[idx].put((uid, x))', 'qins[idx].put((uid, x))\n            qins[0].put((uid, x))', ''),
    )

    def setup(self, ex):
        st = self.base_setup(ex)
        self.switch = UFunc('switch', 1, raises=None, result_sort=z3.IntSort(), with_kw=False)
        self.me = Rec(ex, 'self', immutable=True, methods={'switch': self.switch}).init(st, _qin=self.qin, _qout=self.qout, _qins=self.qins)
        st.env['self'] = self.me
        # user precondition: switch(x) is a valid member index
        return st

    def on_get(self, ex, st, q, k, z, node):
        outs = super().on_get(ex, st, q, k, z, node)
        outs[1].assume(self.switch.f(in_x(k)) >= 0, self.switch.f(in_x(k)) < self.qins.nn)       # user precondition: switch(x) is a valid member index
        return outs

    def member_put(self, ex, st, i, item, node):
        item_u = unbox_handle(ex, item)
        if isinstance(item_u, PyTuple):
            cur = st.ghost['cur']
            ex.oblige(st, f'line {node.lineno}: [C02] the request goes, once, to exactly the selected member switch(x), as (uid, x)',
                      z3.And(z3.BoolVal(len(item_u.items) == 2), box(ex, item_u.items[0]) == in_uid(cur), box(ex, item_u.items[1]) == in_x(cur),
                             i == self.switch.f(in_x(cur)), st.ghost['sent'] == 0, z3.Not(V.isinst(in_x(cur), 'BaseException')), z3.Not(V.isinst(in_x(cur), 'RemoteException'))))
            st.ghost['sent'] = st.ghost['sent'] + 1
            st.ghost['handled'] = st.ghost['handled'] + 1
        else:
            z = box(ex, item)
            ex.oblige(st, f'line {node.lineno}: only the end marker is sent bare, after it was read', z3.And(z == NONE, st.ghost['none_got'], i == st.ghost['nones_sent']))
            st.ghost['nones_sent'] = st.ghost['nones_sent'] + 1

    def index_hook(self):
        pass

    @property
    def loops(self):
        keep = ('qin', 'qout', 'qins')
        main = lambda s, ex: z3.And(z3.Not(s.ghost['none_got']), s.ghost['handled'] == self.qin.nget(s), s.ghost['nones_sent'] == 0)
        nones = lambda s, ex: z3.And(s.ghost['none_got'], s.ghost['nones_sent'] == s.ghost['mi'])
        return {0: LoopSpec(inv=main, keep=keep), 1: LoopSpec(inv=nones, keep=keep, keep_ghost=('none_got', 'handled', 'qin.nget', 'cur', 'shorted', 'qout.nput'))}

    def post(self, ex, outs):
        for k, s, p in outs:
            if k in ('normal', 'return'):
                ex.oblige(s, 'exit: only on the end marker, which was sent to every member [C11]', z3.And(s.ghost['none_got'], s.ghost['nones_sent'] == self.qins.nn))
            else:
                ex.oblige(s, 'exit: no exception escapes the forwarding thread (switch(x) valid: user precondition)', False)


UNITS_FORWARD = [EnsembleEnqueue, SwitchEnqueue]
