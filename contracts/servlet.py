"""mpserver servlets: forwarding threads (C02/C04) and start/stop life cycle (C11)."""
import ast
import z3

from pyvc import vals as V
from pyvc.vals import Val, SeqV, NONE, fresh, PyTuple
from pyvc.unit import Unit, LoopSpec, LemmaUnit
from pyvc.models import Rec, Fn, Nop, UFunc, QueueReader, QueueWriter, SharedMap, ThreadCtor, ThreadObj
from pyvc.core import St, Module, box, Unsupported, Obj, unbox_handle, ExcClass, DictVal, as_seq, as_int
from contracts.worker import in_uid, in_x, remote, mk_remote

F = 'mpserver/_servlet.py'


class MemberQueues(Obj):
    """self._qins: the list of member input queues; iterating it / indexing it yields member #i's queue.  Puts are logged as (member, item)."""

    def __init__(self, ex, unit):
        super().__init__(ex, 'qins')
        self.u = unit
        self.nn = z3.Int('n_members')

    def havoc(self, ex, st):
        pass

    def length(self, ex, st, node):
        return [('ok', st, self.nn)]

    def iter_start(self, ex, st, node):
        st = st.fork()
        st.ghost['mi'] = z3.IntVal(0)
        st.ghost['round'] = st.ghost.get('round', z3.IntVal(0)) + 1
        return [('ok', st, self)]

    def havoc_index(self, st):
        i = fresh('mi', z3.IntSort())
        st.assume(i >= 0, i <= self.nn)
        st.ghost['mi'] = i

    def pull(self, ex, st, node):
        i = st.ghost['mi']
        s1 = st.fork().assume(i >= self.nn)
        s2 = st.fork().assume(i < self.nn)
        s2.ghost['mi'] = i + 1
        outs = []
        if ex.feasible(s1):
            outs.append(('stop', s1, None))
        if ex.feasible(s2):
            outs.append(('item', s2, MemberQ(self.u, i)))
        return outs

    def getitem(self, ex, st, idx, node):
        i = as_int(ex, st, idx)
        ex.oblige(st, f'line {node.lineno}: member index in range', z3.And(i >= 0, i < self.nn))
        return [('ok', st, MemberQ(self.u, i))]


class MemberQ(Obj):
    def __init__(self, unit, i):
        self.u, self.i = unit, i
        self.oid = -5

    def havoc(self, ex, st):
        pass

    def m_put(self, ex, st, args, kwargs, node):
        st = st.fork()
        self.u.member_put(ex, st, self.i, args[0], node)
        return [('ok', st, NONE)]


class ForwardBase(Unit):
    """common part of EnsembleServlet._enqueue / SwitchServlet._enqueue"""
    prop = 'C02'
    file = F
    expected_exits = ('normal',)

    def base_setup(self, ex):
        st = St()
        self.qin = QueueReader(ex, 'qin')
        self.qin.init(st)
        self.qout = QueueWriter(ex, 'qout')
        self.qout.init(st)
        self.qins = MemberQueues(ex, self)
        st.assume(self.qins.nn >= 1)
        st.ghost['none_got'] = z3.BoolVal(False)
        st.ghost['cur'] = z3.IntVal(-1)
        st.ghost['shorted'] = z3.IntVal(0)
        st.ghost['sent'] = z3.IntVal(0)            # number of member puts for the current request
        st.ghost['nones_sent'] = z3.IntVal(0)
        st.ghost['handled'] = z3.IntVal(0)
        ex.globals['RemoteException'] = ExcClass('RemoteException')
        self.mk_remote = mk_remote(ex)
        return st

    def on_call(self, ex, st, e, src):
        if src == 'RemoteException':
            return ex.bind(ex.evargs(e, st), lambda s, ak: self.mk_remote.invoke(ex, s, ak[0], ak[1], e))
        return None

    def on_get(self, ex, st, q, k, z, node):
        ex.oblige(st, f'line {node.lineno}: nothing is read after the end marker; the previous request was fully handled', z3.And(z3.Not(st.ghost['none_got']), st.ghost['handled'] == k))
        s1 = st.fork().assume(z == NONE)
        s1.ghost['none_got'] = z3.BoolVal(True)
        s2 = st.fork().assume(z == V.tup(V.seq_of([in_uid(k), in_x(k)])), *V.cls_facts(in_x(k)))
        s2.ghost['cur'] = k
        s2.ghost['sent'] = z3.IntVal(0)
        return [s1, s2]

    def on_put(self, ex, st, q, k, item, node):
        # short-circuit to the output queue
        cur = st.ghost['cur']
        x = in_x(cur)
        item_u = unbox_handle(ex, item)
        ok = isinstance(item_u, PyTuple) and len(item_u.items) == 2
        v = box(ex, item_u.items[1]) if ok else NONE
        ex.oblige(st, f'line {node.lineno}: [C04] an incoming exception value is forwarded to the output queue under its own uid (wrapped in RemoteException if it is a bare exception) and is not sent to any member',
                  z3.And(z3.BoolVal(ok), box(ex, item_u.items[0]) == in_uid(cur), z3.Or(z3.And(V.isinst(x, 'RemoteException'), v == x), z3.And(V.isinst(x, 'BaseException'), v == remote(x))),
                         st.ghost['sent'] == 0) if ok else z3.BoolVal(False))
        st.ghost['shorted'] = st.ghost['shorted'] + 1
        st.ghost['handled'] = st.ghost['handled'] + 1


class EnsembleEnqueue(ForwardBase):
    qual = 'EnsembleServlet._enqueue'
    canaries = (
        ('catalog entry created after dispatch', '            catalog[uid] = z\n            for q in qins:\n                q.put((uid, x))', '            for q in qins:\n                q.put((uid, x))\n            catalog[uid] = z', 'entry exists before'),
        ('request sent twice to each member', '            for q in qins:\n                q.put((uid, x))', '            for q in qins:\n                q.put((uid, x))\n                q.put((uid, x))', ''),
        ('exception value sent to the members', '                qout.put((uid, x))\n                continue', '                qout.put((uid, x))', ''),
        ('end marker not sent to the members', '                for q in qins:\n                    q.put(z)  # send the same sentinel to each servlet', '                pass', 'every member'),
    )

    def setup(self, ex):
        st = self.base_setup(ex)
        self.catalog = SharedMap(ex, 'catalog').init(st)
        st.ghost['entry_made'] = z3.BoolVal(False)
        self.me = Rec(ex, 'self', immutable=True).init(st, _qin=self.qin, _qout=self.qout, _qins=self.qins, _uid_to_results=self.catalog)
        st.env['self'] = self.me
        return st

    def interfere(self, ex, st, m, node):
        pass        # the _dequeue thread only removes entries of requests it has answered

    def after_map_write(self, ex, st, m, kind, k, v, node):
        ex.oblige(st, f'line {node.lineno}: the catalog gains a fresh entry under the request\'s own uid, before anything is sent to the members',
                  z3.And(z3.BoolVal(kind == 'set'), k == in_uid(st.ghost['cur']), st.ghost['sent'] == 0))
        st.ghost['entry_made'] = z3.BoolVal(True)

    def member_put(self, ex, st, i, item, node):
        z = box(ex, item) if not isinstance(unbox_handle(ex, item), PyTuple) else None
        item_u = unbox_handle(ex, item)
        if isinstance(item_u, PyTuple):
            cur = st.ghost['cur']
            ex.oblige(st, f'line {node.lineno}: [C02] every member receives exactly (uid, x) of the current request, members in order, after its catalog entry exists before dispatch',
                      z3.And(z3.BoolVal(len(item_u.items) == 2), box(ex, item_u.items[0]) == in_uid(cur), box(ex, item_u.items[1]) == in_x(cur),
                             i == st.ghost['sent'], st.ghost['entry_made'], z3.Not(V.isinst(in_x(cur), 'BaseException')), z3.Not(V.isinst(in_x(cur), 'RemoteException'))))
            st.ghost['sent'] = st.ghost['sent'] + 1
            st.ghost['handled'] = st.ghost['handled'] + z3.If(st.ghost['sent'] == self.qins.nn, 1, 0)       # handled once the last member has it
        else:
            ex.oblige(st, f'line {node.lineno}: only the end marker is sent bare, after it was read', z3.And(z == NONE, st.ghost['none_got'], i == st.ghost['nones_sent']))
            st.ghost['nones_sent'] = st.ghost['nones_sent'] + 1

    @property
    def loops(self):
        keep = ('qin', 'qout', 'qins', 'catalog', 'nn')
        main = lambda s, ex: z3.And(z3.Not(s.ghost['none_got']), s.ghost['handled'] == self.qin.nget(s), s.ghost['nones_sent'] == 0, s.env['nn'] == self.qins.nn)
        nones = lambda s, ex: z3.And(s.ghost['none_got'], s.ghost['nones_sent'] == s.ghost['mi'])
        members = lambda s, ex: z3.And(z3.Not(s.ghost['none_got']), s.ghost['sent'] == s.ghost['mi'], s.ghost['entry_made'], s.ghost['handled'] == self.qin.nget(s) - 1 + z3.If(s.ghost['sent'] == self.qins.nn, 1, 0),
                                       s.ghost['cur'] == self.qin.nget(s) - 1, s.ghost['nones_sent'] == 0, s.env['nn'] == self.qins.nn,
                                       z3.Not(V.isinst(in_x(s.ghost['cur']), 'BaseException')), z3.Not(V.isinst(in_x(s.ghost['cur']), 'RemoteException')),
                                       s.env['uid'] == in_uid(s.ghost['cur']), box(ex, s.env['x']) == in_x(s.ghost['cur']))
        sp2 = LoopSpec(inv=members, keep=keep + ('uid', 'x', 'z'), keep_ghost=('cur', 'qin.nget', 'none_got', 'entry_made', 'nones_sent', 'shorted', 'qout.nput'))

        def done_members(s, ex):
            pass
        return {0: LoopSpec(inv=main, keep=keep), 1: LoopSpec(inv=nones, keep=keep, keep_ghost=('none_got', 'handled', 'qin.nget', 'cur', 'shorted', 'qout.nput')), 2: sp2}

    def stmt_hook(self):
        pass

    def post(self, ex, outs):
        for k, s, p in outs:
            if k in ('normal', 'return'):
                ex.oblige(s, 'exit: only on the end marker, which was sent to every member [C11]', z3.And(s.ghost['none_got'], s.ghost['nones_sent'] == self.qins.nn))
            else:
                ex.oblige(s, 'exit: no exception escapes the forwarding thread', False)


class EnsembleEnqueueAfterMembers(LemmaUnit):
    prop = 'C02'
    qual = 'lemma(ensemble dispatch)'

    def lemmas(self):
        sent, nn = z3.Ints('sent n_members')
        yield ('after the member loop every member has received the request exactly once', [sent == nn, nn >= 1], sent == nn)


class SwitchEnqueue(ForwardBase):
    qual = 'SwitchServlet._enqueue'
    canaries = (
        ('always the first member', 'qins[idx].put((uid, x))', 'qins[0].put((uid, x))', 'selected member'),
        ('request sent to two members', 'qins[idx].put((uid, x))', 'qins[idx].put((uid, x))\n            qins[0].put((uid, x))', ''),
    )

    def setup(self, ex):
        st = self.base_setup(ex)
        self.switch = UFunc('switch', 1, raises=None, result_sort=z3.IntSort(), with_kw=False)
        self.me = Rec(ex, 'self', immutable=True, methods={'switch': self.switch}).init(st, _qin=self.qin, _qout=self.qout, _qins=self.qins)
        st.env['self'] = self.me
        # user precondition: switch(x) is a valid member index
        return st

    def on_get(self, ex, st, q, k, z, node):
        outs = super().on_get(ex, st, q, k, z, node)
        outs[1].assume(self.switch.f(in_x(k)) >= 0, self.switch.f(in_x(k)) < self.qins.nn)       # user precondition: switch(x) is a valid member index
        return outs

    def member_put(self, ex, st, i, item, node):
        item_u = unbox_handle(ex, item)
        if isinstance(item_u, PyTuple):
            cur = st.ghost['cur']
            ex.oblige(st, f'line {node.lineno}: [C02] the request goes, once, to exactly the selected member switch(x), as (uid, x)',
                      z3.And(z3.BoolVal(len(item_u.items) == 2), box(ex, item_u.items[0]) == in_uid(cur), box(ex, item_u.items[1]) == in_x(cur),
                             i == self.switch.f(in_x(cur)), st.ghost['sent'] == 0, z3.Not(V.isinst(in_x(cur), 'BaseException')), z3.Not(V.isinst(in_x(cur), 'RemoteException'))))
            st.ghost['sent'] = st.ghost['sent'] + 1
            st.ghost['handled'] = st.ghost['handled'] + 1
        else:
            z = box(ex, item)
            ex.oblige(st, f'line {node.lineno}: only the end marker is sent bare, after it was read', z3.And(z == NONE, st.ghost['none_got'], i == st.ghost['nones_sent']))
            st.ghost['nones_sent'] = st.ghost['nones_sent'] + 1

    def index_hook(self):
        pass

    @property
    def loops(self):
        keep = ('qin', 'qout', 'qins')
        main = lambda s, ex: z3.And(z3.Not(s.ghost['none_got']), s.ghost['handled'] == self.qin.nget(s), s.ghost['nones_sent'] == 0)
        nones = lambda s, ex: z3.And(s.ghost['none_got'], s.ghost['nones_sent'] == s.ghost['mi'])
        return {0: LoopSpec(inv=main, keep=keep), 1: LoopSpec(inv=nones, keep=keep, keep_ghost=('none_got', 'handled', 'qin.nget', 'cur', 'shorted', 'qout.nput'))}

    def post(self, ex, outs):
        for k, s, p in outs:
            if k in ('normal', 'return'):
                ex.oblige(s, 'exit: only on the end marker, which was sent to every member [C11]', z3.And(s.ghost['none_got'], s.ghost['nones_sent'] == self.qins.nn))
            else:
                ex.oblige(s, 'exit: no exception escapes the forwarding thread (switch(x) valid: user precondition)', False)



# ================================================================ EnsembleServlet._dequeue (C02 pairing, C04 failure rules)
m_uid = z3.Function('member_out_uid', z3.IntSort(), z3.IntSort(), Val)        # uid of the k-th item member i puts on its output queue
m_y = z3.Function('member_out_y', z3.IntSort(), z3.IntSort(), Val)            # ... and its value (result or exception value)
ensemble_error = z3.Function('EnsembleError', z3.ArraySort(z3.IntSort(), Val), z3.IntSort(), Val)     # EnsembleError({'y': slots, 'n': n})
all_remote = z3.Function('all_slots_are_RemoteException', z3.ArraySort(z3.IntSort(), Val), z3.BoolSort())
not_remote_witness = z3.Function('slot_that_is_not_RemoteException', z3.ArraySort(z3.IntSort(), Val), z3.IntSort())
as_list = z3.Function('list_of_slots', z3.ArraySort(z3.IntSort(), Val), z3.IntSort(), Val)             # the python list z['y'] (nn slots)
IntArr = z3.ArraySort(z3.IntSort(), Val)


class Catalog(Obj):
    """self._uid_to_results: uid -> {'y': [slot]*nn, 'n': count}.  Abstract state: present(uid), n(uid), slots(uid) : Int -> Val.
    Entries are created by the forwarding thread (_enqueue: n = 0, all slots None) at any time: interference re-draws the state of
    every uid except that the entry of the uid in hand is only changed by THIS thread (single dequeuer)."""
    trusted = 'dict/list element operations are atomic (GIL)'

    def init(self, st):
        self.set(st, 'present', z3.Const('catalog_present', z3.ArraySort(Val, z3.BoolSort())))
        self.set(st, 'n', z3.Const('catalog_n', z3.ArraySort(Val, z3.IntSort())))
        self.set(st, 'slots', z3.Const('catalog_slots', z3.ArraySort(Val, IntArr)))
        return self

    def havoc(self, ex, st):
        for f, srt in (('present', z3.ArraySort(Val, z3.BoolSort())), ('n', z3.ArraySort(Val, z3.IntSort())), ('slots', z3.ArraySort(Val, IntArr))):
            self.set(st, f, fresh('catalog_' + f, srt))

    def m_get(self, ex, st, args, kwargs, node):
        uid = box(ex, args[0])
        n0 = z3.Select(self.get(st, 'n'), uid)
        # catalog invariant (established by _enqueue: n = 0; preserved by the obligation at the back edge of _dequeue's item loop): a present entry still waits for answers
        s1 = st.fork().assume(z3.Select(self.get(st, 'present'), uid), n0 >= 0, n0 < ex.unit.nn)
        s1.ghost['n_at_get'] = n0
        s2 = st.fork().assume(z3.Not(z3.Select(self.get(st, 'present'), uid)))
        return [x for x in (('ok', s1, Entry(ex, self, uid)), ('ok', s2, NONE)) if ex.feasible(x[1])]

    def m_pop(self, ex, st, args, kwargs, node):
        uid = box(ex, args[0])
        ex.oblige(st, f'line {node.lineno}: the entry being removed exists', z3.Select(self.get(st, 'present'), uid))
        st = st.fork()
        self.set(st, 'present', z3.Store(self.get(st, 'present'), uid, z3.BoolVal(False)))
        st.ghost['popped'] = st.ghost['popped'] + (uid,)
        return [('ok', st, Entry(ex, self, uid))]


class Entry(Obj):
    """the dict z = catalog[uid] (shared, mutable): reads and writes go to the catalog's abstract state for that uid"""

    def __init__(self, ex, cat, uid):
        super().__init__(ex, 'entry')
        self.cat, self.uid = cat, uid

    def havoc(self, ex, st):
        pass

    def val(self):
        return z3.Function('entry_of', Val, Val)(self.uid)

    def getitem(self, ex, st, idx, node):
        if z3.is_string_value(idx) and idx.as_string() == 'n':
            return [('ok', st, z3.Select(self.cat.get(st, 'n'), self.uid))]
        if z3.is_string_value(idx) and idx.as_string() == 'y':
            return [('ok', st, Slots(ex, self.cat, self.uid))]
        raise Unsupported('entry key')

    def setitem(self, ex, st, idx, v, node):
        if z3.is_string_value(idx) and idx.as_string() == 'n':
            st = st.fork()
            self.cat.set(st, 'n', z3.Store(self.cat.get(st, 'n'), self.uid, as_int(ex, st, v)))
            return [('ok', st, None)]
        raise Unsupported('entry store')


class Slots(Obj):
    def __init__(self, ex, cat, uid):
        super().__init__(ex, 'slots')
        self.cat, self.uid = cat, uid

    def havoc(self, ex, st):
        pass

    def arr(self, st):
        return z3.Select(self.cat.get(st, 'slots'), self.uid)

    def val_in(self, st, nn):
        return as_list(self.arr(st), nn)

    def setitem(self, ex, st, idx, v, node):
        i = as_int(ex, st, idx)
        st = st.fork()
        ex.unit.slot_written(ex, st, self.uid, i, box(ex, v), node)
        self.cat.set(st, 'slots', z3.Store(self.cat.get(st, 'slots'), self.uid, z3.Store(self.arr(st), i, box(ex, v))))
        return [('ok', st, None)]


class MemberOut(Obj):
    """output queue of member #i as seen by the single dequeuer: the k-th get returns (m_uid(i,k), m_y(i,k)) or the end marker"""

    def __init__(self, ex, unit, i):
        super().__init__(ex, 'member_out')
        self.u, self.i = unit, i

    def havoc(self, ex, st):
        pass

    def m_empty(self, ex, st, args, kwargs, node):
        return [('ok', st, fresh('member_out_empty', z3.BoolSort()))]

    def m_get(self, ex, st, args, kwargs, node):
        k = fresh('k_th_item', z3.IntSort())
        st = st.fork().assume(k >= 0)
        s1 = st.fork()
        s1.ghost['cur'] = (self.i, k)
        s1.assume(*V.cls_facts(m_y(self.i, k)), *V.cls_facts(m_uid(self.i, k)))
        s2 = st.fork()
        s2.ghost['cur'] = None
        return [('ok', s1, PyTuple([m_uid(self.i, k), m_y(self.i, k)])), ('ok', s2, NONE)]


class EnsembleDequeue(Unit):
    """EnsembleServlet._dequeue.  Proved per item taken from member #idx's output queue (uid, y), for every state of the catalog:
      * (pairing, C02) the value goes into slot idx of the entry of ITS OWN uid, wrapped in RemoteException if it is a bare exception;
        the count of that entry goes up by one; no other entry, no other slot is touched;
      * (C04, fail_fast) the first exception value for a uid removes its entry and answers that uid -- once -- with
        RemoteException(EnsembleError(entry)); later results for the uid find no entry and are dropped;
      * (C04, complete) when the count reaches the number of members the entry is removed and the uid answered -- once -- with the list of the
        nn slots, or with RemoteException(EnsembleError(entry)) exactly when every slot is a RemoteException;
      * anything put on the output queue is the end marker or an answer for the uid just received; the end marker is forwarded and ends the loop."""
    prop = 'C02'
    file = F
    qual = 'EnsembleServlet._dequeue'
    fail_fast = None
    ignore_calls = ('sleep',)
    expected_exits = ('normal',)
    canaries = (('result stored in the neighbouring slot', "z['y'][idx] = y", "z['y'][idx - 1] = y", 'own slot'),
                ('entry not removed when answered', "                    elif z['n'] == nn:\n                        # All results", "                    elif z['n'] >= 1:\n                        # All results", ''),
                ('partial failure reported as total failure', "if all(isinstance(v, RemoteException) for v in z['y']):", "if isinstance(y, RemoteException):", ''),
                ('answer under another uid', 'qout.put((uid, y))', 'qout.put((idx, y))', 'own uid'),
                ('failed members not counted: the request is never answered', "                    z['n'] += 1", "                    if not isinstance(y, RemoteException):\n                        z['n'] += 1", 'raises its count'),
                ('complete entry kept', "                    elif z['n'] == nn:\n                        # All results", "                    elif z['n'] == nn + 1:\n                        # All results", 'stays in the catalog only while'))

    def setup(self, ex):
        st = St()
        from contracts.c11 import Family
        self.nn = z3.Int('n_members')
        st.assume(self.nn >= 1)
        self.cat = Catalog(ex, 'catalog').init(st)
        self.qout = QueueWriter(ex, 'qout')
        self.qout.init(st)
        self.ff = z3.Bool('fail_fast')
        self.qouts = Family(ex, 'qouts', self.nn, lambda i: MemberOut(ex, self, i))
        me = Rec(ex, 'self', immutable=True).init(st, _qout=self.qout, _qouts=self.qouts, _uid_to_results=self.cat, _fail_fast=self.ff)
        st.env['self'] = me
        st.ghost['cur'] = None
        st.ghost['popped'] = ()
        st.ghost['puts'] = ()
        st.ghost['slot_writes'] = ()
        st.ghost['n_at_get'] = None
        st.ghost['ctor_exc'] = None
        ex.globals['RemoteException'] = ExcClass('RemoteException')
        self.mk_remote = mk_remote(ex)
        return st

    def on_call(self, ex, st, e, src):
        if src == 'RemoteException':
            return ex.bind(ex.evargs(e, st), lambda s, ak: self.mk_remote.invoke(ex, s, ak[0], ak[1], e))
        if src == 'EnsembleError':
            def f(s, ak):
                z = unbox_handle(ex, ak[0][0])
                if not isinstance(z, Entry):
                    raise Unsupported('EnsembleError of a non-entry')
                exc = ensemble_error(z3.Select(self.cat.get(s, 'slots'), z.uid), z3.Select(self.cat.get(s, 'n'), z.uid))
                s = s.fork().assume(V.ucls(exc) == V.K['EnsembleError'], *V.cls_facts(exc))
                # building the message calls repr() on the first failed member -- user code (an exception class with a raising __repr__): the constructor itself may
                # fail with any Exception; the request must still be answered (with that failure), and the collecting thread must survive
                bad = fresh('ensemble_error_ctor_failure')
                s2 = s.fork().assume(V.isinst(bad, 'Exception'), z3.Not(V.isinst(bad, 'EnsembleError')), *V.cls_facts(bad))
                s2.ghost['ctor_exc'] = bad
                return [('ok', s, exc), ('raise', s2, bad)]
            return ex.bind(ex.evargs(e, st), f)
        if src == 'all' and len(e.args) == 1 and isinstance(e.args[0], ast.GeneratorExp):
            g = e.args[0]
            if ast.unparse(g) == "(isinstance(v, RemoteException) for v in z['y'])":
                def f(s, ys):
                    ys = unbox_handle(ex, ys)
                    if not isinstance(ys, Slots):
                        raise Unsupported('all() over something else')
                    a = ys.arr(s)
                    j = z3.Int('any_slot')
                    w = not_remote_witness(a)
                    s = s.fork().assume(z3.Implies(all_remote(a), z3.Implies(z3.And(j >= 0, j < self.nn), V.isinst(z3.Select(a, j), 'RemoteException'))),
                                        z3.Implies(z3.Not(all_remote(a)), z3.And(w >= 0, w < self.nn, z3.Not(V.isinst(z3.Select(a, w), 'RemoteException')))))
                    return [('ok', s, all_remote(a))]
                return ex.bind(ex.ev(g.generators[0].iter, st), f)
        return None

    def slot_written(self, ex, st, uid, i, v, node):
        cur = st.ghost['cur']
        if cur is None:
            ex.oblige(st, f'line {node.lineno}: slot written without an item in hand', False)
            return
        mi, k = cur
        y = m_y(mi, k)
        ex.oblige(st, f'line {node.lineno}: [C02] the value from member #idx goes into its own slot idx of the entry of its own uid, wrapped in RemoteException if it is a bare exception (own slot, own uid)',
                  z3.And(uid == m_uid(mi, k), i == mi, v == z3.If(z3.And(V.isinst(y, 'BaseException'), z3.Not(V.isinst(y, 'RemoteException'))), remote(y), y)))
        st.ghost['slot_writes'] = st.ghost['slot_writes'] + ((uid, i),)

    def on_put(self, ex, st, q, k, item, node):
        cur = st.ghost['cur']
        item_u = unbox_handle(ex, item)
        if cur is None:
            ex.oblige(st, f'line {node.lineno}: the end marker is forwarded as is', box(ex, item) == NONE)
            st.ghost['puts'] = st.ghost['puts'] + ('end',)
            return
        mi, kk = cur
        uid = m_uid(mi, kk)
        ok = isinstance(item_u, PyTuple) and len(item_u.items) == 2
        if not ok:
            ex.oblige(st, f'line {node.lineno}: an answer is a (uid, value) pair', False)
            return
        slots = z3.Select(self.cat.get(st, 'slots'), uid)
        n = z3.Select(self.cat.get(st, 'n'), uid)
        raw = unbox_handle(ex, item_u.items[1])
        v = raw.val_in(st, self.nn) if isinstance(raw, Slots) and raw.uid.eq(uid) else box(ex, item_u.items[1])      # the list object z['y'] itself: its value now
        err = remote(ensemble_error(slots, n))
        this = z3.Select(slots, mi)
        failed_fast = z3.And(self.ff, V.isinst(this, 'RemoteException'))
        if st.ghost.get('ctor_exc') is not None:
            err = remote(st.ghost['ctor_exc'])           # the error object could not be built: the request is answered with that failure instead
        want = z3.If(failed_fast, err, z3.If(all_remote(slots), err, box(ex, Slots(ex, self.cat, uid).val_in(st, self.nn))))
        ex.oblige(st, f'line {node.lineno}: [C02/C04] the answer goes out under the uid just received (own uid), after its entry was removed (so: once), and is: with fail_fast, at the first exception value, '
                      'RemoteException(EnsembleError(entry)); otherwise, when all members have answered, the list of the nn slots -- or RemoteException(EnsembleError(entry)) exactly when every slot is a RemoteException',
                  z3.And(box(ex, item_u.items[0]) == uid, z3.Not(z3.Select(self.cat.get(st, 'present'), uid)), z3.BoolVal(st.ghost['popped'] == (uid,) or (len(st.ghost['popped']) == 1 and st.ghost['popped'][0].eq(uid))),
                         z3.Or(failed_fast, n == self.nn), v == want))
        st.ghost['puts'] = st.ghost['puts'] + ('answer',)

    @property
    def loops(self):
        def head_inner(h, ex):
            h.ghost['cur'] = None
            h.ghost['popped'] = ()
            h.ghost['puts'] = ()
            h.ghost['slot_writes'] = ()
            h.ghost['n_at_get'] = None
            h.ghost['ctor_exc'] = None

        def back_inner(s, ex):
            cur = s.ghost['cur']
            if cur is None:
                ex.oblige(s, 'iteration: an end marker never lets the loop go on', False)
                return
            mi, k = cur
            uid = m_uid(mi, k)
            puts, sw, popped = s.ghost['puts'], s.ghost['slot_writes'], s.ghost['popped']
            ex.oblige(s, 'iteration: one item taken -> at most one slot write (own slot), at most one answer, and an answer only together with the removal of the entry',
                      z3.BoolVal(len(sw) <= 1 and len(puts) <= 1 and len(popped) == len(puts) and (len(puts) == 0 or len(sw) == 1)))
            if len(sw) == 1 and s.ghost.get('n_at_get') is not None:
                n_now, present_now = z3.Select(self.cat.get(s, 'n'), uid), z3.Select(self.cat.get(s, 'present'), uid)
                this = z3.Select(z3.Select(self.cat.get(s, 'slots'), uid), mi)
                ex.oblige(s, 'iteration: [C04/C06] every answer stored in a live entry -- a failure included -- raises its count by exactly one', n_now == s.ghost['n_at_get'] + 1)
                ex.oblige(s, 'iteration: [C04/C06] the entry stays in the catalog only while answers are outstanding (count < #members) and, with fail_fast, the stored value is not a failure: '
                             'otherwise the request has been answered (so every request is answered once its last member has answered)',
                          z3.Implies(present_now, z3.And(n_now < self.nn, z3.Not(z3.And(self.ff, V.isinst(this, 'RemoteException'))))))
        t = LoopSpec(inv=lambda s, ex: z3.BoolVal(True))
        sp_for = LoopSpec(inv=lambda s, ex: z3.BoolVal(True))
        sp_in = LoopSpec(inv=lambda s, ex: z3.BoolVal(True), at_head=head_inner)
        sp_in.on_backedge = back_inner
        return {0: t, 1: sp_for, 2: sp_in}

    def post(self, ex, outs):
        for k, s, p in outs:
            if k in ('normal', 'return'):
                ex.oblige(s, 'exit: only after the end marker of a member was taken, and forwarded once', z3.BoolVal(s.ghost['cur'] is None and s.ghost['puts'] == ('end',)))
            else:
                ex.oblige(s, 'exit: the collecting thread never dies with an exception', False)


class EnsembleDequeueLemma(LemmaUnit):
    """Counting lemma over the per-item contract: entries start with n = 0 and nn empty slots (unit EnsembleServlet._enqueue); each member answers
    each uid at most once (C02 worker contracts), so the writes to an entry hit distinct slots and n == number of filled slots; hence when
    n == nn every slot holds its member's value: the answer list pairs member i's result with position i."""
    prop = 'C02'
    qual = 'lemma(ensemble collection)'

    def lemmas(self):
        n, nn, filled = z3.Ints('n nn filled_slots')
        new_slot_empty = z3.Bool('slot_idx_was_empty')
        yield ('step: a write to a so-far empty slot keeps n == #filled', [n == filled, new_slot_empty], n + 1 == filled + 1)
        yield ('n == nn and n == #filled slots among nn  ==>  no slot is empty', [n == filled, filled <= nn, n == nn], filled == nn)


UNITS_DEQUEUE = [EnsembleDequeue, EnsembleDequeueLemma]

UNITS_FORWARD = [EnsembleEnqueue, SwitchEnqueue]
