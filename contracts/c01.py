"""C01 — parallel map is order-preserving and exactly-once."""
from contracts.singlelane import UNITS as SL_UNITS, ASSUMPTIONS as SL_ASSUMPTIONS
from contracts.fifo import FeedUnit, FeedUnitNoPre, ConsumerUnit, ConsumerUnitNoPre

UNITS = list(SL_UNITS) + [FeedUnit, FeedUnitNoPre, ConsumerUnit, ConsumerUnitNoPre]
ASSUMPTIONS = tuple(SL_ASSUMPTIONS)

# ================================================================ Parmapper and the executors
import z3
from pyvc import vals as V
from pyvc.vals import Val, SeqV, NONE, fresh
from pyvc.unit import Unit, LoopSpec, LemmaUnit
from pyvc.models import UFunc, Rec, Fn, Nop, fut_ok, fut_val, fut_exc
from pyvc.core import St, Module, box, Unsupported, KwPack, StarPack, NOKW, Closure, Obj, unbox_handle, ClassCtor

FS = 'streamer/_streamer.py'
FC = 'concurrent/futures/__init__.py'

std_submit = z3.Function('Executor_submit', Val, Val, Val, Val)     # stdlib Executor.submit(fn, *args, **kwargs) -> future
loud = z3.Function('loud_wrapper', Val, Val)

TRUSTED = (
    'concurrent.futures.Executor.submit(fn, *args, **kwargs) returns a future whose outcome is the outcome of fn(*args, **kwargs); an executor built with max_workers=n runs at most n calls at a time; `with executor` shuts it down (waits for running calls)',
    'values cross the process boundary by pickling unchanged (C15 for exceptions)',
)


class LoudFunction(Unit):
    """_loud_*_function(fn, *args, **kwargs) has exactly the outcome of fn(*args, **kwargs) (it only prints)."""
    prop = 'C01'
    file = FC
    qual = '_loud_thread_function'
    ignore_calls = ('traceback.print_exception',)
    canaries = (('exception swallowed by the loud wrapper', '        raise', '        return None', 'same outcome'),)

    def setup(self, ex):
        st = St()
        self.fn = UFunc('fn', 1, raises='BaseException')
        self.args, self.kw = StarPack(z3.Const('args', Val)), KwPack(z3.Const('kwargs', Val))
        st.env.update(fn=self.fn, args=self.args, kwargs=self.kw)
        ex.globals['sys'] = Module('sys')
        ex.globals['traceback'] = Module('traceback')
        ex.globals['multiprocessing'] = Module('multiprocessing')
        ex.globals['threading'] = Module('threading')
        return st

    def post(self, ex, outs):
        r, ok, e = self.fn.f(self.args.val, self.kw.val), self.fn.ok(self.args.val, self.kw.val), self.fn.exc(self.args.val, self.kw.val)
        for k, s, p in outs:
            if k in ('normal', 'return'):
                ex.oblige(s, 'exit(return): same outcome as fn(*args, **kwargs): its return value', z3.And(ok, box(ex, p) == r))
            else:
                ex.oblige(s, 'exit(raise): same outcome as fn(*args, **kwargs): its exception', z3.And(z3.Not(ok), p == e))


class LoudProcessFunction(LoudFunction):
    qual = '_loud_process_function'
    canaries = ()


class SubmitUnit(Unit):
    prop = 'C01'
    file = FC
    qual = 'ThreadPoolExecutor.submit'
    loud_name = '_loud_thread_function'
    canaries = (('submits fn twice', 'return super().submit(fn, *args, **kwargs)', 'super().submit(fn, *args, **kwargs)\n        return super().submit(fn, *args, **kwargs)', 'exactly once'),
                ('kwargs dropped', 'return super().submit(fn, *args, **kwargs)', 'return super().submit(fn, *args)', 'same function and arguments'))

    def setup(self, ex):
        st = St()
        self.fn = z3.Const('fn', Val)
        self.args, self.kw = StarPack(z3.Const('args', Val)), KwPack(z3.Const('kwargs', Val))
        # the stdlib executor's own state, should the wrapper look at it: arbitrary
        me = Rec(ex, 'self').init(st, _shutdown=z3.Bool('executor_shutdown'), _broken=z3.Const('executor_broken', Val), _threads=z3.Const('executor_threads', Val),
                                  _processes=z3.Const('executor_processes', Val), _max_workers=z3.Int('executor_max_workers'))
        st.env.update(self=me, fn=self.fn, args=self.args, kwargs=self.kw, loud_exception=z3.Bool('loud_exception'))
        self.loudf = z3.Const('the_loud_function', Val)
        ex.globals[self.loud_name] = self.loudf
        st.ghost['nsubmit'] = z3.IntVal(0)
        return st

    def on_call(self, ex, st, e, src):
        if src == 'super().submit':
            def f(s, ak):
                a, k = ak
                s = s.fork()
                s.ghost['nsubmit'] = s.ghost['nsubmit'] + 1
                pack = k.get('**')
                # the stdlib submit ENQUEUES the work item and then tries to grow the pool: it may raise RuntimeError (shut down; "can't start new thread") -- in the
                # second case AFTER the item was enqueued.  So a raise does not mean "nothing was submitted".
                boom = fresh('submit_runtime_error')
                s_bad = s.fork().assume(V.isinst(boom, 'RuntimeError'), *V.cls_facts(boom))
                s_bad.ghost['submit_exc'] = boom
                bad = [('raise', s_bad, boom)]
                head = getattr(a[1], 'head', None) if len(a) == 2 and isinstance(a[1], StarPack) else None
                if head and len(head) >= 1 and isinstance(pack, KwPack) and len(k) == 1 and box(ex, a[0]).eq(self.loudf) and len(head) == 1:
                    # submit(_loud, *(fn, *args), **kwargs): the same call as submit(_loud, fn, *args, **kwargs)
                    return [('ok', s, std_submit(loud(box(ex, head[0])), a[1].tail.val, pack.val))] + bad
                if len(a) == 2 and isinstance(a[1], StarPack) and isinstance(pack, KwPack) and len(k) == 1:
                    return [('ok', s, std_submit(box(ex, a[0]), a[1].val, pack.val))] + bad
                if len(a) == 3 and isinstance(a[2], StarPack) and isinstance(pack, KwPack) and len(k) == 1 and box(ex, a[0]).eq(self.loudf):
                    # submit(_loud, fn, *args, **kwargs): by the _loud_* contract this has the outcome of fn(*args, **kwargs)
                    return [('ok', s, std_submit(loud(box(ex, a[1])), a[2].val, pack.val))] + bad
                s.ghost['bad_submit'] = True
                return [('ok', s, fresh('bad_future'))]
            return ex.bind(ex.evargs(e, st), f)
        return None

    def post(self, ex, outs):
        for k, s, p in outs:
            if k in ('normal', 'return'):
                want = z3.If(s.env['loud_exception'], std_submit(loud(self.fn), self.args.val, self.kw.val), std_submit(self.fn, self.args.val, self.kw.val))
                ex.oblige(s, 'exit: the work is handed to the stdlib executor exactly once', s.ghost['nsubmit'] == 1)
                ex.oblige(s, 'exit: with the same function and arguments (wrapped in the loud function iff loud_exception), and that future is returned',
                          z3.And(z3.BoolVal(not s.ghost.get('bad_submit', False)), box(ex, p) == want))
            else:
                ex.oblige(s, 'exit(raise): only what the stdlib submit itself raised -- and the work was handed over ONCE (the stdlib may have enqueued it before failing to start a thread: '
                             'submitting again would run the call twice)', z3.And(s.ghost['nsubmit'] == 1, p == s.ghost.get('submit_exc', NONE)))


class SubmitUnitProcess(SubmitUnit):
    qual = 'ProcessPoolExecutor.submit'
    loud_name = '_loud_process_function'
    canaries = ()


def executor_method(cls_name, meth):
    class U(Unit):
        """The executor wrappers inherit everything but submit from the stdlib executors, and Parmapper.__iter__ relies on the inherited contract
        "leaving `with executor` shuts it down and WAITS for the calls that are running" (that is what keeps at most `concurrency` invocations alive
        when a stream is abandoned and iterated again, and what C05 'no helper thread left' rests on).  Frame: the method is inherited (then the stdlib
        contract applies, trusted) -- or, if the wrapper overrides it, the override is checked against that contract on every path."""
        prop = 'C08'
        file = FC
        qual = f'{cls_name}.{meth}'

        def run(self, override=None):
            import ast, hashlib
            from pyvc.unit import load_source, find_function
            from pyvc.core import Obligation
            try:
                self.load(override)
            except KeyError:
                res = {'unit': self.name, 'status': 'ok', 'obligations': [], 'covers': {}, 'ignored': [], 'sha': None, 'error': None, 'paths': 0, 'lineno': None, 'unreached': []}
                try:
                    cls = find_function(ast.parse(load_source(self.file, override)), cls_name)
                except KeyError as e:
                    res['status'], res['error'] = 'undecided', f'cannot extract {self.file}::{cls_name}: {e!r}'
                    return res
                bases = [ast.unparse(b) for b in cls.bases]
                res['sha'] = hashlib.sha256(('inherited:' + ','.join(bases)).encode()).hexdigest()
                res['lineno'] = cls.lineno
                ob = Obligation(f'{self.qual}: not overridden: inherited from concurrent.futures.{cls_name} (whose `with` exit / shutdown waits for the running calls: trusted stdlib contract)',
                                [], z3.BoolVal(bases == [f'concurrent.futures.{cls_name}']), [], 'assert')
                ob.unit = self.name
                res['obligations'].append(ob)
                return res
            return super().run(override)

        def setup(self, ex):
            st = St()
            st.ghost['waited'] = z3.BoolVal(False)
            st.ghost['nowait'] = z3.BoolVal(False)

            def shutdown(e, s, a, k, n):
                w = k.get('wait', a[0] if a else z3.BoolVal(True))
                s = s.fork()
                w = w if z3.is_bool(w) else e.truthy(s, w)
                s.ghost['waited'] = z3.Or(s.ghost['waited'], w)
                return [('ok', s, NONE)]
            self.sd = Fn(shutdown)
            me = Rec(ex, 'self', methods={} if meth == 'shutdown' else {'shutdown': self.sd})
            st.env['self'] = me
            if meth == '__exit__':
                for nm in ('exc_type', 'exc_val', 'exc_tb'):
                    st.env[nm] = z3.Const(nm, Val)
            else:
                st.env['wait'] = z3.Bool('wait')
                st.env['cancel_futures'] = z3.Bool('cancel_futures')
            return st

        def on_call(self, ex, st, e, src):
            if src == 'super().__exit__':
                def f(s, ak):
                    s = s.fork()
                    s.ghost['waited'] = z3.BoolVal(True)
                    return [('ok', s, z3.BoolVal(False))]
                return ex.bind(ex.evargs(e, st), f)
            if src == 'super().shutdown':
                return ex.bind(ex.evargs(e, st), lambda s, ak: self.sd.invoke(ex, s, ak[0], ak[1], e))
            return None

        def post(self, ex, outs):
            for k, s, p in outs:
                if meth == '__exit__':
                    ex.oblige(s, 'exit: [C08/C05] leaving the `with` block -- normally or by an exception (abandoned iteration, failed element) -- shuts the pool down and WAITS for the calls that are running', s.ghost['waited'])
                else:
                    ex.oblige(s, 'exit: [C08/C05] shutdown(wait=True) waits for the calls that are running', z3.Implies(s.env['wait'], s.ghost['waited']))
    U.__name__ = f'ExecutorMethod_{cls_name}_{meth}'
    return U


EXECUTOR_FRAME = [executor_method(c, m) for c in ('ThreadPoolExecutor', 'ProcessPoolExecutor') for m in ('__exit__', 'shutdown')]



class WorkUnit(Unit):
    """Parmapper.__iter__.<locals>._work(x, **kwargs) == executor.submit(self._func, x, loud_exception=False, **kwargs)."""
    prop = 'C01'
    file = FS
    qual = 'Parmapper.__iter__.<locals>._work'
    canaries = (('kwargs dropped', 'executor.submit(self._func, x, loud_exception=False, **kwargs)', 'executor.submit(self._func, x, loud_exception=False)', 'submits'),
                ('another element submitted', 'executor.submit(self._func, x, loud_exception=False, **kwargs)', 'executor.submit(self._func, self._func, loud_exception=False, **kwargs)', 'submits'))

    def setup(self, ex):
        st = St()
        self.x, self.func = z3.Const('x', Val), z3.Const('the_func', Val)
        self.kw = KwPack(z3.Const('kwargs', Val))
        st.env.update(x=self.x, kwargs=self.kw)
        st.cells['self'] = Rec(ex, 'self', immutable=True).init(st, _func=self.func)

        def submit(e, s, a, k, n):
            s = s.fork()
            k = dict(k)
            pack = k.pop('**', None)
            le = k.pop('loud_exception', None)
            s.ghost['submitted'] = s.ghost.get('submitted', ()) + ((tuple(box(e, v) for v in a), le, pack.val if isinstance(pack, KwPack) else NOKW, tuple(k)),)
            return [('ok', s, fresh('fut'))]
        st.cells['executor'] = Rec(ex, 'executor', methods={'submit': Fn(submit)})
        return st

    def post(self, ex, outs):
        for k, s, p in outs:
            if k in ('normal', 'return'):
                sub = s.ghost.get('submitted', ())
                ok = len(sub) == 1 and len(sub[0][0]) == 2 and sub[0][1] is not None and not sub[0][3]
                ex.oblige(s, 'exit: submits func(x, **kwargs) exactly once (loud_exception=False) and returns that future',
                          z3.And(z3.BoolVal(ok), sub[0][0][0] == self.func, sub[0][0][1] == self.x, z3.Not(sub[0][1]), sub[0][2] == self.kw.val)
                          if ok else z3.BoolVal(False))
            else:
                ex.oblige(s, 'exit: never raises', False)


class ExecCM(Obj):
    """An executor as context manager."""

    def __init__(self, ex, kind, nworkers):
        super().__init__(ex, 'executor')
        self.kind, self.nworkers = kind, nworkers

    def init(self, st):
        self.set(st, 'open', z3.BoolVal(False))
        self.set(st, 'shut', z3.BoolVal(False))
        return self

    def havoc(self, ex, st):
        pass

    def cm_enter(self, ex, st, node):
        st = st.fork()
        self.set(st, 'open', z3.BoolVal(True))
        return [('ok', st, self)]

    def cm_exit(self, ex, st, node, outcome):
        st = st.fork()
        self.set(st, 'shut', z3.BoolVal(True))
        return [('ok', st, False)]

    def m_shutdown(self, ex, st, args, kwargs, node):
        # shutdown(wait=True) returns after the running calls have finished; wait=False leaves them running
        wait = kwargs.get('wait', args[0] if args else z3.BoolVal(True))
        st = st.fork()
        self.set(st, 'shut', z3.Or(self.get(st, 'shut'), ex.truth(st, wait)))
        return [('ok', st, NONE)]


class FifoGen(Obj):
    def __init__(self, ex, args, kwargs):
        super().__init__(ex, 'fifo_stream(...)')
        self.args, self.kwargs = args, kwargs

    def havoc(self, ex, st):
        pass

    def yield_from(self, ex, st, node):
        # everything fifo_stream yields is yielded; it may end normally, raise, or the consumer may close it (its own contract: unit fifo_stream)
        st = st.fork()
        st.ghost['delegated'] = st.ghost.get('delegated', 0) + 1
        outs = [('ok', st, NONE)]
        s2 = st.fork()
        e = fresh('fifo_exc')
        s2.assume(V.isinst(e, 'BaseException'), *V.cls_facts(e))
        outs.append(('raise', s2, e))
        return outs


class ParmapperIter(Unit):
    prop = 'C01'
    file = FS
    qual = 'Parmapper.__iter__'
    executor_type = 'thread'
    assumed_contracts = ('fifo_stream(...): units C01:fifo_stream[*]', '_work: unit C01:Parmapper.__iter__.<locals>._work')
    canaries = (
        ('pool larger than concurrency', 'executor = ThreadPoolExecutor(\n                self._concurrency,', 'executor = ThreadPoolExecutor(\n                self._concurrency * 2,', 'max_workers'),
        ('return_x / return_exceptions swapped', 'return_x=self._return_x,\n                return_exceptions=self._return_exceptions,', 'return_x=self._return_exceptions,\n                return_exceptions=self._return_x,', 'passes its own'),
        ('executor not shut down', '        with executor:\n', '        if True:\n', 'shut down'),
    )

    def __init__(self):
        self.variant = self.executor_type
        super().__init__()

    def setup(self, ex):
        st = St()
        self.F = {k: z3.Const('self_' + k, Val) for k in ('_instream', '_func', '_preprocessor', '_executor_initializer', '_executor_init_args')}
        self.conc, self.cap = z3.Int('concurrency'), z3.Int('fifo_capacity')
        self.rx, self.rexc = z3.Bool('return_x'), z3.Bool('return_exceptions')
        self.kw = KwPack(z3.Const('func_kwargs', Val))
        self.me = Rec(ex, 'self', immutable=True).init(st, _executor_type=z3.StringVal(self.executor_type), _concurrency=self.conc, _fifo_capacity=self.cap,
                                                       _return_x=self.rx, _return_exceptions=self.rexc, _func_kwargs=self.kw, _name=z3.String('name'), **self.F)
        st.env['self'] = self.me
        self.execs = []

        def mk(kind):
            def f(e, s, a, k, n):
                x = ExecCM(e, kind, a[0] if a else k.get('max_workers'))
                s = s.fork()
                x.init(s)
                x.kwargs = k
                self.execs.append(x)
                return [('ok', s, x)]
            return Fn(f, name=kind)
        ex.globals['ThreadPoolExecutor'] = mk('thread')
        ex.globals['ProcessPoolExecutor'] = mk('process')

        def fifo(e, s, a, k, n):
            g = FifoGen(e, a, k)
            self.fifo = g
            return [('ok', s, g)]
        ex.globals['fifo_stream'] = Fn(fifo, name='fifo_stream')
        return st

    def post(self, ex, outs):
        for k, s, p in outs:
            conds = [z3.BoolVal(len(self.execs) == 1 and self.execs[0].kind == self.executor_type)]
            if len(self.execs) == 1:
                x = self.execs[0]
                ex.oblige(s, f'exit({k}): [C08] exactly one executor of the requested kind, built with max_workers == concurrency',
                          z3.And(conds[0], box(ex, x.nworkers) == V.intv(self.conc) if x.nworkers is not None else z3.BoolVal(False)))
                ex.oblige(s, f'exit({k}): the executor is shut down, waiting for its running calls, on every exit path [C05, C08]', x.get(s, 'shut'))
            g = getattr(self, 'fifo', None)
            ok = g is not None and len(g.args) == 2 and isinstance(unbox_handle(ex, g.args[1]), Closure) and unbox_handle(ex, g.args[1]).node.name == '_work'
            kw = dict(g.kwargs) if g is not None else {}
            ok = ok and set(kw) == {'name', 'capacity', 'return_x', 'return_exceptions', 'preprocessor', '**'}
            ex.oblige(s, f'exit({k}): delegates once to fifo_stream(self._instream, _work, ...) and passes its own capacity / flags / preprocessor / kwargs',
                      z3.And(z3.BoolVal(bool(ok)), s.ghost.get('delegated', 0) == 1, box(ex, g.args[0]) == self.F['_instream'],
                             box(ex, kw['capacity']) == V.intv(self.cap), kw['return_x'] == self.rx, kw['return_exceptions'] == self.rexc,
                             box(ex, kw['preprocessor']) == self.F['_preprocessor'], z3.BoolVal(kw['**'] is self.kw)) if ok else z3.BoolVal(False))


class ParmapperIterProcess(ParmapperIter):
    executor_type = 'process'
    canaries = ()


class ParmapperInit(Unit):
    prop = 'C01'
    file = FS
    qual = 'Parmapper.__init__'
    assert_mode = 'assume'
    canaries = (('capacity not tied to concurrency', 'self._concurrency * 2', '1000000', 'twice the concurrency'),)

    def setup(self, ex):
        st = St()
        self.me = Rec(ex, 'self')
        st.env['self'] = self.me
        self.P = {k: z3.Const('p_' + k, Val) for k in ('instream', 'func', 'preprocessor', 'executor_initializer', 'parmapper_name')}
        self.conc = z3.Int('p_concurrency')
        st.assume(self.conc >= 1)
        self.rx, self.rexc = z3.Bool('p_return_x'), z3.Bool('p_return_exceptions')
        self.kw = KwPack(z3.Const('p_kwargs', Val))
        from pyvc.vals import PyTuple
        st.env.update(self.P)
        st.env.update(executor=z3.String('p_executor'), concurrency=self.conc, return_x=self.rx, return_exceptions=self.rexc,
                      executor_init_args=PyTuple([]), kwargs=self.kw)
        st.assume(z3.Or(st.env['executor'] == z3.StringVal('thread'), st.env['executor'] == z3.StringVal('process')))
        ex.globals['_NUM_THREADS'] = z3.Int('_NUM_THREADS')
        ex.globals['_NUM_PROCESSES'] = z3.Int('_NUM_PROCESSES')
        return st

    def post(self, ex, outs):
        for k, s, p in outs:
            if k in ('normal', 'return'):
                g = lambda f: self.me.get(s, f)
                ex.oblige(s, 'exit: stores its arguments; [C08] fifo capacity is twice the concurrency',
                          z3.And(box(ex, g('_instream')) == self.P['instream'], box(ex, g('_func')) == self.P['func'], box(ex, g('_concurrency')) == box(ex, self.conc),
                                 box(ex, g('_fifo_capacity')) == box(ex, 2 * self.conc), g('_return_x') == self.rx, g('_return_exceptions') == self.rexc,
                                 box(ex, g('_preprocessor')) == self.P['preprocessor'], z3.BoolVal(g('_func_kwargs') is self.kw),
                                 g('_executor_type') == s.env['executor'],
                                 box(ex, g('_executor_initializer')) == self.P['executor_initializer'] if self.me.has(s, '_executor_initializer') else z3.BoolVal(False),
                                 z3.BoolVal(self.me.has(s, '_executor_init_args') and self.me.has(s, '_name')), box(ex, g('_name')) == self.P['parmapper_name'] if self.me.has(s, '_name') else z3.BoolVal(False)))


class ParmapperInitDefault(ParmapperInit):
    variant = 'default-concurrency'
    canaries = ()

    def setup(self, ex):
        st = super().setup(ex)
        st.env['concurrency'] = NONE
        st.assume(ex.globals['_NUM_THREADS'] >= 1, ex.globals['_NUM_PROCESSES'] >= 1)
        self.conc = z3.If(st.env['executor'] == z3.StringVal('thread'), ex.globals['_NUM_THREADS'], ex.globals['_NUM_PROCESSES'])
        return st


class C01Lemma(LemmaUnit):
    """Top-level lemma: feeder guarantee + FIFO + consumer contract + executor contract => output #i is omap(x_i, F(x_i))."""
    prop = 'C01'
    qual = 'lemma(C01)'

    def lemmas(self):
        from contracts.fifo import src_at
        i = z3.Int('i')
        x = src_at(i)
        func = z3.Const('worker', Val)
        call_ok = z3.Function('call_ok', Val, Val, z3.BoolSort())
        call_val = z3.Function('call_val', Val, Val, Val)
        call_exc = z3.Function('call_exc', Val, Val, Val)
        f = z3.Const('future_i', Val)
        out = z3.Const('output_i', Val)
        rx, rexc = z3.Bools('return_x return_exceptions')
        omap = lambda a, y: z3.If(rx, V.tup(V.seq_of([a, y])), y)
        # component contracts (each proved above / trusted executor): the future enqueued for element i is the executor's future for
        # worker(x_i); its outcome is the outcome of that call; the consumer's output #i is omap(x_i, outcome)
        hyps = [fut_ok(f) == call_ok(func, x), z3.Implies(fut_ok(f), fut_val(f) == call_val(func, x)), z3.Implies(z3.Not(fut_ok(f)), fut_exc(f) == call_exc(func, x)),
                z3.Or(z3.And(fut_ok(f), out == omap(x, fut_val(f))), z3.And(z3.Not(fut_ok(f)), rexc, out == omap(x, fut_exc(f))))]
        yield ('output #i == omap(x_i, worker(x_i)) (result, or its exception object under return_exceptions), whatever the completion order (no timing occurs in the formula)',
               hyps, z3.Or(z3.And(call_ok(func, x), out == omap(x, call_val(func, x))), z3.And(z3.Not(call_ok(func, x)), rexc, out == omap(x, call_exc(func, x)))))


UNITS += [LoudFunction, LoudProcessFunction, SubmitUnit, SubmitUnitProcess] + EXECUTOR_FRAME + [WorkUnit, ParmapperInit, ParmapperInitDefault, ParmapperIter, ParmapperIterProcess, C01Lemma]
NOT_DECIDED = ('that fut.result() returns (worker termination)', 'ProcessPoolExecutor.__init__ default mp context (does not affect the property)',
               'ParmapperAsync.__iter__ (async worker in a helper thread) delegates to the same fifo_stream; its helper-thread lifecycle is C05')
