"""C10 — tee forks see identical streams and cannot wedge each other.

One step of one fork (Fork.__next__) is verified under interference by its peers.
Shared abstract state (indices instead of TeeX objects): `pulled` = number of source elements linked into the chain
(box i carries src_at(i), box i links to box i+1 iff i+1 < pulled), `ended` (the source is exhausted or failed; `pulled`
is then final), `head_exc` (the source's exception or None), the window counters.  Rely (checked as the guarantee of the
same code acting as a peer): `pulled` and `ended` only grow, links never change, and while THIS fork holds instream_lock
nobody else pulls or links (both happen only under the lock -- obligation at every pull and link site).
Fork-local invariant J: the cursor is None or the index of the next box to return, which equals the number of elements
this fork has returned so far."""
import ast
import z3

from pyvc import vals as V
from pyvc.vals import Val, SeqV, NONE, fresh
from pyvc.unit import Unit, LoopSpec, LemmaUnit
from pyvc.models import Rec, Fn, Nop, Lock, Source
from pyvc.core import St, Module, box, Unsupported, Obj, unbox_handle, ExcClass, BoundMethod, SymMethod
from contracts.fifo import src_at

F = 'streamer/_tee.py'

ASSUMPTIONS = (
    'attribute reads/writes on TeeX / SimpleNamespace objects are single atomic actions (GIL)',
    'the source iterator keeps raising StopIteration once exhausted; it is only ever touched through Fork.__next__',
    'fairness: every fork keeps being consumed (hypothesis of the property); box.lock critical sections are short',
    'S2 meta-theorem: no unbounded lock acquisition + window space freed without the source lock => no wedge',
)
NOT_DECIDED = ('termination of the self-recursive call (partial correctness)', 'the numeric window bound buffer_size+2 (only the structural put-per-link / get-per-last-consumer discipline is proved)')


class TeeState:
    """helpers over the shared ghost state"""

    @staticmethod
    def init(st, n_forks):
        st.ghost['pulled'] = z3.Int('pulled0')
        st.ghost['ended'] = z3.Bool('ended0')
        st.ghost['head_exc'] = z3.Const('head_exc0', Val)
        st.ghost['nseen'] = st.ghost['pulled']              # elements taken from the source (== pulled unless a peer is between pull and link under the lock)
        st.assume(st.ghost['pulled'] >= 0, z3.Implies(z3.Not(V.is_none(st.ghost['head_exc'])), st.ghost['ended']))
        st.assume(z3.Or(V.is_none(st.ghost['head_exc']), V.isinst(st.ghost['head_exc'], 'Exception')), *V.cls_facts(st.ghost['head_exc']))


class ForkNext(Unit):
    prop = 'C10'
    file = F
    qual = 'Fork.__next__'
    expected_exits = ('normal', 'raise')
    numeric_vals_are_ints = True
    canaries = (
        ('the last fork does not pop the window when the element is falsy', '                if box.n == self.n_forks:', '                if box.n == self.n_forks and box.value:', 'popped exactly once'),
        ('pinned-tree defect (i) shape: lock released only on the normal path', '                    finally:\n                        self.instream_lock.release()\n                self.next = self.head.value',
         '                    finally:\n                        pass\n                    self.instream_lock.release()\n                self.next = self.head.value', 'lock is released'),
        ('pinned-tree defect (ii): unconditional lock on the first-element path', '                    if not self.instream_lock.acquire(timeout=0.1):\n                        continue', '                    self.instream_lock.acquire()', 'timed'),
        ('pinned-tree defect (iii): the source\'s exception is not remembered', '                            except Exception as e:\n                                # `instream` has failed. Remember the exception:', '                            except KeyError as e:\n                                # `instream` has failed. Remember the exception:', ''),
        ('publish before link', '                                self.next.next = box  # IMPORTANT: this line goes before the next to avoid race.\n                                self.buffer.put(box)', '                                self.buffer.put(box)\n                                self.next.next = box', 'linked before'),
        ('window popped by the first instead of the last consumer', 'if box.n == self.n_forks:', 'if box.n == 1:', 'last fork'),
        ('pull without re-checking under the lock', 'if self.next.next is None and self.head.exc is None:', 'if self.head.exc is None:', 'at the tip'),
        ('element skipped', '            self.next = box.next\n', '            self.next = box.next\n            if self.next is not None and self.next.next is not None:\n                self.next = self.next.next\n', ''),
    )

    # ------------------------------------------------------------ setup
    def setup(self, ex):
        st = St()
        self.n_forks = z3.Int('n_forks')
        st.assume(self.n_forks >= 2)
        # the copy module, should the code copy what it hands out: a copy is ANOTHER object, and copying an exception re-runs its class's constructor on its args
        # (type(exc)(*exc.args)) -- which a user's exception class may refuse
        def do_copy(e, s, a, k, n):
            new = fresh('copied_object')
            boom = fresh('copy_failure')
            s2 = s.fork().assume(V.isinst(boom, 'Exception'), *V.cls_facts(boom))
            s1 = s.fork().assume(V.ucls(new) == V.ucls(box(e, a[0])), *V.cls_facts(new))
            return [('ok', s1, new), ('raise', s2, boom)]
        ex.globals['copy'] = Module('copy')
        ex.globals['copy.copy'] = Fn(do_copy, trusted='copy.copy / deepcopy give a new object or raise what the class\'s reconstruction raises')
        ex.globals['copy.deepcopy'] = ex.globals['copy.copy']
        TeeState.init(st, self.n_forks)
        self.lock = Lock(ex, 'instream_lock').init(st)
        self.boxlock = Lock(ex, 'box.lock').init(st)
        self.consumed0 = z3.Int('consumed0')
        self.cursor0 = z3.Const('cursor0', Val)
        self.state0 = z3.Int('state0')
        st.ghost['consumed'] = self.consumed0
        st.ghost['links'] = z3.IntVal(0)            # links made by this call
        st.ghost['puts'] = z3.IntVal(0)
        st.ghost['gets'] = z3.IntVal(0)
        st.ghost['pulls_here'] = z3.IntVal(0)
        st.ghost['src_failed_here'] = z3.BoolVal(False)
        st.ghost['src_exhausted_seen'] = z3.BoolVal(False)
        outer = self

        class SrcModel(Obj):
            """next(self.instream): only under the lock, only at the tip"""

            def havoc(self_, ex2, st2):
                pass

            def pull(self_, ex2, st2, node):
                ex2.oblige(st2, f'line {node.lineno}: the source is pulled only while holding instream_lock', outer.lock.held(st2) >= 1)
                ex2.oblige(st2, f'line {node.lineno}: the source is pulled only at the tip of the chain (re-checked under the lock) and only if it has not ended with an error: once per element',
                           z3.And(st2.ghost['at_tip_checked'], V.is_none(st2.ghost['head_exc'])))
                outs = []
                k = st2.ghost['pulled']
                s1 = st2.fork().assume(z3.Not(st2.ghost['ended']))
                x = fresh('x')
                s1.assume(x == src_at(k))
                s1.ghost['pulls_here'] = s1.ghost['pulls_here'] + 1
                s1.ghost['pending_x'] = x
                outs.append(('item', s1, x))
                s2 = st2.fork()                                     # exhausted (now, or already before)
                s2.ghost['ended'] = z3.BoolVal(True)
                s2.ghost['src_exhausted_seen'] = z3.BoolVal(True)
                s2.assume(V.is_none(s2.ghost['head_exc']))
                outs.append(('stop', s2, None))
                s3 = st2.fork().assume(z3.Not(st2.ghost['ended']))
                e = fresh('src_error')
                s3.assume(V.isinst(e, 'Exception'), z3.Not(V.isinst(e, 'StopIteration')), *V.cls_facts(e))
                s3.ghost['ended'] = z3.BoolVal(True)
                s3.ghost['src_failed_here'] = z3.BoolVal(True)
                s3.ghost['src_error'] = e
                outs.append(('raise', s3, e))
                return outs
        self.src = SrcModel(ex, 'instream')

        class Head(Obj):
            def havoc(self_, ex2, st2):
                pass

            def getattr(self_, ex2, st2, name, node):
                st2 = st2.fork()
                outer.interfere(ex2, st2)
                if name == 'value':
                    held = z3.simplify(outer.lock.held(st2))
                    if z3.is_int_value(held) and held.as_long() >= 1:
                        st2.ghost['at_tip_checked'] = st2.ghost['pulled'] == 0      # re-check under the lock: still no first element
                    return [('ok', st2, z3.If(st2.ghost['pulled'] >= 1, V.intv(z3.IntVal(0)), NONE))]
                if name == 'exc':
                    return [('ok', st2, st2.ghost['head_exc'])]
                raise Unsupported(f'head.{name}')

            def setattr(self_, ex2, st2, name, v, node):
                st2 = st2.fork()
                if name == 'exc':
                    ex2.oblige(st2, f'line {node.lineno}: the source\'s exception is remembered under the lock, and it is the exception the source just raised',
                               z3.And(outer.lock.held(st2) >= 1, st2.ghost['src_failed_here'], box(ex2, v) == st2.ghost.get('src_error', NONE)))
                    st2.ghost['head_exc'] = box(ex2, v)
                    return [('ok', st2, None)]
                if name == 'value':
                    return outer.link(ex2, st2, V.intv(z3.IntVal(-1)), v, node)
                raise Unsupported(f'head.{name} =')
        self.head = Head(ex, 'head')

        class Buffer(Obj):
            def havoc(self_, ex2, st2):
                pass

            def m_put(self_, ex2, st2, args, kwargs, node):
                st2 = st2.fork()
                st2.ghost['puts'] = st2.ghost['puts'] + 1
                st2.ghost['put_box'] = box(ex2, args[0])
                st2.ghost['put_after_link'] = st2.ghost['links'] >= st2.ghost['puts']
                st2.ghost['#blocking'] = st2.ghost.get('#blocking', ()) + ((node.lineno, 'put window', tuple(outer.lock.locks_held_labels(ex2, st2))),)
                return [('ok', st2, NONE)]

            def m_get(self_, ex2, st2, args, kwargs, node):
                st2 = st2.fork()
                ex2.oblige(st2, f'line {node.lineno}: the window is popped only by the last fork to consume the element, under the element\'s lock',
                           z3.And(outer.boxlock.held(st2) >= 1, st2.ghost.get('n_after', z3.IntVal(-1)) == outer.n_forks))
                st2.ghost['gets'] = st2.ghost['gets'] + 1
                return [('ok', st2, NONE)]
        self.buffer = Buffer(ex, 'buffer')
        self.me = Rec(ex, 'self').init(st, instream=self.src, n_forks=self.n_forks, buffer=self.buffer, head=self.head,
                                        instream_lock=self.lock, next=self.cursor0, _state=self.state0)
        self.me.methods['__next__'] = Fn(self.recursive_call, name='Fork.__next__ (own contract)')
        self.me.havoc = lambda ex2, st2: None          # only this thread writes the fork's own fields (outside the loops)
        st.env['self'] = self.me
        st.ghost['at_tip_checked'] = z3.BoolVal(False)
        st.assume(self.J(st))
        ex.globals['TeeX'] = Fn(self.new_box, name='TeeX')
        ex.sym_models['self.next'] = self
        ex.sym_models['box'] = self
        return st

    # fork-local invariant
    def J(self, s, cursor=None, consumed=None, state=None):
        c = cursor if cursor is not None else box(None, self.me.get(s, 'next'))
        n = consumed if consumed is not None else s.ghost['consumed']
        stt = state if state is not None else self.me.get(s, '_state')
        pulled = s.ghost['pulled']
        return z3.And(n >= 0, n <= pulled, z3.Or(stt == 0, stt == 1), z3.Implies(stt == 0, n == 0),
                      z3.Or(V.is_none(c), z3.And(V.is_intv(c), V.ival(c) == n, n < pulled)),
                      z3.Implies(z3.And(V.is_none(c), stt == 1), z3.And(n == pulled, s.ghost['ended'])))

    # ---- rely: what the peer forks may have done since this fork last looked at the shared state
    def interfere(self, ex, st):
        held = z3.simplify(self.lock.held(st))
        if z3.is_int_value(held) and held.as_long() >= 1:
            return          # pulling/linking/remembering the error happen only under the lock: nothing changes
        p1 = fresh('pulled', z3.IntSort())
        e1 = fresh('ended', z3.BoolSort())
        h1 = fresh('head_exc')
        st.assume(p1 >= st.ghost['pulled'], z3.Implies(st.ghost['ended'], z3.And(e1, p1 == st.ghost['pulled'])),
                  z3.Implies(z3.Not(V.is_none(st.ghost['head_exc'])), h1 == st.ghost['head_exc']),
                  z3.Implies(z3.Not(V.is_none(h1)), e1), z3.Or(V.is_none(h1), V.isinst(h1, 'Exception')), *V.cls_facts(h1))
        st.ghost['pulled'], st.ghost['ended'], st.ghost['head_exc'] = p1, e1, h1
        st.ghost['at_tip_checked'] = z3.BoolVal(False)

    def on_acquire(self, ex, st, lock, node):
        if lock is self.lock:
            # the lock was free: whatever peers did before is now visible; from here on the tip is stable
            held = self.lock.held(st)
            self.lock.set(st, 'held', z3.IntVal(0))
            self.interfere(ex, st)
            self.lock.set(st, 'held', held)

    # ---- box objects by index
    def new_box(self, ex, st, args, kwargs, node):
        st = st.fork()
        ex.oblige(st, f'line {node.lineno}: a box is created for the element just pulled', box(ex, args[0]) == st.ghost.get('pending_x', NONE))
        return [('ok', st, V.intv(st.ghost['pulled']))]

    def link(self, ex, st, at, v, node):
        """box[at].next = v   (at == -1: head.value = v)"""
        pulled = st.ghost['pulled']
        ex.oblige(st, f'line {node.lineno}: a new element is linked only under instream_lock, at the tip of the chain, and it is the box of the element just pulled',
                  z3.And(self.lock.held(st) >= 1, V.is_intv(at), V.ival(at) == pulled - 1, box(ex, v) == V.intv(pulled), st.ghost['pulls_here'] == st.ghost['links'] + 1))
        st.ghost['pulled'] = pulled + 1
        st.ghost['links'] = st.ghost['links'] + 1
        if at.eq(V.intv(z3.IntVal(-1))):
            ex.oblige(st, f'line {node.lineno}: the first element is put into the window before it is published as head', st.ghost['puts'] == st.ghost['links'])
        return [('ok', st, None)]

    def getattr(self, ex, st, base, attr, node):
        # attribute of a box (base == intv(i))
        i = V.ival(base)
        if attr == 'next':
            st = st.fork()
            self.interfere(ex, st)
            held = z3.simplify(self.lock.held(st))
            if z3.is_int_value(held) and held.as_long() >= 1:
                # reading `cursor.next` under the lock: this is the re-check "still at the tip"
                st.ghost['at_tip_checked'] = i == st.ghost['pulled'] - 1
            return [('ok', st, z3.If(i + 1 < st.ghost['pulled'], V.intv(i + 1), NONE))]
        if attr == 'value':
            return [('ok', st, src_at(i))]
        if attr == 'lock':
            return [('ok', st, self.boxlock)]
        if attr == 'n':
            if 'n_read' not in st.ghost:
                st = st.fork()
                c = fresh('box_n', z3.IntSort())
                st.assume(c >= 0, c < self.n_forks)          # each fork increments a box once; this fork has not yet
                st.ghost['n_read'] = c
                st.ghost['n_after'] = c
            return [('ok', st, st.ghost['n_after'])]
        raise Unsupported(f'box.{attr}')

    def setattr(self, ex, st, base, attr, v, node):
        st = st.fork()
        if attr == 'next':
            return self.link(ex, st, base, v, node)
        if attr == 'n':
            ex.oblige(st, f'line {node.lineno}: the consumption count is updated under the element\'s lock, by exactly one', z3.And(self.boxlock.held(st) >= 1, v == st.ghost['n_read'] + 1))
            st.ghost['n_after'] = v
            return [('ok', st, None)]
        if attr == 'value':
            # the payload of a published element is read by every fork WITHOUT a lock (after its own count): it must never change (guarantee of
            # every fork = rely of `box.value == src_at(i)` above)
            ex.oblige(st, f'line {node.lineno}: the payload of a published element is never written (peers read it without the lock: a fork that is not the last one may still be about to return it)', False)
            return [('ok', st, None)]
        raise Unsupported(f'box.{attr} =')

    # ---- the recursive call `return self.__next__()` by the function's own contract
    def recursive_call(self, ex, st, args, kwargs, node):
        ex.oblige(st, f'line {node.lineno}: recursive call: the fork-local invariant holds and no lock is held', z3.And(self.J(st), self.lock.held(st) == 0))
        ex.oblige(st, f'line {node.lineno}: recursive call is made with a cursor (so it takes the consuming branch: progress)', z3.Not(V.is_none(box(ex, self.me.get(st, 'next')))))
        outs = []
        n = st.ghost['consumed']
        s1 = st.fork()
        self.interfere(ex, s1)
        s1.ghost['consumed'] = n + 1
        c1 = fresh('cursor')
        s1.assume(z3.Or(V.is_none(c1), z3.And(V.is_intv(c1), V.ival(c1) == n + 1, n + 1 < s1.ghost['pulled'])),
                  z3.Implies(V.is_none(c1), z3.And(n + 1 == s1.ghost['pulled'], s1.ghost['ended'])), n + 1 <= s1.ghost['pulled'])
        self.me.set(s1, 'next', c1)
        self.me.set(s1, '_state', z3.IntVal(1))
        s1.ghost['via_recursion'] = True
        outs.append(('ok', s1, src_at(n)))
        return outs

    @property
    def loops(self):
        def first(s, ex):
            return z3.And(self.J(s), self.lock.held(s) == 0, self.boxlock.held(s) == 0, V.is_none(box(ex, self.me.get(s, 'next'))), s.ghost['consumed'] == self.consumed0,
                          s.ghost['links'] == s.ghost['puts'], s.ghost['gets'] == 0, s.ghost['pulls_here'] == s.ghost['links'], z3.Not(s.ghost['src_failed_here']))

        def prefetch(s, ex):
            return z3.And(self.J(s), self.lock.held(s) == 0, self.boxlock.held(s) == 0, z3.Not(V.is_none(box(ex, self.me.get(s, 'next')))), s.ghost['consumed'] == self.consumed0,
                          s.ghost['links'] == s.ghost['puts'], s.ghost['gets'] == 0, s.ghost['pulls_here'] == s.ghost['links'])
        kg = ('consumed', 'links', 'puts', 'gets', 'pulls_here', 'src_failed_here', 'src_exhausted_seen')
        return {0: LoopSpec(inv=first, keep_ghost=()), 1: LoopSpec(inv=prefetch, keep_ghost=())}

    def post(self, ex, outs):
        n0 = self.consumed0
        for k, s, p in outs:
            ex.oblige(s, f'exit({k}): instream_lock is released (and the element lock too) on every exit path', z3.And(self.lock.held(s) == 0, self.boxlock.held(s) == 0))
            blocking = s.ghost.get('#blocking', ())
            untimed = [b for b in blocking if b[1].startswith('acquire instream_lock')]
            ex.oblige(s, f'exit({k}): [S2] every acquisition of instream_lock is timed (re-checking loop); nothing else blocks while it is held except the window put',
                      z3.BoolVal(not untimed and all(b[1] in ('put window',) or 'instream_lock' not in b[2] for b in blocking)))
            ex.oblige(s, f'exit({k}): every element linked by this call was put into the window exactly once, linked before it was published there',
                      z3.And(s.ghost['puts'] == s.ghost['links'], s.ghost.get('put_after_link', z3.BoolVal(True)), s.ghost['pulls_here'] - s.ghost['links'] <= 0))
            if k in ('normal', 'return'):
                if s.ghost.get('via_recursion'):
                    ex.oblige(s, 'exit(return via the recursive call): the result is the callee\'s (its contract gives the element and the invariant)', box(ex, p) == src_at(n0))
                    continue
                ex.oblige(s, 'exit(return): returns the next source element in order: element #consumed, each exactly once per fork', box(ex, p) == src_at(n0))
                s2 = s.fork()
                s2.ghost['consumed'] = n0 + 1
                ex.oblige(s2, 'exit(return): the fork-local invariant is re-established with consumed + 1', self.J(s2))
                ex.oblige(s, 'exit(return): the window is popped exactly once per element -- by the fork that is the last to count itself on it (and by no other): otherwise the window fills up for good and the source, then every fork, blocks forever',
                          s.ghost['gets'] == z3.If(s.ghost.get('n_after', z3.IntVal(-1)) == self.n_forks, 1, 0))
            else:
                stop = z3.And(V.isinst(p, 'StopIteration'), s.ghost['ended'], V.is_none(s.ghost['head_exc']), n0 == s.ghost['pulled'])
                failed = z3.And(z3.Not(V.is_none(s.ghost['head_exc'])), p == s.ghost['head_exc'], n0 == s.ghost['pulled'], s.ghost['ended'])
                ex.oblige(s, 'exit(raise): StopIteration only when the source is exhausted and this fork has returned all its elements; otherwise the source\'s own exception, after all elements',
                          z3.Or(stop, failed))



class TeeWiring(Unit):
    """tee(instream, n, buffer_size): ONE window queue of the requested size, ONE source lock, ONE head cell (empty, no failure), ONE source iterator --
    shared by all n forks, each built with n_forks == n and its own index; the results are Streams over exactly these forks, in order."""
    prop = 'C10'
    file = F
    qual = 'tee'
    assert_mode = 'assume'
    canaries = (('every fork gets a window of its own', 'forks = tuple(Fork(instream, n, buffer, head, instream_lock, i) for i in range(n))', 'forks = tuple(Fork(instream, n, queue.Queue(buffer_size), head, instream_lock, i) for i in range(n))', ''),
                ('forks told a wrong fork count', 'Fork(instream, n, buffer, head, instream_lock, i)', 'Fork(instream, n + 1, buffer, head, instream_lock, i)', ''),
                ('window larger than requested', 'buffer = queue.Queue(buffer_size)', 'buffer = queue.Queue(buffer_size * 2)', ''))

    def setup(self, ex):
        st = St()
        self.n, self.bs = z3.Int('n'), z3.Int('buffer_size')
        st.assume(self.n >= 2, self.bs >= 2)
        self.src = z3.Const('instream', Val)
        st.env.update(instream=self.src, n=self.n, buffer_size=self.bs)
        st.ghost['made'] = {}
        self.IDX = z3.Int('generic_fork_index')
        self.fork_of = z3.Function('Fork', z3.IntSort(), Val)
        self.stream_of = z3.Function('Stream', Val, Val)
        unit = self

        def mk(kind):
            def f(e, s, a, k, n):
                o = Rec(e, kind)
                s = s.fork()
                s.ghost['made'] = dict(s.ghost['made'])
                s.ghost['made'].setdefault(kind, []).append((o, [box(e, x) for x in a]))
                return [('ok', s, o)]
            return Fn(f, name=kind)
        ex.globals['queue.Queue'] = mk('Queue')
        ex.globals['threading.Lock'] = mk('Lock')
        ex.globals['SimpleNamespace'] = mk('SimpleNamespace')
        ex.globals['hasattr'] = Fn(lambda e, s, a, k, n: [('ok', s, z3.Bool('instream_is_an_iterator'))])
        self.it = z3.Const('iter(instream)', Val)
        ex.globals['iter'] = Fn(lambda e, s, a, k, n: [('ok', s, self.it)])
        st.ghost['fork_args'] = None

        def fork_ctor(e, s, a, k, n):
            s = s.fork()
            s.ghost['fork_args'] = list(a)
            return [('ok', s, self.fork_of(a[5] if z3.is_expr(a[5]) and a[5].sort() == z3.IntSort() else z3.IntVal(-1)))]
        ex.globals['Fork'] = Fn(fork_ctor)
        ex.globals['Stream'] = Fn(lambda e, s, a, k, n: [('ok', s, self.stream_of(box(e, a[0])))])
        return st

    def on_comprehension(self, ex, st, e):
        import ast as _ast
        g = e.generators[0]
        if len(e.generators) != 1 or g.ifs or not isinstance(g.target, _ast.Name):
            return None
        src = _ast.unparse(g.iter)
        s2 = st.fork()
        s2.env = dict(st.env)
        if src == 'range(n)':
            s2.env[g.target.id] = self.IDX
        elif src == 'forks':
            s2.env[g.target.id] = self.fork_of(self.IDX)
        else:
            return None
        (k1, s3, val), = ex.ev(e.elt, s2)
        s = st.fork()
        s.ghost['fork_args'] = s3.ghost['fork_args']
        s.ghost['elem:' + src] = box(ex, val)
        return [('ok', s, z3.Const('comprehension:' + src, Val))]

    def on_call(self, ex, st, e, src):
        if src == 'tuple' and len(e.args) == 1:
            def f(s, v):
                return [('ok', s, v)]
            r = ex.bind(ex.ev(e.args[0], st), f)
            # remember which comprehension became which tuple
            return r
        return None

    def post(self, ex, outs):
        for k, s, p in outs:
            if k not in ('normal', 'return'):
                ex.oblige(s, 'exit: does not raise', False)
                continue
            made = s.ghost['made']
            qs, ls, hs = made.get('Queue', []), made.get('Lock', []), made.get('SimpleNamespace', [])
            a = s.ghost['fork_args']
            ok = len(qs) == 1 and len(ls) == 1 and len(hs) == 1 and a is not None and len(a) == 6 and len(qs[0][1]) == 1
            if not ok:
                ex.oblige(s, 'exit: exactly one window queue, one source lock and one head cell are created, and forks are built from them', False)
                continue
            head = hs[0][0]
            it = z3.If(z3.Bool('instream_is_an_iterator'), self.src, self.it)
            ex.oblige(s, 'exit: one window of exactly buffer_size, one source lock, one head cell (no element, no failure), one source iterator -- the SAME ones given to every fork, each fork told n_forks == n and its own index',
                      z3.And(qs[0][1][0] == V.intv(self.bs), z3.BoolVal(unbox_handle(ex, a[2]) is qs[0][0] and unbox_handle(ex, a[3]) is head and unbox_handle(ex, a[4]) is ls[0][0]),
                             box(ex, a[0]) == it, box(ex, a[1]) == V.intv(self.n), box(ex, a[5]) == V.intv(self.IDX),
                             box(ex, head.get(s, 'value')) == NONE, box(ex, head.get(s, 'exc')) == NONE))
            ex.oblige(s, 'exit: returns the Streams over exactly these forks, fork i at position i',
                      z3.And(s.ghost.get('elem:forks', NONE) == self.stream_of(self.fork_of(self.IDX)), s.ghost.get('elem:range(n)', NONE) == self.fork_of(self.IDX), box(ex, p) == z3.Const('comprehension:forks', Val)))


class ForkInit(Unit):
    prop = 'C10'
    file = F
    qual = 'Fork.__init__'
    canaries = (('cursor not reset', '        self.next: TeeX | None = None', '        self.next: TeeX | None = head', ''),)

    def setup(self, ex):
        st = St()
        self.me = Rec(ex, 'self')
        self.P = {k: z3.Const('p_' + k, Val) for k in ('instream', 'n_forks', 'buffer', 'head', 'instream_lock', 'fork_idx')}
        st.env.update(self=self.me, **self.P)
        return st

    def post(self, ex, outs):
        for k, s, p in outs:
            ok = k in ('normal', 'return')
            g = lambda f: box(ex, self.me.get(s, f))      # noqa: E731
            ex.oblige(s, 'exit: stores the shared objects it was given; starts with no cursor and state 0',
                      z3.And(g('instream') == self.P['instream'], g('n_forks') == self.P['n_forks'], g('buffer') == self.P['buffer'], g('head') == self.P['head'], g('instream_lock') == self.P['instream_lock'],
                             g('next') == NONE, g('_state') == V.intv(z3.IntVal(0))) if ok else z3.BoolVal(False))

UNITS = [TeeWiring, ForkInit, ForkNext]
SCENARIOS = [('', 'replay/scenarios/c10_first_element_deadlock.py'), ('', 'replay/scenarios/c10_source_exception.py'), ('', 'replay/scenarios/c10_first_element_vs_failure.py')]
