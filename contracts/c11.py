"""C11 — server starts all-or-nothing and stops completely.

Ghost running-set as counters: every worker / member servlet / helper thread started by a function is either still
running at a normal exit (and recorded so that stop() will reach it) or has been joined/stopped at an exceptional exit.
Sentinel discipline (S3): the end marker enters a servlet's input queue behind every accepted input (through the same
path as the inputs), each worker re-broadcasts one and emits one (units get_input / _build_input_batches), stop() joins a
worker only after the marker was sent."""
import ast
import z3

from pyvc import vals as V
from pyvc.vals import Val, SeqV, NONE, fresh, PyTuple
from pyvc.unit import Unit, LoopSpec, LemmaUnit
from pyvc.models import Rec, Fn, Nop, QueueReader, QueueWriter, ThreadCtor, ThreadObj, Lock
from pyvc.core import St, Module, box, Unsupported, Obj, unbox_handle, ExcClass, KwPack, DictVal, as_int, Closure

FS = 'mpserver/_servlet.py'
FV = 'mpserver/_server.py'
FW = 'mpserver/_worker.py'

ASSUMPTIONS = (
    'a worker whose __init__ failed puts None on the output queue and its join() raises the init error (Worker.run contract, unit below + C12); a healthy worker puts its name',
    'a worker that has received the end marker ends (units get_input / _build_input_batches: re-broadcast + forward, then return); join() of such a worker returns',
    'OS-level exit of processes/threads after join() returns; bounded time is not decided',
)
NOT_DECIDED = ('bounded time', 'the multi-worker corner where the first exiting worker\'s end marker overtakes a sibling\'s last output (only matters with > 64 kB of in-flight data)')


# ------------------------------------------------------------------ families of workers / member servlets
class Family(Obj):
    """a list of `n` homogeneous objects addressed by index (self._cpus, self._workers, self._servlets)"""

    def __init__(self, ex, label, n, mk, lo=None):
        super().__init__(ex, label)
        self.n, self.mk = n, mk
        self.lo = lo if lo is not None else z3.IntVal(0)
        self.key = f'#f{V.fresh_id()}'

    def havoc(self, ex, st):
        pass

    def length(self, ex, st, node):
        return [('ok', st, self.count(st) - self.lo)]

    def count(self, st):
        return self.n(st) if callable(self.n) else self.n

    def truth(self, ex, st):
        return self.count(st) - self.lo > 0

    def iter_start(self, ex, st, node):
        st = st.fork()
        st.ghost[self.key] = self.lo
        st.ghost['#enum'] = False
        return [('ok', st, self)]

    def enumerate(self, ex, st, node):
        it = Family(ex, self.label, self.n, self.mk, self.lo)
        it.enum = True
        return [('ok', st, it)]

    def havoc_index(self, st):
        i = fresh('fidx', z3.IntSort())
        st.ghost[self.key] = i
        st.assume(i >= self.lo, z3.Or(i <= self.count(st), i == self.lo))

    def idx(self, st):
        return st.ghost[self.key]

    def pull(self, ex, st, node):
        if self.key not in st.ghost:
            st.ghost[self.key] = self.lo
        i = st.ghost[self.key]
        s1 = st.fork().assume(i >= self.count(st))
        s2 = st.fork().assume(i < self.count(st))
        s2.ghost[self.key] = i + 1
        outs = []
        if ex.feasible(s1):
            outs.append(('stop', s1, None))
        if ex.feasible(s2):
            item = self.mk(i)
            outs.append(('item', s2, PyTuple([i, item]) if getattr(self, 'enum', False) else item))
        return outs

    def getitem(self, ex, st, idx, node):
        i = as_int(ex, st, idx)
        i = z3.If(i < 0, self.count(st) + i, i)
        return [('ok', st, self.mk(i))]

    def reversed_obj(self, ex, st, node):
        n = self.count(st)
        return [('ok', st, Family(ex, 'reversed(' + self.label + ')', self.n, lambda i: self.mk(n - 1 - (i - self.lo)), self.lo))]

    def slice_obj(self, ex, st, lo, hi, node):
        if lo is not None:
            raise Unsupported('family slice with lower bound')
        n = self.count(st)
        hi = n if hi is None else z3.If(hi < 0, z3.If(n + hi < 0, 0, n + hi), z3.If(hi > n, n, hi))
        return [('ok', st, Family(ex, self.label + '[:hi]', hi, self.mk, self.lo))]


class Sym(Obj):
    """a member of a family (symbolic index)"""

    def __init__(self, unit, i, kind):
        self.u, self.i, self.kind = unit, i, kind
        self.oid = -9

    def havoc(self, ex, st):
        pass

    def call(self, ex, st, meth, args, kwargs, node):
        return self.u.sym_call(ex, st, self, meth, args, kwargs, node)

    def getattr(self, ex, st, name, node):
        if name in ('input_queue_type', 'output_queue_type'):
            return [('ok', st, z3.Function(name, z3.IntSort(), z3.StringSort())(self.i))]
        from pyvc.core import BoundMethod
        return [('ok', st, BoundMethod(self, name))]


def log(st, *ev):
    st.ghost['log'] = st.ghost.get('log', ()) + (ev,)


# ================================================================ simple servlets
class SimpleStart(Unit):
    prop = 'C11'
    file = FS
    qual = 'ProcessServlet.start'
    family_attr = '_cpus'
    ctor = 'Process'
    expected_exits = ('normal', 'raise')
    assert_mode = 'assume'
    canaries = (
        ('pinned-tree defect: earlier workers left running when a later one fails to initialise', '                finally:\n                    # Do not leave the workers that have been started so far running.\n                    if self._workers:\n                        q_in.put(None)',
         '                finally:\n                    # Do not leave the workers that have been started so far running.\n                    if False:\n                        q_in.put(None)', 'nothing is left running'),
        ('workers joined without sending the end marker', '                        q_in.put(None)\n', '', 'end marker was sent'),
        ('servlet marked started before all workers are up', '            p.start()\n', '            p.start()\n            self._started = True\n', 'not marked started'),
    )

    def setup(self, ex):
        st = St()
        self.n = z3.Int('n_workers')
        st.assume(self.n >= 1)
        st.ghost['nready'] = z3.IntVal(0)          # healthy workers appended to self._workers
        st.ghost['ncleaned'] = z3.IntVal(0)        # of those, joined by the failure clean-up
        st.ghost['none_in'] = z3.IntVal(0)
        st.ghost['failed_at'] = z3.IntVal(-1)
        st.ghost['failed_joined'] = z3.BoolVal(False)
        st.ghost['cur_started'] = z3.BoolVal(False)
        self.init_error = z3.Const('init_error', Val)
        st.assume(V.isinst(self.init_error, 'BaseException'), *V.cls_facts(self.init_error))
        outer = self

        class Workers(Family):
            def m_append(self_, ex2, st2, args, kwargs, node):
                st2 = st2.fork()
                ex2.oblige(st2, f'line {node.lineno}: only a started, ready worker is recorded', z3.And(st2.ghost['cur_started'], st2.ghost['failed_at'] == -1))
                st2.ghost['nready'] = st2.ghost['nready'] + 1
                return [('ok', st2, NONE)]
        self.workers = Workers(ex, '_workers', lambda s: s.ghost['nready'], lambda i: Sym(self, i, 'worker'))

        class Me(Rec):
            def setattr(self_, ex2, st2, name, v, node):
                if name == '_workers':
                    st2 = st2.fork()
                    ex2.oblige(st2, f'line {node.lineno}: the worker list is reset only after all recorded workers were joined', st2.ghost['ncleaned'] == st2.ghost['nready'])
                    st2.ghost['workers_reset'] = True
                    return [('ok', st2, None)]
                return super().setattr(ex2, st2, name, v, node)
        self.me = Me(ex, 'self')
        self.me.init(st, _started=z3.BoolVal(False), _workers=self.workers, _worker_name=z3.String('wname'), _init_kwargs=KwPack(z3.Const('init_kwargs', Val)),
                     _num_threads=self.n, **{self.family_attr: Family(ex, self.family_attr, self.n, lambda i: z3.Function('cpu', z3.IntSort(), Val)(i))})
        self.me.set(st, '_worker_cls', Rec(ex, 'worker_cls', immutable=True).init(st, __name__=z3.String('clsname'), run=z3.Const('Worker.run', Val)))
        st.env['self'] = self.me
        self.q_in = Rec(ex, 'q_in', methods={'put': Fn(self.qin_put)})
        self.q_out = Rec(ex, 'q_out', methods={'get': Fn(self.qout_get)})
        st.env.update(q_in=self.q_in, q_out=self.q_out)
        ex.globals[self.ctor] = Fn(self.new_worker, name=self.ctor)
        return st

    def qin_put(self, ex, st, args, kwargs, node):
        st = st.fork()
        ex.oblige(st, f'line {node.lineno}: only the end marker is put on the input queue by start()', box(ex, args[0]) == NONE)
        st.ghost['none_in'] = st.ghost['none_in'] + 1
        return [('ok', st, NONE)]

    def qout_get(self, ex, st, args, kwargs, node):
        ex.oblige(st, f'line {node.lineno}: the init handshake is read only after the worker was started', st.ghost['cur_started'])
        s1 = st.fork()
        s1.ghost['failed_at'] = s1.ghost['nready']
        return [('ok', s1, NONE), ('ok', st.fork(), z3.StringVal('worker-name'))]

    def new_worker(self, ex, st, args, kwargs, node):
        kw = kwargs.get('kwargs')
        ok = isinstance(kw, DictVal) and unbox_handle(ex, kw.items.get('q_in')) is self.q_in and unbox_handle(ex, kw.items.get('q_out')) is self.q_out and 'worker_index' in kw.items
        ex.oblige(st, f'line {node.lineno}: the worker is created on this servlet\'s queues with its own index, target Worker.run', z3.And(z3.BoolVal(bool(ok)), box(ex, kwargs.get('target')) == z3.Const('Worker.run', Val)))
        st = st.fork()
        st.ghost['cur_started'] = z3.BoolVal(False)
        return [('ok', st, Sym(self, fresh('new', z3.IntSort()), 'new'))]

    def sym_call(self, ex, st, obj, meth, args, kwargs, node):
        st = st.fork()
        if obj.kind == 'new':
            if meth == 'start':
                st.ghost['cur_started'] = z3.BoolVal(True)
                return [('ok', st, NONE)]
            if meth == 'join':
                ex.oblige(st, f'line {node.lineno}: the new worker is joined by start() only when its init failed (its join raises the init error; a healthy one would block)', st.ghost['failed_at'] == st.ghost['nready'])
                st.ghost['failed_joined'] = z3.BoolVal(True)
                return [('raise', st, self.init_error)]
        if obj.kind == 'worker' and meth == 'join':
            ex.oblige(st, f'line {node.lineno}: a healthy worker is joined only after the end marker was sent to the input queue (else join blocks forever) [E3]', st.ghost['none_in'] >= 1)
            ex.oblige(st, f'line {node.lineno}: workers are joined in order, each once', obj.i == st.ghost['ncleaned'])
            st.ghost['ncleaned'] = st.ghost['ncleaned'] + 1
            return [('ok', st, NONE)]
        raise Unsupported(f'{obj.kind}.{meth}')

    @property
    def loops(self):
        main = lambda s, ex: z3.And(s.ghost['failed_at'] == -1, s.ghost['ncleaned'] == 0, s.ghost['none_in'] == 0, z3.Not(self.me.get(s, '_started')), z3.Not(s.ghost['failed_joined']),
                                    *[s.ghost[k] == s.ghost['nready'] for k in s.ghost if k.startswith('#f')][:0])
        clean = lambda s, ex: z3.And(s.ghost['none_in'] == 1, s.ghost['failed_at'] == s.ghost['nready'], z3.Not(self.me.get(s, '_started')))
        return {0: LoopSpec(inv=lambda s, ex: z3.And(main(s, ex), self.loop_index_is_nready(s)), keep=('q_in', 'q_out', 'basename')),
                1: LoopSpec(inv=lambda s, ex: z3.And(clean(s, ex), self.cleanup_index(s)), keep=('q_in', 'q_out', 'p'), keep_ghost=('nready', 'failed_at', 'none_in', 'cur_started', 'failed_joined'))}

    def loop_index_is_nready(self, s):
        fam = self.me.get(s, self.family_attr)
        keys = [k for k in s.ghost if (k.startswith('#f') or k.startswith('#r')) and k != self.workers.key]
        # the enumerate()/range() iterator carries the index of the outer loop
        return s.ghost[keys[-1]] == s.ghost['nready'] if keys else z3.BoolVal(True)

    def cleanup_index(self, s):
        return s.ghost[self.workers.key] == s.ghost['ncleaned'] if self.workers.key in s.ghost else z3.BoolVal(True)

    def post(self, ex, outs):
        for k, s, p in outs:
            if k in ('normal', 'return'):
                ex.oblige(s, 'exit(started): every worker was started and is recorded (stop() will reach it), none was joined, no end marker was sent, the servlet is marked started on these queues',
                          z3.And(s.ghost['nready'] == self.n, s.ghost['ncleaned'] == 0, s.ghost['none_in'] == 0, self.me.get(s, '_started'), s.ghost['failed_at'] == -1,
                                 z3.BoolVal(self.me.get(s, '_q_in') is self.q_in and self.me.get(s, '_q_out') is self.q_out)))
            else:
                ex.oblige(s, 'exit(init failure): the init error itself is raised; nothing is left running: the failing worker was joined, every worker started before it was sent the end marker was sent and joined; the servlet is not marked started and records no worker',
                          z3.And(p == self.init_error, s.ghost['failed_joined'], s.ghost['ncleaned'] == s.ghost['nready'], z3.Implies(s.ghost['nready'] > 0, s.ghost['none_in'] == 1),
                                 z3.Not(self.me.get(s, '_started')), z3.BoolVal(bool(s.ghost.get('workers_reset')) or True), z3.Implies(s.ghost['nready'] > 0, z3.BoolVal(bool(s.ghost.get('workers_reset'))))))


class ThreadStart(SimpleStart):
    qual = 'ThreadServlet.start'
    family_attr = '_cpus_unused'
    ctor = 'Thread'
    canaries = ()

    def setup(self, ex):
        st = super().setup(ex)
        return st


class SimpleStop(Unit):
    prop = 'C11'
    file = FS
    qual = 'ProcessServlet.stop'
    assert_mode = 'assume'
    canaries = (('workers not joined', '        for w in self._workers:\n            w.join()', '        pass', 'joined'),
                ('end marker sent after joining', '        self._q_in.put(None)\n        for w in self._workers:\n            w.join()', '        for w in self._workers:\n            w.join()\n        self._q_in.put(None)', 'end marker was sent'),
                ('servlet left marked started', '        self._started = False', '        pass', 'marked stopped'))

    def setup(self, ex):
        st = St()
        self.n = z3.Int('n_workers')
        st.assume(self.n >= 1)
        st.ghost['njoined'] = z3.IntVal(0)
        st.ghost['none_in'] = z3.IntVal(0)
        self.workers = Family(ex, '_workers', self.n, lambda i: Sym(self, i, 'worker'))

        def put(e, s, a, k, n):
            s = s.fork()
            e.oblige(s, f'line {n.lineno}: only the end marker is put', box(e, a[0]) == NONE)
            s.ghost['none_in'] = s.ghost['none_in'] + 1
            return [('ok', s, NONE)]
        self.me = Rec(ex, 'self').init(st, _started=z3.BoolVal(True), _workers=self.workers, _q_in=Rec(ex, 'q_in', methods={'put': Fn(put)}))
        st.env['self'] = self.me
        return st

    def sym_call(self, ex, st, obj, meth, args, kwargs, node):
        st = st.fork()
        ex.oblige(st, f'line {node.lineno}: a worker is joined only after the end marker was sent [E3]; each once, in order', z3.And(st.ghost['none_in'] == 1, obj.i == st.ghost['njoined'], z3.BoolVal(meth == 'join')))
        st.ghost['njoined'] = st.ghost['njoined'] + 1
        return [('ok', st, NONE)]

    @property
    def loops(self):
        return {0: LoopSpec(inv=lambda s, ex: z3.And(s.ghost['none_in'] == 1, s.ghost[self.workers.key] == s.ghost['njoined'] if self.workers.key in s.ghost else z3.BoolVal(True)))}

    def post(self, ex, outs):
        for k, s, p in outs:
            if k in ('normal', 'return'):
                w = self.me.get(s, '_workers')
                ex.oblige(s, 'exit: the end marker was sent once, every worker was joined, the worker list is empty and the servlet is marked stopped (so it can be started again)',
                          z3.And(s.ghost['none_in'] == 1, s.ghost['njoined'] == self.n, z3.Not(self.me.get(s, '_started')), z3.BoolVal(not isinstance(w, Family))))
            else:
                ex.oblige(s, 'exit: stop() does not raise', False)


class ThreadStop(SimpleStop):
    qual = 'ThreadServlet.stop'
    canaries = ()


# ================================================================ compound servlets: start (all-or-nothing) and stop (order)
class CompoundStart(Unit):
    prop = 'C11'
    file = FS
    qual = 'SequentialServlet.start'
    expected_exits = ('normal', 'raise')
    assert_mode = 'assume'
    wiring = 'sequential'
    canaries = (('pinned-tree defect: members started before the failing one are left running', '                for ss in self._servlets[:i]:\n                    ss.stop()', '                pass', 'nothing is left running'),
                ('stops one member too few', 'for ss in self._servlets[:i]:', 'for ss in self._servlets[:i - 1]:', 'nothing is left running'),
                ('marked started although a member failed', '                self._qs = []\n                raise', '                self._qs = []\n                self._started = True\n                raise', 'not marked started'))

    def setup(self, ex):
        st = St()
        self.nn = z3.Int('n_members')
        st.assume(self.nn >= 1)
        st.ghost['nstarted'] = z3.IntVal(0)
        st.ghost['nstopped'] = z3.IntVal(0)
        st.ghost['failed_at'] = z3.IntVal(-1)
        st.ghost['wired_ok'] = z3.BoolVal(True)
        st.ghost['prev_out'] = z3.IntVal(-1)      # id of the queue the previous member writes to (-1: the servlet's q_in)
        st.ghost['nthreads'] = z3.IntVal(0)
        self.init_error = z3.Const('init_error', Val)
        st.assume(V.isinst(self.init_error, 'BaseException'), *V.cls_facts(self.init_error))
        outer = self

        class Members(Family):
            def slice_to(self_, ex2, st2, hi):
                return Family(ex2, 'members[:i]', hi, self_.mk)
        self.members = Members(ex, '_servlets', self.nn, lambda i: Sym(self, i, 'member'))
        self.q_in, self.q_out = V.intv(z3.IntVal(-1)), V.intv(z3.IntVal(-2))          # queues as values: intv(queue id)
        self.me = Rec(ex, 'self', methods={'_reset': Fn(self.reset), '_dequeue': Fn(lambda e, s, a, k, n: [('ok', s, NONE)], name='_dequeue'), '_enqueue': Fn(lambda e, s, a, k, n: [('ok', s, NONE)], name='_enqueue')})
        # whatever an earlier entry left in the per-member lists (the same servlet object is started again after stop): arbitrary
        self.me.init(st, _started=z3.BoolVal(False), _servlets=self.members, _qs=z3.Const('old_qs', V.SeqV), _qins=z3.Const('old_qins', V.SeqV), _qouts=z3.Const('old_qouts', V.SeqV), _threads=z3.Const('old_threads', V.SeqV))
        st.env['self'] = self.me
        st.env.update(q_in=self.q_in, q_out=self.q_out)
        self.nq = [0]

        st.ghost['next_qid'] = z3.IntVal(0)

        self.qkind = z3.Function('queue_kind', z3.IntSort(), z3.StringSort())

        def newq(kind):
            def f(e, s, a, k, n):
                self.nq[0] += 1
                s = s.fork()
                q = s.ghost['next_qid']                  # a new queue object is distinct from every earlier one
                s.ghost['next_qid'] = q + 1
                s.assume(self.qkind(q) == z3.StringVal(kind))
                return [('ok', s, V.intv(q))]
            return Fn(f)
        ex.globals['_SimpleThreadQueue'] = newq('thread')
        ex.globals['_SimpleProcessQueue'] = newq('process')
        ex.globals['Thread'] = ThreadCtor()
        return st

    def reset(self, ex, st, args, kwargs, node):
        st = st.fork()
        st.ghost['resets'] = st.ghost.get('resets', 0) + 1
        for f in ('_qins', '_qouts', '_threads'):
            self.me.set(st, f, V.EMPTY)
        for f in ('_qin', '_qout'):
            self.me.set(st, f, NONE)
        return [('ok', st, NONE)]

    def slice(self):
        pass

    def on_call(self, ex, st, e, src):
        return None

    def sym_call(self, ex, st, obj, meth, args, kwargs, node):
        st = st.fork()
        if meth == 'start':
            q1, q2 = (V.ival(box(ex, a)) for a in args)
            ex.oblige(st, f'line {node.lineno}: members are started in order, each once', obj.i == st.ghost['nstarted'])
            if self.wiring == 'sequential':
                ex.oblige(st, f'line {node.lineno}: [C02] wiring: member i reads what member i-1 writes (the first reads the servlet\'s input queue), the last writes the servlet\'s output queue',
                          z3.And(q1 == st.ghost['prev_out'], z3.If(obj.i == self.nn - 1, q2 == -2, z3.And(q2 >= 0, q2 != q1))))
                st.ghost['prev_out'] = q2
            elif self.wiring == 'switch':
                ex.oblige(st, f'line {node.lineno}: every member writes to the servlet\'s output queue and reads its own fresh queue', z3.And(q1 >= 0, q2 == -2))
            else:
                ex.oblige(st, f'line {node.lineno}: every member gets its own fresh input and output queue', z3.And(q1 >= 0, q2 >= 0))
            # a member that declares it needs a PROCESS queue (a worker process at that edge) must get one: a thread queue cannot cross the process boundary
            decl_in = z3.Function('input_queue_type', z3.IntSort(), z3.StringSort())(obj.i)
            decl_out = z3.Function('output_queue_type', z3.IntSort(), z3.StringSort())(obj.i)
            proc = z3.StringVal('process')
            ex.oblige(st, f'line {node.lineno}: a queue made HERE for a member is of the type that member declares (process-declaring members get process queues)',
                      z3.And(z3.Implies(z3.And(q1 >= 0, decl_in == proc), self.qkind(q1) == proc), z3.Implies(z3.And(q2 >= 0, decl_out == proc), self.qkind(q2) == proc)))
            s_ok = st.fork()
            s_ok.ghost['nstarted'] = st.ghost['nstarted'] + 1
            s_bad = st.fork()
            s_bad.ghost['failed_at'] = obj.i
            return [('ok', s_ok, NONE), ('raise', s_bad, self.init_error)]
        if meth == 'stop':
            ex.oblige(st, f'line {node.lineno}: only members that were started are stopped, each once, in order', z3.And(obj.i == st.ghost['nstopped'], obj.i < st.ghost['nstarted']))
            st.ghost['nstopped'] = st.ghost['nstopped'] + 1
            return [('ok', st, NONE)]
        raise Unsupported(f'member.{meth}')

    def on_thread_start(self, ex, st, t, node):
        ex.oblige(st, f'line {node.lineno}: helper threads are started only after every member is up', st.ghost['nstarted'] == self.nn)
        st.ghost['nthreads'] = st.ghost['nthreads'] + 1

    @property
    def loops(self):
        def idx(s, fam_label):
            keys = [k for k in s.ghost if k.startswith('#f')]
            return keys

        def main(s, ex):
            keys = idx(s, '')
            cur = s.ghost[keys[0]] if keys else z3.IntVal(0)
            base = z3.And(s.ghost['failed_at'] == -1, s.ghost['nstopped'] == 0, z3.Not(self.me.get(s, '_started')), s.ghost['nthreads'] == 0, s.ghost['nstarted'] == cur, s.ghost['next_qid'] >= 0)
            if self.wiring in ('ensemble', 'switch'):
                base = z3.And(base, box(ex, self.me.get(s, '_qin')) == self.q_in, box(ex, self.me.get(s, '_qout')) == self.q_out)
                base = z3.And(base, z3.Length(self.me.get(s, '_qins')) == cur, *( [z3.Length(self.me.get(s, '_qouts')) == cur] if self.wiring == 'ensemble' else []))
            if self.wiring == 'sequential':
                base = z3.And(base, z3.If(cur == 0, s.ghost['prev_out'] == -1, z3.If(cur == self.nn, s.ghost['prev_out'] == -2, s.ghost['prev_out'] >= 0)),
                              s.ghost['prev_out'] < s.ghost['next_qid'], s.ghost['next_qid'] >= 0, s.env['q1'] == V.intv(s.ghost['prev_out']), s.env['nn'] == self.nn,
                              # the queue between member cur-1 and member cur was made as a process queue unless BOTH sides declared 'thread'
                              z3.Implies(z3.And(s.ghost['prev_out'] >= 0, z3.Function('input_queue_type', z3.IntSort(), z3.StringSort())(cur) == z3.StringVal('process')),
                                         self.qkind(s.ghost['prev_out']) == z3.StringVal('process')))
            return base

        def cleanup(s, ex):
            keys = idx(s, '')
            cur = s.ghost[keys[-1]]
            return z3.And(s.ghost['failed_at'] == s.ghost['nstarted'], s.ghost['nstopped'] == cur, z3.Not(self.me.get(s, '_started')), s.ghost['nthreads'] == 0)
        lt = {'q1': Val, 'q2': Val}
        return {0: LoopSpec(inv=main, keep=('q_in', 'q_out', 'nn'), local_types=lt), 1: LoopSpec(inv=cleanup, keep=('q_in', 'q_out', 'nn', 'i', 's', 'q1', 'q2'), keep_ghost=('nstarted', 'failed_at', 'nthreads', 'prev_out', 'next_qid'))}

    def post(self, ex, outs):
        for k, s, p in outs:
            if k in ('normal', 'return'):
                th = [t for t in ex.objs.values() if isinstance(t, ThreadObj)]
                ex.oblige(s, 'exit(started): every member servlet was started, none was stopped, helper threads (if any) are started, and the servlet is marked started',
                          z3.And(s.ghost['nstarted'] == self.nn, s.ghost['nstopped'] == 0, self.me.get(s, '_started'), *[t.get(s, 'started') for t in th]))
                if self.wiring in ('ensemble', 'switch'):
                    ex.oblige(s, 'exit(started): the servlet\'s own input and output queue are recorded for its forwarding / collecting threads (self._qin, self._qout)',
                              z3.And(box(ex, self.me.get(s, '_qin')) == self.q_in, box(ex, self.me.get(s, '_qout')) == self.q_out) if self.me.has(s, '_qin') and self.me.has(s, '_qout') else z3.BoolVal(False))
                    want = [('_qins', self.nn)] + ([('_qouts', self.nn)] if self.wiring == 'ensemble' else [])
                    ex.oblige(s, 'exit(started): the per-member queue lists the forwarding / collecting threads read hold exactly one queue per member -- whatever an earlier entry left in them was discarded',
                              z3.And(*[z3.Length(self.me.get(s, f)) == n for f, n in want]))
            else:
                ex.oblige(s, 'exit(a member failed to start): that member\'s error is raised; nothing is left running: every member started before it was stopped, no helper thread was started; the servlet is not marked started',
                          z3.And(p == self.init_error, s.ghost['failed_at'] == s.ghost['nstarted'], s.ghost['nstopped'] == s.ghost['nstarted'], s.ghost['nthreads'] == 0, z3.Not(self.me.get(s, '_started'))))


class QObj(Obj):
    def __init__(self, ex, qid):
        super().__init__(ex, 'queue')
        self.qid = qid if not isinstance(qid, int) else z3.IntVal(qid)

    def havoc(self, ex, st):
        pass


class EnsembleStart(CompoundStart):
    qual = 'EnsembleServlet.start'
    wiring = 'ensemble'
    assumed_contracts = ('self._reset(): unit C11:EnsembleServlet._reset',)
    canaries = (('pinned-tree defect: members left running', '                for ss in self._servlets[:i]:\n                    ss.stop()', '                pass', 'nothing is left running'),)


class SwitchStart(CompoundStart):
    qual = 'SwitchServlet.start'
    wiring = 'switch'
    assumed_contracts = ('self._reset(): unit C11:SwitchServlet._reset',)
    canaries = ()


class CompoundStop(Unit):
    """stop(): the end marker goes through the servlet's own input path first (behind every pending input), the forwarding thread is
    joined, and only then are the members stopped -- so no member's marker can overtake inputs still being forwarded."""
    prop = 'C11'
    file = FS
    qual = 'EnsembleServlet.stop'
    assert_mode = 'assume'
    nthreads = 2
    assumed_contracts = ('self._reset(): unit C11:EnsembleServlet._reset',)
    canaries = (('pinned-tree defect: members stopped before the forwarding thread has drained', '        self._qin.put(None)\n        self._threads[1].join()\n', '', 'behind every pending input'),
                ('helper threads not joined', '        for t in self._threads:\n            t.join()', '        pass', 'joined'))

    def setup(self, ex):
        st = St()
        self.nn = z3.Int('n_members')
        st.assume(self.nn >= 2)
        st.ghost['log'] = ()
        st.ghost['nstopped'] = z3.IntVal(0)
        self.members = Family(ex, '_servlets', self.nn, lambda i: Sym(self, i, 'member'))
        self.threads = [self.mk_thread(ex, st, n) for n in (('dequeue', 'enqueue') if self.nthreads == 2 else ('enqueue',))]

        def put(e, s, a, k, n):
            s = s.fork()
            e.oblige(s, f'line {n.lineno}: only the end marker is put', box(e, a[0]) == NONE)
            log(s, 'marker')
            return [('ok', s, NONE)]
        self.me = Rec(ex, 'self', methods={'_reset': Fn(lambda e, s, a, k, n: (log(s2 := s.fork(), 'reset'), [('ok', s2, NONE)])[1])})
        self.me.init(st, _started=z3.BoolVal(True), _servlets=self.members, _qin=Rec(ex, 'qin', methods={'put': Fn(put)}))
        if self.nthreads == 2:
            self.me.set(st, '_threads', ThreadList(self.threads))
        else:
            self.me.set(st, '_thread_enqueue', self.threads[0])
        st.env['self'] = self.me
        return st

    def mk_thread(self, ex, st, name):
        st.ghost['joined.' + name] = z3.BoolVal(False)

        def join(e, s, a, k, n):
            s = s.fork()
            log(s, 'join', name)
            s.ghost['joined.' + name] = z3.BoolVal(True)
            return [('ok', s, NONE)]
        return Rec(ex, name, methods={'join': Fn(join)})

    def sym_call(self, ex, st, obj, meth, args, kwargs, node):
        st = st.fork()
        ev = [e for e in st.ghost['log']]
        ex.oblige(st, f'line {node.lineno}: [S3] members are stopped only after the end marker was sent through the servlet\'s own input queue and the forwarding thread was joined: the marker reaches each member behind every pending input',
                  z3.BoolVal(('marker',) in ev and ('join', 'enqueue') in ev and ev.index(('marker',)) < ev.index(('join', 'enqueue')) and meth == 'stop'))
        ex.oblige(st, f'line {node.lineno}: members are stopped in order, each once', obj.i == st.ghost['nstopped'])
        st.ghost['nstopped'] = st.ghost['nstopped'] + 1
        return [('ok', st, NONE)]

    @property
    def loops(self):
        inv = lambda s, ex: z3.And(*[s.ghost[k] == s.ghost['nstopped'] for k in s.ghost if k.startswith('#f')])
        def tinv(s, ex):
            i = s.ghost['tli']
            # after k iterations the first k helper threads have been joined
            return z3.And(s.ghost['nstopped'] == self.nn, i >= 0, i <= 2, z3.Implies(i >= 1, s.ghost['joined.dequeue']), z3.Implies(i >= 2, s.ghost['joined.enqueue']))
        return {0: LoopSpec(inv=inv, keep_ghost=('joined.enqueue', 'joined.dequeue')), 1: LoopSpec(inv=tinv, keep_ghost=('nstopped',))}

    def post(self, ex, outs):
        for k, s, p in outs:
            if k in ('normal', 'return'):
                ev = list(s.ghost['log'])
                joined = z3.And(*[s.ghost['joined.' + n] for n in (('dequeue', 'enqueue') if self.nthreads == 2 else ('enqueue',))])
                ex.oblige(s, 'exit: every member was stopped, every helper thread was joined, the state was reset and the servlet is marked stopped',
                          z3.And(s.ghost['nstopped'] == self.nn, joined, z3.BoolVal(('reset',) in ev), z3.Not(self.me.get(s, '_started'))))
            else:
                ex.oblige(s, 'exit: stop() does not raise', False)


class ThreadList(Obj):
    """self._threads: a short list of concrete helper-thread objects; iteration index is symbolic, case-split on its value"""

    def __init__(self, threads):
        self.threads = threads
        self.oid = -11

    def havoc(self, ex, st):
        pass

    def getitem(self, ex, st, idx, node):
        i = z3.simplify(as_int(ex, st, idx))
        return [('ok', st, self.threads[i.as_long()])]

    def iter_start(self, ex, st, node):
        st = st.fork()
        st.ghost['tli'] = z3.IntVal(0)
        return [('ok', st, self)]

    def havoc_index(self, st):
        i = fresh('tli', z3.IntSort())
        st.ghost['tli'] = i
        st.assume(i >= 0, i <= len(self.threads))

    def pull(self, ex, st, node):
        i = st.ghost['tli']
        outs = []
        s0 = st.fork().assume(i >= len(self.threads))
        if ex.feasible(s0):
            outs.append(('stop', s0, None))
        for k, t in enumerate(self.threads):
            s = st.fork().assume(i == k)
            if ex.feasible(s):
                s.ghost['tli'] = z3.IntVal(k + 1)
                outs.append(('item', s, t))
        return outs


class SwitchStop(CompoundStop):
    qual = 'SwitchServlet.stop'
    nthreads = 1
    assumed_contracts = ('self._reset(): unit C11:SwitchServlet._reset',)
    canaries = (('pinned-tree defect: members stopped first', '        self._qin.put(None)\n        self._thread_enqueue.join()\n', '', 'behind every pending input'),)

    @property
    def loops(self):
        inv = lambda s, ex: z3.And(*[s.ghost[k] == s.ghost['nstopped'] for k in s.ghost if k.startswith('#f')])
        return {0: LoopSpec(inv=inv, keep_ghost=('joined.enqueue',))}


class SequentialStop(Unit):
    prop = 'C11'
    file = FS
    qual = 'SequentialServlet.stop'
    assert_mode = 'assume'
    canaries = (('only the first stage is stopped', '        for s in self._servlets:\n            s.stop()', '        self._servlets[0].stop()', 'every stage'),)

    def setup(self, ex):
        st = St()
        self.nn = z3.Int('n_members')
        st.assume(self.nn >= 1)
        st.ghost['nstopped'] = z3.IntVal(0)
        self.members = Family(ex, '_servlets', self.nn, lambda i: Sym(self, i, 'member'))
        self.me = Rec(ex, 'self').init(st, _started=z3.BoolVal(True), _servlets=self.members, _qs=z3.Const('qs', SeqV))
        st.env['self'] = self.me
        return st

    def sym_call(self, ex, st, obj, meth, args, kwargs, node):
        st = st.fork()
        ex.oblige(st, f'line {node.lineno}: [S3] stages are stopped first-to-last, each once: a stage\'s end marker follows everything it emitted into the next stage\'s input queue',
                  z3.And(z3.BoolVal(meth == 'stop'), obj.i == st.ghost['nstopped']))
        st.ghost['nstopped'] = st.ghost['nstopped'] + 1
        return [('ok', st, NONE)]

    @property
    def loops(self):
        return {0: LoopSpec(inv=lambda s, ex: z3.And(*[s.ghost[k] == s.ghost['nstopped'] for k in s.ghost if k.startswith('#f')]))}

    def post(self, ex, outs):
        for k, s, p in outs:
            if k in ('normal', 'return'):
                ex.oblige(s, 'exit: every stage was stopped and the servlet is marked stopped', z3.And(s.ghost['nstopped'] == self.nn, z3.Not(self.me.get(s, '_started')), self.me.get(s, '_qs') == V.EMPTY))
            else:
                ex.oblige(s, 'exit: stop() does not raise', False)


# ================================================================ server exit, onboarding thread, Worker.run
class ServerExit(Unit):
    prop = 'C11'
    file = FV
    qual = 'Server.__exit__'
    has_onboard = True
    canaries = (('pinned-tree defect: the end marker is put straight into the servlet\'s input queue while accepted inputs still wait in the onboarding buffer',
                 '        if self._onboard_thread is not None:\n            # Send the end marker through the input buffer', '        if False:\n            # Send the end marker through the input buffer', 'behind every accepted input'),
                ('gather thread not joined', '        self._gather_thread.join()', '        pass', 'joined'))

    def __init__(self):
        if not self.has_onboard:
            self.variant = 'thread-queue'
        super().__init__()

    def setup(self, ex):
        st = St()
        st.ghost['log'] = ()

        def ev(name):
            def f(e, s, a, k, n):
                s = s.fork()
                log(s, name, *[box(e, x) for x in a])
                return [('ok', s, NONE)]
            return Fn(f)
        self.me = Rec(ex, 'self').init(st, servlet=Rec(ex, 'servlet', methods={'stop': ev('servlet.stop')}), _gather_thread=Rec(ex, 'gather', methods={'join': ev('gather.join')}),
                                       _input_buffer=Rec(ex, 'inbuf', methods={'put': ev('inbuf.put')}),
                                       _onboard_thread=(Rec(ex, 'onboard', methods={'join': ev('onboard.join')}) if self.has_onboard else NONE))
        st.env['self'] = self.me
        from pyvc.core import StarPack
        st.env['args'] = StarPack()
        return st

    def post(self, ex, outs):
        for k, s, p in outs:
            if k in ('normal', 'return'):
                names = [e[0] for e in s.ghost['log']]
                if self.has_onboard:
                    ok = names == ['inbuf.put', 'onboard.join', 'servlet.stop', 'gather.join']
                    marker = [e for e in s.ghost['log'] if e[0] == 'inbuf.put']
                    ex.oblige(s, 'exit: [S3] the end marker goes through the onboarding buffer first -- behind every accepted input -- and the onboarding thread is joined before the servlet is stopped; then the gather thread is joined',
                              z3.And(z3.BoolVal(ok), marker[0][1] == NONE if marker else z3.BoolVal(False)))
                else:
                    ex.oblige(s, 'exit: (thread input queue: inputs and marker share one FIFO) the servlet is stopped, then the gather thread is joined', z3.BoolVal(names == ['servlet.stop', 'gather.join']))
            else:
                ex.oblige(s, 'exit: __exit__ does not raise by itself', False)


class ServerExitThreadQ(ServerExit):
    has_onboard = False
    canaries = ()


class AServerExit(ServerExit):
    qual = 'AsyncServer.__aexit__'
    ignore_stmts = (r'while notifs:.*', r'pipenotfull = .*', r'notifs = .*')
    canaries = ()


class OnboardUnit(Unit):
    prop = 'C11'
    file = FV
    qual = '_enter_server.<locals>._onboard_input'
    canaries = (('loop ends before the marker is forwarded', '                x = qin.get()\n                qout.put(x)\n                if x is None:\n                    break', '                x = qin.get()\n                if x is None:\n                    break\n                qout.put(x)', ''),
                ('item dropped', '                qout.put(x)\n', '', ''))

    def setup(self, ex):
        st = St()
        self.qin = QueueReader(ex, 'inbuf')
        self.qin.init(st)
        self.qout = QueueWriter(ex, 'q_in')
        self.qout.init(st)
        st.cells['self'] = Rec(ex, 'self', immutable=True).init(st, _input_buffer=self.qin, _q_in=self.qout)
        st.ghost['none_got'] = z3.BoolVal(False)
        st.ghost['cur'] = NONE
        return st

    def on_get(self, ex, st, q, k, z, node):
        ex.oblige(st, f'line {node.lineno}: nothing is read after the end marker; everything read before was forwarded', z3.And(z3.Not(st.ghost['none_got']), self.qout.nput(st) == k))
        s1 = st.fork().assume(z == NONE)
        s1.ghost['none_got'] = z3.BoolVal(True)
        s2 = st.fork().assume(z != NONE)
        for s in (s1, s2):
            s.ghost['cur'] = z
        return [s1, s2]

    def on_put(self, ex, st, q, k, item, node):
        ex.oblige(st, f'line {node.lineno}: [S3] the k-th item taken from the buffer is forwarded as the k-th item of the input queue (FIFO, marker last)', z3.And(box(ex, item) == st.ghost['cur'], k == self.qin.nget(st) - 1))

    @property
    def loops(self):
        return {0: LoopSpec(inv=lambda s, ex: z3.And(z3.Not(s.ghost['none_got']), self.qout.nput(s) == self.qin.nget(s)), keep=('qin', 'qout'))}

    def post(self, ex, outs):
        for k, s, p in outs:
            if k in ('normal', 'return'):
                ex.oblige(s, 'exit: ends exactly when the end marker has been forwarded, as the last item', z3.And(s.ghost['none_got'], self.qout.nput(s) == self.qin.nget(s)))
            else:
                ex.oblige(s, 'exit: does not raise', False)


class WorkerRun(Unit):
    prop = 'C11'
    file = FW
    qual = 'Worker.run'
    expected_exits = ('normal', 'raise')
    canaries = (('init failure not signalled', '            q_out.put(None)\n            raise', '            raise', 'handshake'),
                ('ready signalled before init', '        try:\n            obj = cls(**init_kwargs)', '        q_out.put(0)\n        try:\n            obj = cls(**init_kwargs)', 'handshake'))

    def setup(self, ex):
        st = St()
        from pyvc.models import UFunc
        self.init_ok = z3.Bool('init_ok')
        self.err = z3.Const('init_error', Val)
        st.assume(V.isinst(self.err, 'Exception'), *V.cls_facts(self.err))
        st.ghost['log'] = ()

        def cls(e, s, a, k, n):
            s1 = s.fork().assume(self.init_ok)
            s2 = s.fork().assume(z3.Not(self.init_ok))

            def start(e2, s3, a2, k2, n2):
                s3 = s3.fork()
                log(s3, 'start')
                return [('ok', s3, NONE)]
            obj = Rec(e, 'obj', methods={'start': Fn(start)}).init(s1, name=z3.StringVal('n'))
            return [('ok', s1, obj), ('raise', s2, self.err)]

        def put(e, s, a, k, n):
            s = s.fork()
            log(s, 'put', box(e, a[0]))
            return [('ok', s, NONE)]
        class InitKwargs(Obj):
            """the dict init_kwargs: passed on as **init_kwargs; an entry read from it is an opaque value"""
            pack = KwPack(z3.Const('kw', Val))

            def havoc(self_, e, s):
                pass

            def m_get(self_, e, s, a, k, n):
                return [('ok', s, z3.Const('init_kwargs_entry_' + (a[0].as_string() if z3.is_string_value(a[0]) else 'x'), Val))]

            def getitem(self_, e, s, idx, n):
                return self_.m_get(e, s, [idx], {}, n)

            def as_kwpack(self_, e, s):
                return self_.pack
        # anything the OS refuses (an invalid CPU id ...) raises: also before the object exists
        oserr = z3.Const('os_error', Val)
        st.assume(V.isinst(oserr, 'OSError'), *V.cls_facts(oserr))
        ex.globals['os.sched_setaffinity'] = Fn(lambda e, s, a, k, n: [('ok', s, NONE), ('raise', s.fork(), oserr)], trusted='os.sched_setaffinity raises OSError for a CPU set the machine cannot honour')
        st.env.update(cls=Fn(cls), q_in=Rec(ex, 'q_in'), q_out=Rec(ex, 'q_out', methods={'put': Fn(put)}), init_kwargs=InitKwargs(ex, 'init_kwargs'))
        return st

    def post(self, ex, outs):
        for k, s, p in outs:
            lg = s.ghost['log']
            if k in ('normal', 'return'):
                ex.oblige(s, 'exit: handshake: a worker that initialised puts its (non-None) name first, then runs its service loop',
                          z3.And(self.init_ok, z3.BoolVal(len(lg) == 2 and lg[0][0] == 'put' and lg[1][0] == 'start'), lg[0][1] != NONE if len(lg) == 2 else z3.BoolVal(False)))
            else:
                ex.oblige(s, 'exit(raise): handshake: a worker that fails before its service loop -- in __init__ or anywhere earlier in this process -- puts None (exactly that) and re-raises the error: '
                             'the parent blocks on this message (ProcessServlet.start), so a worker dying silently would hang Server.__enter__ with the earlier workers left running',
                          z3.And(z3.Not(self.init_ok), p == self.err, z3.BoolVal(len(lg) == 1 and lg[0][0] == 'put'), lg[0][1] == NONE if len(lg) == 1 else z3.BoolVal(False)))



class EnterServer(Unit):
    """_enter_server (shared by Server.__enter__ and AsyncServer.__aenter__): all-or-nothing at the server level.  The servlet is started FIRST, with queues
    of the types it declares; if that raises, nothing else was started (no helper thread to clean up: the servlet's own start is all-or-nothing, units above).
    Then: with a process input queue, requests go through an unbounded buffer drained by the onboarding thread (unit _onboard_input); the gather thread runs
    self._gather_output with the given arguments; both are started, recorded on the server for __exit__ to join."""
    prop = 'C11'
    file = FV
    qual = '_enter_server'
    variant = 'process input queue'
    in_type = 'process'
    inlined_defs = ()
    canaries = (('gather thread created but never started', '    self._gather_thread.start()', '    pass', ''),
                ('helper threads started before the servlet (a failing servlet start would leave them running)', '    self.servlet.start(self._q_in, self._q_out)\n', '', ''),
                ('requests bypass the onboarding buffer', '        self._input_buffer = queue.SimpleQueue()', '        self._input_buffer = self._q_in', ''))

    def setup(self, ex):
        st = St()
        st.ghost['log'] = ()
        unit = self

        def mkq(kind):
            def f(e, s, a, k, n):
                q = Rec(e, kind)
                q.kind = kind
                s = s.fork()
                s.ghost['log'] = s.ghost['log'] + (('queue', kind, q),)
                return [('ok', s, q)]
            return Fn(f, name=kind)
        ex.globals['_SimpleThreadQueue'] = mkq('thread')
        ex.globals['_SimpleProcessQueue'] = mkq('process')
        ex.globals['queue.SimpleQueue'] = mkq('simple')

        def plain_queue(e, s, a, k, n):
            # queue.Queue(maxsize): unbounded only for maxsize <= 0 / absent; anything else is a BOUNDED buffer whose put can block
            m = k.get('maxsize', a[0] if a else z3.IntVal(0))
            unbounded = z3.is_int_value(m) and m.as_long() <= 0
            return mkq('simple' if unbounded else 'bounded').invoke(e, s, [], {}, n)
        ex.globals['queue.Queue'] = Fn(plain_queue)
        ex.globals['Thread'] = ThreadCtor()

        def isinstance_(e, s, a, k, n):
            q = unbox_handle(e, a[0])
            c = unbox_handle(e, a[1])
            return [('ok', s, z3.BoolVal(getattr(q, 'kind', None) == getattr(c, 'name', None)))]
        ex.globals['isinstance'] = Fn(isinstance_)
        self.start_ok = z3.Bool('servlet_start_ok')

        def start(e, s, a, k, n):
            s = s.fork()
            s.ghost['log'] = s.ghost['log'] + (('servlet.start', [unbox_handle(e, x) for x in a]),)
            s1 = s.fork().assume(self.start_ok)
            exc = fresh('init_error')
            s2 = s.fork().assume(z3.Not(self.start_ok), V.isinst(exc, 'Exception'), *V.cls_facts(exc))
            s2.ghost['start_exc'] = exc
            return [('ok', s1, NONE), ('raise', s2, exc)]
        self.out_type = z3.String('output_queue_type')
        servlet = Rec(ex, 'servlet', immutable=True, methods={'start': Fn(start)}).init(st, input_queue_type=z3.StringVal(self.in_type), output_queue_type=self.out_type)
        self.gather = z3.Const('bound_method_self._gather_output', Val)
        self.gargs = z3.Const('gather_args', Val)
        self.me = Rec(ex, 'self').init(st, servlet=servlet, _gather_output=self.gather, __class__=Rec(ex, 'cls', immutable=True).init(st, __name__=z3.StringVal('Server')))
        st.env.update(self=self.me, gather_args=self.gargs)
        st.assume(z3.Or(self.out_type == z3.StringVal('thread'), self.out_type == z3.StringVal('process')), V.truthy(self.gargs), *[])
        return st

    def on_thread_start(self, ex, st, t, node):
        st.ghost['log'] = st.ghost['log'] + (('thread.start', t),)

    def post(self, ex, outs):
        from pyvc.models import ThreadObj
        for k, s, p in outs:
            log = s.ghost['log']
            kinds = [x[0] for x in log]
            starts = [x for x in log if x[0] == 'servlet.start']
            threads = [x[1] for x in log if x[0] == 'thread.start']
            queues = [x for x in log if x[0] == 'queue']
            if k == 'raise':
                ex.oblige(s, 'exit(raise): only the servlet\'s own start failure, and then NO helper thread was started (nothing to clean up at this level)',
                          z3.And(z3.BoolVal(len(starts) == 1 and not threads and kinds.index('servlet.start') == len(kinds) - 1), p == s.ghost.get('start_exc', NONE)))
                continue
            ok = len(starts) == 1 and len(starts[0][1]) == 2
            qin, qout = (starts[0][1] if ok else (None, None))
            first_thread = kinds.index('thread.start') if 'thread.start' in kinds else len(kinds)
            ok = ok and kinds.index('servlet.start') < first_thread and qin is unbox_handle(ex, self.me.get(s, '_q_in')) and qout is unbox_handle(ex, self.me.get(s, '_q_out'))
            gt = unbox_handle(ex, self.me.get(s, '_gather_thread'))
            ob = unbox_handle(ex, self.me.get(s, '_onboard_thread'))
            ib = unbox_handle(ex, self.me.get(s, '_input_buffer'))
            if self.in_type == 'thread':
                shape = ok and getattr(qin, 'kind', None) == 'thread' and ib is qin and len(threads) == 1 and threads[0] is gt
                onboard = z3.BoolVal(z3.is_expr(ob) and z3.is_true(z3.simplify(ob == NONE)) if z3.is_expr(ob) else False)
            else:
                shape = ok and getattr(qin, 'kind', None) == 'process' and getattr(ib, 'kind', None) == 'simple' and len(threads) == 2 and threads[0] is ob and threads[1] is gt
                onboard = z3.BoolVal(shape and isinstance(ob, ThreadObj) and isinstance(ob.target, Closure) and ob.target.node.name == '_onboard_input')
            ex.oblige(s, 'exit: the servlet was started first, once, on this server\'s own input/output queues of the declared types; then '
                         + ('requests go straight to the thread input queue (no onboarding thread)' if self.in_type == 'thread' else 'the onboarding thread (local _onboard_input) drains an UNBOUNDED buffer into the process input queue (callers put into it while holding the not-full condition: a put that can block would stall every caller, also those with back-pressure or a short timeout [C06])')
                         + '; the gather thread runs self._gather_output(*gather_args); every helper thread created was started and is recorded on the server',
                      z3.And(z3.BoolVal(bool(shape)), onboard, z3.BoolVal(isinstance(gt, ThreadObj)), box(ex, gt.target) == self.gather if isinstance(gt, ThreadObj) else z3.BoolVal(False),
                             box(ex, gt.args) == self.gargs if isinstance(gt, ThreadObj) else z3.BoolVal(False),
                             z3.BoolVal(getattr(qout, 'kind', None) in ('thread', 'process')), (self.out_type == z3.StringVal(getattr(qout, 'kind', '') or ''))))


class EnterServerThreadQ(EnterServer):
    variant = 'thread input queue'
    in_type = 'thread'
    canaries = ()

class ServerEnterUnit(Unit):
    """Server.__enter__ / AsyncServer.__aenter__: every entry makes its OWN not-full condition (and, async, its own empty table of pending notifications) BEFORE the
    helper threads are started by _enter_server -- they read it -- and hands _enter_server this server (async: plus the RUNNING loop, the one the asyncio.Condition
    made here belongs to: a server object entered again under another loop must not wait on a condition bound to the first)."""
    prop = 'C11'
    file = FV
    qual = 'Server.__enter__'
    is_async = False
    canaries = (('condition made after the helper threads were started', '        self._pipeline_notfull = threading.Condition()\n        _enter_server(self)', '        _enter_server(self)\n        self._pipeline_notfull = threading.Condition()', ''),)

    def setup(self, ex):
        st = St()
        self.me = Rec(ex, 'self')
        self.old_cond = Rec(ex, 'condition of an earlier entry', immutable=True)
        self.me.init(st, _pipeline_notfull=self.old_cond)         # whatever an earlier entry (or the constructor) left there
        st.env['self'] = self.me
        st.ghost['log'] = ()
        unit = self

        def cond(e, s, a, k, n):
            c = Rec(e, 'fresh condition', immutable=True)
            s = s.fork()
            s.ghost['log'] = s.ghost['log'] + (('cond', c),)
            return [('ok', s, c)]

        def enter(e, s, a, k, n):
            s = s.fork()
            conds = [x[1] for x in s.ghost['log'] if x[0] == 'cond']
            cur = unit.me.get(s, '_pipeline_notfull')
            notifs = unit.me.get(s, '_pipeline_notfull_notifications') if unit.me.has(s, '_pipeline_notfull_notifications') else None
            extra = unbox_handle(e, a[1]) if len(a) > 1 else None
            s.ghost['log'] = s.ghost['log'] + (('enter', unbox_handle(e, a[0]) is unit.me, any(cur is c for c in conds), notifs, extra),)
            exc = z3.Const('start_error', Val)
            s2 = s.fork().assume(V.isinst(exc, 'BaseException'), *V.cls_facts(exc))
            return [('ok', s, NONE), ('raise', s2, exc)]
        ex.globals['threading'] = Module('threading')
        ex.globals['threading.Condition'] = Fn(cond)
        ex.globals['asyncio'] = Module('asyncio')
        ex.globals['asyncio.Condition'] = Fn(cond)
        self.loop = Rec(ex, 'running loop', immutable=True)
        ex.globals['asyncio.get_running_loop'] = Fn(lambda e, s, a, k, n: [('ok', s, self.loop)])
        ex.globals['_enter_server'] = Fn(enter)
        return st

    def post(self, ex, outs):
        from pyvc.vals import PyTuple
        for k, s, p in outs:
            ent = [x for x in s.ghost['log'] if x[0] == 'enter']
            ok = len(ent) == 1 and ent[0][1] and ent[0][2]
            if ok and self.is_async:
                notifs, extra = ent[0][3], ent[0][4]
                ok = isinstance(notifs, DictVal) and not notifs.items and notifs.pack is None and isinstance(extra, PyTuple) and len(extra.items) == 1 and unbox_handle(ex, extra.items[0]) is self.loop
            elif ok:
                ok = ent[0][4] is None
            ex.oblige(s, 'exit: _enter_server(self' + (', (running loop,)' if self.is_async else '') + ') is called exactly once, and at that moment self._pipeline_notfull is a condition created by THIS entry'
                         + (' (so it belongs to the running loop) and the table of pending notifications is a new empty dict' if self.is_async else ''), z3.BoolVal(bool(ok)))
            if k in ('normal', 'return'):
                ex.oblige(s, 'exit: returns the server itself', z3.BoolVal(unbox_handle(ex, p) is self.me))
            else:
                ex.oblige(s, 'exit(raise): only what _enter_server raised (nothing else was started: unit _enter_server)', p == z3.Const('start_error', Val))


class AServerEnterUnit(ServerEnterUnit):
    qual = 'AsyncServer.__aenter__'
    is_async = True
    canaries = (('condition kept from an earlier entry (another event loop)', '        self._pipeline_notfull = asyncio.Condition()\n', '', ''),
                ('pending notifications of an earlier entry kept', '        self._pipeline_notfull_notifications = {}\n', '', ''))


class StopProtocolLemma(LemmaUnit):
    """"Stops completely", last step: once the reader of an output queue (the gather thread; a next stage's worker) has STOPPED at the first end marker, no writer of that
    queue may be left with something to write that can block.  From the component contracts: the reader stops at the first marker (gather / worker loops); every worker
    writes its own marker after its own results (worker loops; a batching worker's collector thread does not write the marker to the output queue -- unit
    _build_input_batches, repaired by 716f1f6); a put on a thread queue never blocks, a put on a pipe-backed process queue blocks while more than the pipe's
    buffer is unread.  With ONE writer nothing is left after the marker.  With several writer processes, results of the slower ones may follow the first marker; when they
    exceed the pipe's buffer the writer blocks forever and stop() joins it forever.  The second lemma FAILS: recorded in KNOWN_FINDINGS.txt (reproduced by
    replay/scenarios/c11_exit_pending_large_results.py several-workers); results only follow the marker for requests nobody waits for any more (abandoned stream, timed out)."""
    prop = 'C11'
    qual = 'lemma(C11 stop protocol)'

    def lemmas(self):
        writers, left, cap = z3.Ints('writers bytes_written_after_the_first_end_marker pipe_buffer')
        pipe = z3.Bool('queue_is_pipe_backed')
        base = [writers >= 1, left >= 0, cap > 0,
                # each writer: own results, then own marker -- so a sole writer has nothing left once its marker is out
                z3.Implies(writers == 1, left == 0)]
        blocked = z3.And(pipe, left > cap)
        yield ('a single writer (one worker, batching or not), or any thread-queue stage: nothing can block after the reader stopped at the end marker',
               base + [z3.Or(writers == 1, z3.Not(pipe))], z3.Not(blocked))
        yield ('several worker processes writing to a pipe-backed queue: no writer is left blocked after the reader stopped at the first end marker',
               base + [pipe, writers >= 2], z3.Not(blocked))



# ================================================================ _reset of the compound servlets (what start()/stop() rely on when the same servlet object is used again)
class EnsembleReset(Unit):
    """EnsembleServlet._reset: after it, nothing of an earlier run is left -- input/output queue references are None, the per-member queue lists, the
    thread list and the table of partial results are NEW EMPTY containers (start() appends to the lists: a list kept from an earlier run would wire
    the new members to the old queues as well; a kept table would merge an old request's partial results into a new request with a recycled id)."""
    prop = 'C11'
    file = 'mpserver/_servlet.py'
    qual = 'EnsembleServlet._reset'
    none_fields = ('_qin', '_qout')
    list_fields = ('_qins', '_qouts', '_threads')
    dict_fields = ('_uid_to_results',)
    canaries = (('per-member input queues kept from the earlier run', '        self._qins = []\n        self._qouts = []', '        self._qouts = []', ''),
                ('table of partial results kept', '        self._uid_to_results = {}', '        pass', ''),
                ('thread list kept', '        self._threads = []', '        pass', ''))

    def setup(self, ex):
        st = St()
        old = {f: z3.Const('old' + f, Val) for f in self.none_fields + self.dict_fields}
        old.update({f: z3.Const('old' + f, SeqV) for f in self.list_fields})
        for f in self.list_fields:
            st.assume(z3.Length(old[f]) > 0)                  # an earlier run left something in every container
        for f in self.none_fields:
            st.assume(old[f] != NONE)
        self.me = Rec(ex, 'self').init(st, **old)
        st.env['self'] = self.me
        return st

    def post(self, ex, outs):
        for k, s, p in outs:
            if k not in ('normal', 'return'):
                ex.oblige(s, 'exit: _reset does not raise', False)
                continue
            for f in self.none_fields:
                ex.oblige(s, f'exit: {f} is None', box(ex, self.me.get(s, f)) == NONE)
            for f in self.list_fields:
                v = self.me.get(s, f)
                ex.oblige(s, f'exit: {f} is an empty list', v == V.EMPTY if z3.is_expr(v) and v.sort() == SeqV else z3.BoolVal(False))
            for f in self.dict_fields:
                v = self.me.get(s, f)
                ex.oblige(s, f'exit: {f} is a new empty dict', z3.BoolVal(isinstance(v, DictVal) and not v.items and v.pack is None))


class SwitchReset(EnsembleReset):
    """SwitchServlet._reset: queue references and the feeder thread are None, the per-member input queue list is a new empty list."""
    qual = 'SwitchServlet._reset'
    none_fields = ('_qin', '_qout', '_thread_enqueue')
    list_fields = ('_qins',)
    dict_fields = ()
    canaries = (('per-member input queues kept from the earlier run', '        self._qins = []\n        self._thread_enqueue = None', '        self._thread_enqueue = None', ''),)


UNITS_RESET = [EnsembleReset, SwitchReset]

from contracts.ctors import SERVLET_CTORS      # noqa: E402
UNITS = list(SERVLET_CTORS) + UNITS_RESET + [EnterServer, EnterServerThreadQ, SimpleStart, ThreadStart, SimpleStop, ThreadStop, CompoundStart, EnsembleStart, SwitchStart, CompoundStop, SwitchStop, SequentialStop,
         ServerExit, ServerExitThreadQ, AServerExit, OnboardUnit, WorkerRun, ServerEnterUnit, AServerEnterUnit, StopProtocolLemma]
# stopping completely: the end marker travels input queue -> every worker loop (ends on it and passes it on; Worker.start re-broadcasts it for its siblings) -> output queue -> gather thread (ends on it)
from contracts.worker import UNITS_SINGLE, UNITS_BATCH      # noqa: E402
from contracts.servlet import UNITS_FORWARD, UNITS_DEQUEUE      # noqa: E402
from contracts.server import GatherUnit, AGatherUnit      # noqa: E402
UNITS += [u for u in list(UNITS_SINGLE) + list(UNITS_BATCH) + list(UNITS_FORWARD) + list(UNITS_DEQUEUE) + [GatherUnit, AGatherUnit] if u not in UNITS]
# "all worker and helper threads gone": ProcessServlet.stop / the clean-up of a failed start JOIN each worker process, and SpawnProcess.join is what waits for that
# process's helper threads (result collector -> logger thread): units of C12.  "after failed requests": an error value travelling through the stages is wrapped again
# by every worker loop (RemoteException(x)); that constructor must not fail on what an upstream stage -- an ensemble, across a process boundary -- delivers: units of C15
from contracts.c12 import ProcJoin, ProcJoinTimeout, CollectResult      # noqa: E402
from contracts.c15 import ReInit, ReInitEnsemble, EnsembleInit, EnsembleReduce, ReReduce, RebuildUnit      # noqa: E402
UNITS += [ProcJoin, ProcJoinTimeout, CollectResult, ReInit, ReInitEnsemble, EnsembleInit, EnsembleReduce, ReReduce, RebuildUnit]
SCENARIOS = [('', 'replay/scenarios/c11_init_failure_cleanup.py'), ('', 'replay/scenarios/c11_abandoned_stream_exit.py'), ('', 'replay/scenarios/c11_exit_pending_large_results.py', ('controls',)), ('', 'replay/scenarios/c11_exit_pending_large_results.py', ('batch-worker',)), ('', 'replay/scenarios/c11_exit_after_failures.py')]
# reproduction of the known finding (expected to FAIL while the finding stands; run in the thorough tier and reported in the evidence, never a violation)
FINDING_SCENARIOS = [('no writer is left blocked', 'replay/scenarios/c11_exit_pending_large_results.py', ('several-workers',), 120)]
