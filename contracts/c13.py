"""C13 — hosted objects live exactly as long as some proxy (or a pickle in transit) refers to them.

Effect contracts on every function that touches the server-side reference count: each proves the exact multiset of
incref/decref messages it causes for its own ident (and the finalizer it registers); a lemma over these effects gives the
invariant  refcount(ident) == #live proxies + #pickles in transit,  never transiently 0 while a reference exists.
stdlib parts (managers.BaseProxy.__init__, managers.Server.decref, util.Finalize, dispatch) are assumed contracts."""
import ast
import z3

from pyvc import vals as V
from pyvc.vals import Val, NONE, fresh, PyTuple
from pyvc.unit import Unit, LoopSpec, LemmaUnit
from pyvc.models import Rec, Fn, Nop, Lock, SharedMap, Absent
from pyvc.core import St, box, Unsupported, Obj, unbox_handle, StarPack, KwPack, ExcClass, DictVal

F = 'multiprocessing/server_process.py'
S = z3.StringVal
hexid = z3.Function('hex_id', Val, Val)                   # '%x' % id(obj)
proxy_of = z3.Function('proxy_for', Val, Val, Val)        # the proxy _make_proxy(typeid, ..., ident) returns
public_methods = z3.Function('public_methods', Val, Val)
setof = z3.Function('set', Val, Val)
tupleof = z3.Function('tuple', Val, Val)

ASSUMPTIONS = (
    'stdlib managers.BaseProxy.__init__(..., incref=True) calls self._incref() exactly once (and not at all with incref=False) (managers.py:755-797)',
    'dropping the id_to_obj entry drops the server\'s only reference to the hosted object (the tuple popped in Server.decref is released when the function returns, outside the mutex)',
    'util.Finalize(obj, f, args, exitpriority): f(*args) is called exactly once: when obj is garbage collected, when called explicitly, or at process exit (exitpriority not None)',
    'stdlib dispatch(conn, None, name, args) delivers one request to the server, which runs Server.<name>(conn, *args) once',
    'CPython drops an object when its last reference goes (the hosted MemoryBlock is referenced only by id_to_obj and by in-flight method calls)',
    'a pickle is unpickled at most once ("deserialize it once" in the property); a pickle that is never unpickled keeps the object alive (by design: the count taken in __reduce__ is never given back)',
    'rely of the interference variants: other server threads preserve G (a counted object is registered) and give back only references of their own (each proved for its own function: units Server.create/incref/decref)',
)
NOT_DECIDED = ('a proxy pickled and never unpickled (leak by design, outside the property\'s "deserialize it once")', 'abrupt death of a client process (its finalizers never run: stdlib behaviour)',
               )


def ev(s, *what):
    s.ghost['ev'] = s.ghost['ev'] + (tuple(what),)


class ServerCreate(Unit):
    """Server.create for a registry entry without callable (the back end of managed()): the hosted object IS the argument."""
    prop = 'C13'
    file = F
    qual = 'Server.create'
    variant = 'no callable (managed value)'
    with_callable = False
    nargs = 1
    unreachable_ok = ('raise TypeError(', 'exposed = list(exposed) + list(method_to_typeid)', 'if not isinstance(method_to_typeid, dict)')
    numeric_vals_are_ints = True
    interference = False
    canaries = (('re-wrapping a hosted value resets its reference count', "self.id_to_refcount[ident] = self.id_to_refcount.get(ident, 0) + 1", "self.id_to_refcount[ident] = 1", 'plus one'),
                ('the reservation is never given back', "        finally:\n            self.decref(c, ident)", "        finally:\n            pass", 'plus one'),
                ('a copy is hosted instead of the value itself', 'obj = args[0]', 'obj = list(args[0])', ''),
                ('object registered under the id of the argument tuple', "ident = '%x' % id(obj)", "ident = '%x' % id(args)", ''))

    def setup(self, ex):
        st = St()
        self.arg = z3.Const('arg0', Val)
        self.typeid, self.proxytype = z3.Const('typeid', Val), z3.Const('proxytype', Val)
        self.made = z3.Const('constructed_obj', Val)
        self.mutex = Lock(ex, 'mutex')
        self.mutex.init(st)
        self.objs = SharedMap(ex, 'id_to_obj').init(st, z3.Const('id_to_obj0', z3.ArraySort(Val, Val)), z3.Int('nobj0'))
        self.rc = SharedMap(ex, 'id_to_refcount').init(st, z3.Const('refcount0', z3.ArraySort(Val, Val)), z3.Int('nrc0'))
        self.rc0 = self.rc.arr(st)
        self.objs0 = self.objs.arr(st)
        st.ghost['ev'] = ()
        unit = self

        def ctor(e, s, a, k, n):
            s = s.fork()
            ev(s, 'construct', tuple(box(e, x) for x in a))
            exc = fresh('ctor_exc')
            s2 = s.fork().assume(V.isinst(exc, 'Exception'), *V.cls_facts(exc))
            return [('ok', s, unit.made), ('raise', s2, exc)]

        class Registry(Obj):
            def getitem(self, e, s, idx, node):
                e.oblige(s, f'line {node.lineno}: the registry is read under the requested typeid', box(e, idx) == unit.typeid)
                return [('ok', s, PyTuple([Fn(ctor) if unit.with_callable else NONE, NONE, getattr(unit, 'mtt', NONE), unit.proxytype]))]

        def make_proxy(e, s, a, k, n):
            # contract of Server._make_proxy + BaseProxy.__init__ + _incref (units below): one proxy for this ident, one incref (in its own critical section)
            s = s.fork()
            ident = box(e, a[2])
            e.oblige(s, f'line {n.lineno}: the proxy is made outside the mutex (its constructor takes the mutex to increment)', unit.mutex.held(s) == 0)
            unit.apply_interference(s)
            e.oblige(s, f'line {n.lineno}: when the new proxy increments, the object is still registered and counted -- whatever other threads did since the mutex was released (it is held by this call\'s own reservation)',
                     z3.And(z3.Select(unit.objs.arr(s), ident) != Absent, z3.Select(unit.rc.arr(s), ident) != Absent))
            cur = z3.Select(unit.rc.arr(s), ident)
            unit.rc.set(s, 'arr', z3.Store(unit.rc.arr(s), ident, V.intv(V.ival(cur) + 1)))
            s.ghost['own'] = s.ghost['own'] + 1
            ev(s, 'make_proxy', box(e, a[0]), box(e, a[1]), ident, box(e, a[3]))
            exc = fresh('proxy_ctor_exc')
            s2 = s.fork().assume(V.isinst(exc, 'Exception'), *V.cls_facts(exc))       # the proxy type's constructor may fail: then no reference was taken
            s2.ghost['own'] = s2.ghost['own'] - 1
            unit.rc.set(s2, 'arr', z3.Store(unit.rc.arr(s2), ident, cur))
            return [('ok', s, proxy_of(box(e, a[0]), ident)), ('raise', s2, exc)]

        def decref(e, s, a, k, n):
            # contract of Server.decref (unit below): one decrement; at 0 count and registration go together
            s = s.fork()
            ident = box(e, a[1])
            e.oblige(s, f'line {n.lineno}: the reservation is given back outside the mutex', unit.mutex.held(s) == 0)
            unit.apply_interference(s)
            cur = z3.Select(unit.rc.arr(s), ident)
            e.oblige(s, f'line {n.lineno}: the reservation being given back is still counted', z3.And(cur != Absent, V.ival(cur) >= 1, s.ghost['own'] >= 1))
            last = V.ival(cur) == 1
            unit.rc.set(s, 'arr', z3.If(last, z3.Store(unit.rc.arr(s), ident, Absent), z3.Store(unit.rc.arr(s), ident, V.intv(V.ival(cur) - 1))))
            unit.objs.set(s, 'arr', z3.If(last, z3.Store(unit.objs.arr(s), ident, Absent), unit.objs.arr(s)))
            s.ghost['own'] = s.ghost['own'] - 1
            ev(s, 'decref', ident)
            return [('ok', s, NONE)]
        me = Rec(ex, 'self', immutable=True, methods={'_make_proxy': Fn(make_proxy), 'decref': Fn(decref)})
        me.init(st, mutex=self.mutex, registry=Registry(ex, 'registry'), id_to_obj=self.objs, id_to_refcount=self.rc)
        st.env.update(self=me, c=z3.Const('c', Val), typeid=self.typeid, args=PyTuple([self.arg] + [z3.Const(f'arg{i}', Val) for i in range(1, self.nargs)]), kwds=DictVal())
        ex.globals['public_methods'] = Fn(lambda e, s, a, k, n: [('ok', s, public_methods(box(e, a[0])))])
        ex.globals['set'] = Fn(lambda e, s, a, k, n: [('ok', s, setof(box(e, a[0])))])
        ex.globals['tuple'] = Fn(lambda e, s, a, k, n: [('ok', s, tupleof(box(e, a[0])))])
        # refcounts are ints; a hosted ident has an entry in both maps or (transiently, inside stdlib decref) none -- precondition: both or none
        i0 = hexid(self.arg if not self.with_callable else self.made)
        r0 = z3.Select(self.rc0, i0)
        st.assume(z3.Or(r0 == Absent, z3.And(V.is_intv(r0), V.ival(r0) >= 1)), Absent != NONE, z3.Not(V.is_intv(Absent)), z3.Not(V.is_tup(Absent)))     # a count that is present is >= 1
        st.assume(z3.Implies(r0 != Absent, z3.Select(self.objs0, i0) != Absent))       # G holds on entry
        st.ghost['own'] = z3.IntVal(0)          # references to the object held by THIS call (reservation, then the new proxy)
        self.i0 = i0
        self.c = st.env['c']
        return st

    # ---- interference (only in the `under interference` variant): other server threads run whenever the mutex is free.  Rely: they preserve
    # G (a counted object is registered) and give back only references of their own -- so while this call holds `own` >= 1 references, the
    # count stays >= own and the registration stays.
    def apply_interference(self, st):
        if not self.interference:
            return
        own = st.ghost['own']
        old_entry = z3.Select(self.objs.arr(st), self.i0)
        self.rc.set(st, 'arr', fresh('refcount_interf', z3.ArraySort(Val, Val)))
        self.objs.set(st, 'arr', fresh('id_to_obj_interf', z3.ArraySort(Val, Val)))
        r = z3.Select(self.rc.arr(st), self.i0)
        st.assume(z3.Or(r == Absent, z3.And(V.is_intv(r), V.ival(r) >= 1)),
                  z3.Implies(r != Absent, z3.Select(self.objs.arr(st), self.i0) != Absent),                 # G
                  z3.Implies(own >= 1, z3.And(r != Absent, V.ival(r) >= own, z3.Select(self.objs.arr(st), self.i0) == old_entry)))

    def interfere(self, ex, st, m, node):
        if self.interference and not z3.is_true(z3.simplify(self.mutex.held(st) > 0)):
            self.apply_interference(st)

    def on_acquire(self, ex, st, lock, node):
        self.apply_interference(st)
        st.ghost['#rc_at_acquire'] = self.rc.arr(st)

    def on_release(self, ex, st, lock, node):
        r = z3.Select(self.rc.arr(st), self.i0)
        ex.oblige(st, f'line {node.lineno}: invariant G when the mutex is released: a counted object is registered', z3.Implies(r != Absent, z3.Select(self.objs.arr(st), self.i0) != Absent))

    def after_map_write(self, ex, st, m, kind, k, v, node):
        ex.oblige(st, f'line {node.lineno}: both server maps are written under the mutex', self.mutex.held(st) > 0)
        if m is self.rc and kind == 'set':
            # the reservation: this call now holds (new count) - (count when the mutex was taken; 0 if absent) references
            old = z3.Select(st.ghost['#rc_at_acquire'], k)
            st.ghost['own'] = st.ghost['own'] + V.ival(v) - z3.If(old == Absent, 0, V.ival(old))

    def on_binop(self, ex, st, op, a, b, node):
        if isinstance(op, ast.Mod) and z3.is_string_value(a) and a.as_string() == '%x':
            # '%x' % id(obj)
            if z3.is_app(b) and b.decl().name() == 'py_id':
                return [('ok', st, hexid(b.arg(0)))]
        return None

    def post(self, ex, outs):
        for k, s, p in outs:
            events = s.ghost['ev']
            obj = self.made if self.with_callable else self.arg
            ident = hexid(obj)
            other = z3.Const('other_ident', Val)
            if k in ('normal', 'return'):
                old = z3.Select(self.rc0, ident)
                entry = z3.Select(self.objs.arr(s), ident)
                mk = [e_ for e_ in events if e_[0] == 'make_proxy']
                ex.oblige(s, 'exit: the hosted object is ' + ('the object the registered callable returned' if self.with_callable else 'the argument itself (not a copy)') +
                          ', registered under hex(id(object)); its reference count is the previous count (0 if it was not hosted) plus one for the returned proxy; every other ident is untouched',
                          z3.And(V.is_tup(entry), V.items(entry)[0] == obj, z3.Length(V.items(entry)) == 3,
                                 z3.Select(self.rc.arr(s), ident) == V.intv(z3.If(old == Absent, 0, V.ival(old)) + 1),
                                 z3.Implies(other != ident, z3.And(z3.Select(self.rc.arr(s), other) == z3.Select(self.rc0, other), z3.Select(self.objs.arr(s), other) == z3.Select(self.objs0, other))),
                                 z3.BoolVal(len(mk) == 1), (z3.And(mk[0][1] == self.typeid, mk[0][2] == self.proxytype, mk[0][3] == ident, box(ex, p) == proxy_of(self.typeid, ident)) if len(mk) == 1 else z3.BoolVal(False)),
                                 self.mutex.held(s) == 0, s.ghost['own'] == 1))
                # [C14] the proxy is made for THIS object's methods: its public methods, plus -- when the registration names them -- the methods of method_to_typeid
                if len(mk) == 1:
                    want = public_methods(obj)
                    mtt = getattr(self, 'mtt', None)
                    if mtt is not None:
                        want = V.lst(z3.Concat(z3.Function('list_elems', Val, V.SeqV)(want), z3.Function('list_elems', Val, V.SeqV)(mtt)))
                    ex.oblige(s, 'exit: [C14] the proxy is made for this object\'s own public methods' + (' plus the methods named by method_to_typeid' if mtt is not None else '') + ' (and the same set is recorded with the hosted object)',
                              z3.And(mk[0][4] == tupleof(want), V.items(entry)[1] == setof(want)))
            else:
                ex.oblige(s, 'exit(raise): no count changed for good (the callable / the proxy constructor failed, or bad arguments): this call holds no reference, every other ident untouched; mutex released',
                          z3.And(z3.Implies(other != ident, z3.And(z3.Select(self.rc.arr(s), other) == z3.Select(self.rc0, other), z3.Select(self.objs.arr(s), other) == z3.Select(self.objs0, other))),
                                 self.mutex.held(s) == 0, s.ghost['own'] == 0, z3.Select(self.rc.arr(s), ident) == z3.Select(self.rc0, ident)))


class ServerCreateInterference(ServerCreate):
    """The same function with other server threads running whenever the mutex is free (last decref of the same value included)."""
    variant = 'no callable, under interference'
    interference = True
    canaries = (('no reservation: the count is only initialised', "self.id_to_refcount[ident] = self.id_to_refcount.get(ident, 0) + 1", "self.id_to_refcount[ident] = self.id_to_refcount.get(ident, 0)", 'still registered and counted'),)

    def post(self, ex, outs):
        obj = self.arg
        ident = hexid(obj)
        for k, s, p in outs:
            r = z3.Select(self.rc.arr(s), ident)
            if k in ('normal', 'return'):
                ex.oblige(s, 'exit: this call ends holding exactly one reference (the returned proxy\'s); the object is registered and counted, whatever other threads did meanwhile',
                          z3.And(s.ghost['own'] == 1, r != Absent, V.ival(r) >= 1, z3.Select(self.objs.arr(s), ident) != Absent, self.mutex.held(s) == 0))
            else:
                ex.oblige(s, 'exit(raise): this call holds no reference; mutex released', z3.And(s.ghost['own'] == 0, self.mutex.held(s) == 0))


class ServerCreateBadArgs(ServerCreate):
    variant = 'no callable, wrong number of arguments'
    nargs = 2
    canaries = ()


class ServerCreateTyped(ServerCreate):
    variant = 'no callable, method_to_typeid given'
    mtt = z3.Const('method_to_typeid', Val)
    unreachable_ok = ('raise TypeError(',)
    canaries = ()

    def setup(self, ex):
        st = super().setup(ex)
        st.assume(V.isinst(self.mtt, 'dict'), self.mtt != NONE)
        lst = z3.Function('list_elems', Val, V.SeqV)       # list(x): a z3 sequence, so that `+` is concatenation
        ex.globals['list'] = Fn(lambda e, s, a, k, n: [('ok', s, lst(box(e, a[0])))])
        return st


class ServerCreateCallable(ServerCreate):
    variant = 'registered callable'
    with_callable = True
    unreachable_ok = ServerCreate.unreachable_ok + ('raise ValueError(', 'obj = args[0]', 'if kwds or len(args) != 1')
    canaries = (('constructor called without the request arguments', 'obj = callable(*args, **kwds)', 'obj = callable()', ''),)

    def post(self, ex, outs):
        super().post(ex, outs)
        for k, s, p in outs:
            c = [e_ for e_ in s.ghost['ev'] if e_[0] == 'construct']
            ex.oblige(s, 'exit: the registered callable is called exactly once with the request\'s arguments', z3.And(z3.BoolVal(len(c) == 1 and len(c[0][1]) == 1), c[0][1][0] == self.arg) if len(c) == 1 and len(c[0][1]) == 1 else z3.BoolVal(False))


class MakeProxy(Unit):
    """Server._make_proxy: exactly one proxy object is constructed, for Token(typeid, own address, ident), with the constructor's
    default incref (True) -- so the constructor increments exactly once (assumed stdlib contract + unit BaseProxy._incref)."""
    prop = 'C13'
    file = F
    qual = 'Server._make_proxy'
    variant = 'BaseProxy subclass'
    kind = 'class'
    unreachable_ok = ()
    canaries = (('proxy constructed without taking a reference', '                    authkey=self.authkey,\n                )\n            else:', '                    authkey=self.authkey,\n                    incref=False,\n                )\n            else:', ''),
                ('token names another object', 'token = Token(typeid, self.address, ident)', 'token = Token(typeid, self.address, typeid)', ''))

    def setup(self, ex):
        st = St()
        self.typeid, self.ident, self.exposed = z3.Const('typeid', Val), z3.Const('ident', Val), z3.Const('exposed', Val)
        self.address, self.serializer, self.authkey = z3.Const('address', Val), z3.Const('serializer', Val), z3.Const('authkey', Val)
        st.ghost['ev'] = ()
        token = z3.Function('Token', Val, Val, Val, Val)
        self.token = token(self.typeid, self.address, self.ident)
        self.proxy = z3.Const('new_proxy', Val)

        def ptype(e, s, a, k, n):
            s = s.fork()
            ev(s, 'construct', tuple(box(e, x) for x in a), {kk: box(e, v) for kk, v in k.items()})
            return [('ok', s, self.proxy)]
        self.ptype = Fn(ptype)
        mem = Rec(ex, 'mem', immutable=True).init(st, name=z3.Const('mem_name', Val), size=z3.Const('mem_size', Val))

        class IdToObj(Obj):
            def getitem(self_, e, s, idx, node):
                return [('ok', s, PyTuple([mem, NONE, NONE]))]
        me = Rec(ex, 'self', immutable=True).init(st, address=self.address, serializer=self.serializer, authkey=self.authkey, id_to_obj=IdToObj(ex, 'id_to_obj'))
        st.env.update(self=me, typeid=self.typeid, proxytype=self.ptype, ident=self.ident, exposed=self.exposed)
        ex.globals['Token'] = Fn(lambda e, s, a, k, n: [('ok', s, token(*[box(e, x) for x in a]))])

        def issubclass_(e, s, a, k, n):
            if self.kind == 'class':
                return [('ok', s, z3.BoolVal(True))]
            return [e.raise_new(s, 'TypeError')]        # AutoProxy is a function: issubclass raises TypeError
        ex.globals['issubclass'] = Fn(issubclass_)
        ex.globals['BaseProxy'] = z3.Const('BaseProxy', Val)
        if self.kind == 'memory':
            st.assume(self.typeid == V.strv(S('ManagedMemoryBlock')))
        else:
            st.assume(self.typeid != V.strv(S('ManagedMemoryBlock')))
        return st

    def post(self, ex, outs):
        for k, s, p in outs:
            c = [e_ for e_ in s.ghost['ev'] if e_[0] == 'construct']
            if k not in ('normal', 'return') or len(c) != 1:
                ex.oblige(s, 'exit: exactly one proxy constructed, no exception', False)
                continue
            a, kw = c[0][1], c[0][2]
            ex.oblige(s, 'exit: exactly one proxy is constructed, for Token(typeid, this server\'s address, ident), taking its reference (incref not disabled), and returned',
                      z3.And(z3.BoolVal(len(a) >= 1 and 'incref' not in kw and 'manager_owned' not in kw), a[0] == self.token, box(ex, p) == self.proxy,
                             kw.get('authkey', NONE) == self.authkey, (a[1] if len(a) > 1 else kw.get('serializer', NONE)) == self.serializer))


class MakeProxyAuto(MakeProxy):
    variant = 'AutoProxy'
    kind = 'function'
    canaries = ()


class MakeProxyMemory(MakeProxy):
    variant = 'MemoryBlock'
    kind = 'memory'
    canaries = ()


class ServerIncref(Unit):
    prop = 'C13'
    file = F
    qual = 'Server.incref'
    canaries = (('count incremented outside the mutex', '        with self.mutex:\n            self.id_to_refcount[ident] += 1', '        self.id_to_refcount[ident] += 1', 'under the mutex'),)

    def setup(self, ex):
        st = St()
        self.ident = z3.Const('ident', Val)
        self.mutex = Lock(ex, 'mutex')
        self.mutex.init(st)
        self.rc = SharedMap(ex, 'id_to_refcount').init(st, z3.Const('refcount0', z3.ArraySort(Val, Val)), z3.Int('nrc0'))
        self.rc0 = self.rc.arr(st)
        me = Rec(ex, 'self', immutable=True).init(st, mutex=self.mutex, id_to_refcount=self.rc)
        st.env.update(self=me, c=NONE, ident=self.ident)
        r0 = z3.Select(self.rc0, self.ident)
        st.assume(z3.Or(r0 == Absent, V.is_intv(r0)), z3.Not(V.is_intv(Absent)))
        return st

    numeric_vals_are_ints = True

    def typed(self, st):
        r = z3.Select(self.rc.arr(st), self.ident)
        st.assume(z3.Or(r == Absent, V.is_intv(r)))

    def interfere(self, ex, st, m, node):
        # other server threads change the map only under the mutex
        if not z3.is_true(z3.simplify(self.mutex.held(st) > 0)):
            m.set(st, 'arr', fresh('refcount_after_interference', z3.ArraySort(Val, Val)))
            self.typed(st)

    def on_acquire(self, ex, st, lock, node):
        self.rc.set(st, 'arr', fresh('refcount_at_acquire', z3.ArraySort(Val, Val)))
        self.typed(st)
        st.ghost['#at_acquire'] = self.rc.arr(st)

    def after_map_write(self, ex, st, m, kind, k, v, node):
        ex.oblige(st, f'line {node.lineno}: the count is read and written under the mutex (atomic increment)', self.mutex.held(st) > 0)

    def post(self, ex, outs):
        other = z3.Const('other_ident', Val)
        for k, s, p in outs:
            a0 = s.ghost.get('#at_acquire')
            if k in ('normal', 'return'):
                ex.oblige(s, 'exit: refcount[ident] is its value at the time the mutex was taken plus one, every other entry unchanged; mutex released',
                          z3.And(self.mutex.held(s) == 0, z3.Select(self.rc.arr(s), self.ident) == V.intv(V.ival(z3.Select(a0, self.ident)) + 1),
                                 z3.Implies(other != self.ident, z3.Select(self.rc.arr(s), other) == z3.Select(a0, other))) if a0 is not None else z3.BoolVal(False))
            else:
                ex.oblige(s, 'exit(raise): only KeyError for an ident that is not hosted; nothing changed', z3.And(V.isinst(p, 'KeyError'), self.mutex.held(s) == 0, self.rc.arr(s) == a0) if a0 is not None else z3.BoolVal(False))


STDLIB_MANAGERS = None


def stdlib_managers_path():
    """managers.py of the interpreter that runs the repository (the /venv python), not of the tooling venv"""
    global STDLIB_MANAGERS
    if STDLIB_MANAGERS is None:
        import subprocess
        STDLIB_MANAGERS = subprocess.run(['/venv/bin/python', '-c', 'import multiprocessing.managers as m; print(m.__file__)'], capture_output=True, text=True).stdout.strip()
    return STDLIB_MANAGERS


class ServerDecref(Unit):
    """Server.decref under interference.  Server invariant G, required whenever the mutex is free and after every step made
    without it:  refcount[i] present  ==>  id_to_obj[i] present  (a counted object is registered: every live reference can use
    it).  Other server threads (create via managed(), incref, decref of other idents) run whenever the mutex is free; they
    preserve G themselves (units Server.create / incref / this one).  If the code still delegates to the stdlib's
    Server.decref, that function's real source (managers.py of the /venv interpreter) is inlined and checked the same way:
    its unregistering step runs in a second critical section, after the count was already given up -- G fails there
    (that was the pinned tree: fixed in a496310)."""
    prop = 'C13'
    file = F
    qual = 'Server.decref'
    assert_mode = 'raise'
    numeric_vals_are_ints = True
    ignore_calls = ('util.debug',)
    canaries = (('object unregistered in a later, separate critical section', "                obj = self.id_to_obj.pop(ident)\n", "                obj = None\n                drop = True\n", ''),
                ('count decremented outside the mutex', '        with self.mutex:\n            assert (', '        if True:\n            assert (', 'under the mutex'),
                ('decrement applied to another ident', 'self.id_to_refcount[ident] -= 1', 'self.id_to_refcount[c] -= 1', ''))

    def setup(self, ex):
        st = St()
        self.ident = z3.Const('ident', Val)
        self.other = z3.Const('other_ident', Val)
        self.mutex = Lock(ex, 'mutex')
        self.mutex.init(st)
        self.rc = SharedMap(ex, 'id_to_refcount').init(st, z3.Const('refcount0', z3.ArraySort(Val, Val)), z3.Int('nrc0'))
        self.objs = SharedMap(ex, 'id_to_obj').init(st, z3.Const('id_to_obj0', z3.ArraySort(Val, Val)), z3.Int('nobj0'))
        self.me = Rec(ex, 'self', immutable=True).init(st, mutex=self.mutex, id_to_refcount=self.rc, id_to_obj=self.objs)
        st.env.update(self=self.me, c=z3.Const('c', Val), ident=self.ident)
        st.assume(z3.Not(V.is_intv(Absent)), Absent != NONE)
        self.typed(st)
        st.assume(self.G(st))
        st.ghost['#at_acquire'] = None
        st.ghost['#sections'] = 0
        return st

    def typed(self, st):
        for i in (self.ident, self.other):
            r = z3.Select(self.rc.arr(st), i)
            st.assume(z3.Or(r == Absent, V.is_intv(r)))

    def G(self, st):
        return z3.And([z3.Implies(z3.Select(self.rc.arr(st), i) != Absent, z3.Select(self.objs.arr(st), i) != Absent) for i in (self.ident, self.other)])

    def havoc_shared(self, st, why):
        self.rc.set(st, 'arr', fresh('refcount_' + why, z3.ArraySort(Val, Val)))
        self.objs.set(st, 'arr', fresh('id_to_obj_' + why, z3.ArraySort(Val, Val)))
        self.typed(st)
        st.assume(self.G(st))          # rely: the other threads preserve G

    def interfere(self, ex, st, m, node):
        if not z3.is_true(z3.simplify(self.mutex.held(st) > 0)):
            self.havoc_shared(st, 'interference')

    def on_acquire(self, ex, st, lock, node):
        self.havoc_shared(st, 'at_acquire')
        st.ghost['#at_acquire'] = (self.rc.arr(st), self.objs.arr(st))
        st.ghost['#sections'] = st.ghost['#sections'] + 1

    def on_release(self, ex, st, lock, node):
        ex.oblige(st, f'line {node.lineno}: invariant G when the mutex is released: a counted object is registered (refcount[i] present ==> id_to_obj[i] present)', self.G(st))

    def after_map_write(self, ex, st, m, kind, k, v, node):
        if not z3.is_true(z3.simplify(self.mutex.held(st) > 0)):
            ex.oblige(st, f'line {node.lineno}: invariant G after a step made without the mutex', self.G(st))
        if m is self.rc:
            ex.oblige(st, f'line {node.lineno}: the count is read and written under the mutex', self.mutex.held(st) > 0)

    def on_call(self, ex, st, e, src):
        if src == 'super().decref':
            # the stdlib's Server.decref: its real source, inlined (self bound to the same object)
            import ast as _ast
            from pyvc.core import Closure
            from pyvc.unit import find_function, load_source
            path = stdlib_managers_path()
            fn = find_function(_ast.parse(load_source(path)), 'Server.decref')
            self.assumed_contracts = (f'stdlib {path}::Server.decref inlined from its source',)

            def f(s, ak):
                return ex.inline(s, Closure(fn, ex), [self.me] + list(ak[0]), ak[1], e)
            return ex.bind(ex.evargs(e, st), f)
        if src.endswith('.format'):
            return [('ok', st, fresh('formatted', z3.StringSort()))]
        return None

    def sym_attr_fallback(self):
        pass

    def post(self, ex, outs):
        for k, s, p in outs:
            ex.oblige(s, 'exit: invariant G, mutex released', z3.And(self.G(s), self.mutex.held(s) == 0))
            aa = s.ghost.get('#at_acquire')
            if k in ('normal', 'return'):
                if aa is None:
                    ex.oblige(s, 'exit: the decrement happened in a critical section', False)
                    continue
                rc0, ob0 = aa
                old = z3.Select(rc0, self.ident)
                # effect, relative to the state when the (last) critical section began: one decrement; at 0 both entries go, in that same section
                ex.oblige(s, 'exit: exactly one decrement of this ident, in ONE critical section; when it reaches 0 the count AND the registration are removed in that same section; every other ident untouched',
                          z3.And(z3.BoolVal(s.ghost['#sections'] == 1), old != Absent, V.ival(old) >= 1,
                                 z3.If(V.ival(old) == 1, z3.And(z3.Select(self.rc.arr(s), self.ident) == Absent, z3.Select(self.objs.arr(s), self.ident) == Absent),
                                       z3.And(z3.Select(self.rc.arr(s), self.ident) == V.intv(V.ival(old) - 1), z3.Select(self.objs.arr(s), self.ident) == z3.Select(ob0, self.ident))),
                                 z3.Implies(self.other != self.ident, z3.And(z3.Select(self.rc.arr(s), self.other) == z3.Select(rc0, self.other), z3.Select(self.objs.arr(s), self.other) == z3.Select(ob0, self.other)))))
            else:
                ex.oblige(s, 'exit(raise): only AssertionError (ident without a positive count: already disposed of); nothing changed in that section',
                          z3.And(V.isinst(p, 'AssertionError'), z3.BoolVal(aa is not None), self.rc.arr(s) == aa[0] if aa else z3.BoolVal(False), self.objs.arr(s) == aa[1] if aa else z3.BoolVal(False)))


class ProxyInit(Unit):
    prop = 'C13'
    file = F
    qual = 'BaseProxy.__init__'
    canaries = (('proxy marked manager-owned inside the server (stdlib would then skip the incref)', 'manager_owned=False', 'manager_owned=True', ''),
                ('incref flag not passed through', 'incref=incref,', 'incref=True,', ''))

    def setup(self, ex):
        st = St()
        self.token_addr = z3.Const('token_address', Val)
        self.incref = z3.Bool('incref')
        token = Rec(ex, 'token', immutable=True).init(st, address=self.token_addr)
        self.token = token
        self.me = Rec(ex, 'self')
        st.env.update(self=self.me, token=token, serializer=z3.Const('serializer', Val), authkey=z3.Const('authkey', Val), incref=self.incref)
        st.ghost['ev'] = ()
        self.srv = z3.Function('get_server', Val, Val)
        ex.globals['get_server'] = Fn(lambda e, s, a, k, n: [('ok', s, self.srv(box(e, a[0])))])
        return st

    def on_call(self, ex, st, e, src):
        if src == 'super().__init__':
            def f(s, ak):
                s = s.fork()
                ev(s, 'stdlib-init', list(ak[0]), dict(ak[1]))
                return [('ok', s, NONE)]
            return ex.bind(ex.evargs(e, st), f)
        return None

    def post(self, ex, outs):
        for k, s, p in outs:
            c = [e_ for e_ in s.ghost['ev'] if e_[0] == 'stdlib-init']
            if k not in ('normal', 'return') or len(c) != 1:
                ex.oblige(s, 'exit: one stdlib constructor call, no exception', False)
                continue
            a, kw = c[0][1], c[0][2]
            ok = len(a) == 2 and unbox_handle(ex, a[0]) is self.token
            ex.oblige(s, 'exit: self._server is the server of the token\'s address when running inside it (None otherwise), set BEFORE the stdlib constructor runs (which calls _incref); '
                         'the stdlib constructor gets the same token and the caller\'s incref flag, and is never told the proxy is manager-owned (it would skip the incref)',
                      z3.And(z3.BoolVal(ok), box(ex, self.me.get(s, '_server')) == self.srv(self.token_addr), box(ex, kw.get('incref')) == V.boolv(self.incref),
                             box(ex, kw.get('manager_owned')) == V.boolv(z3.BoolVal(False)), box(ex, kw.get('manager')) == NONE))


class ProxyIncref(Unit):
    prop = 'C13'
    file = F
    qual = 'BaseProxy._incref'
    variant = 'client'
    in_server = False
    canaries = (('finalizer decrements another object', '                self._token,\n                self._authkey,', '                self._id,\n                self._authkey,', ''),
                ('no finalizer at interpreter exit', 'exitpriority=10,', 'exitpriority=None,', ''),
                )

    def setup(self, ex):
        st = St()
        st.ghost['ev'] = ()
        self.tid, self.pid = z3.Const('token_id', Val), z3.Const('proxy_id', Val)
        st.assume(self.tid == self.pid)        # stdlib: self._id = self._token.id
        self.token = Rec(ex, 'token', immutable=True).init(st, id=self.tid)
        self.server = Rec(ex, 'server', immutable=True, methods={'incref': Fn(self.srv_op('incref')), 'decref': Fn(self.srv_op('decref'))}) if self.in_server else NONE

        class IdSet(Obj):
            def m_add(self_, e, s, a, k, n):
                s = s.fork()
                ev(s, 'idset.add', box(e, a[0]))
                return [('ok', s, NONE)]

            def m_discard(self_, e, s, a, k, n):
                s = s.fork()
                ev(s, 'idset.discard', box(e, a[0]))
                return [('ok', s, NONE)]

            def m_remove(self_, e, s, a, k, n):
                s = s.fork()
                ev(s, 'idset.discard', box(e, a[0]))
                return [('ok', s, NONE)]

            def contains(self_, e, s, item):
                # a per-process SET shared by all the proxies of this process: another proxy of the same object may already have removed the id
                return fresh('id_in_idset', z3.BoolSort())

            def truth(self_, e, s):
                return z3.Bool('idset_nonempty_afterwards')
        self.idset = IdSet(ex, 'idset')
        self.tls = Rec(ex, 'tls')
        self.client = Fn(self.open_conn)
        self.authkey = z3.Const('authkey', Val)
        self.me = Rec(ex, 'self', methods={'_dispatch': Fn(self.dispatch_m)})
        self.me.init(st, _server=self.server, _token=self.token, _id=self.pid, _idset=self.idset, _authkey=self.authkey, _tls=self.tls, _Client=self.client)
        st.env['self'] = self.me
        ex.globals['util.Finalize'] = Fn(self.finalize)
        ex.globals['type'] = Fn(lambda e, s, a, k, n: [('ok', s, Rec(e, 'type(self)', immutable=True).init(s, _decref=z3.Const('BaseProxy._decref', Val)))])
        return st

    def srv_op(self, name):
        def f(e, s, a, k, n):
            s = s.fork()
            ev(s, name, box(e, a[1]), 'direct', box(e, a[0]))
            return [('ok', s, NONE)]
        return f

    def dispatch_m(self, e, s, a, k, n):
        # self._dispatch(name): one request `name(self._id)` to the server (unit BaseProxy._dispatch)
        s = s.fork()
        if not z3.is_string_value(a[0]):
            raise Unsupported('dispatch of a symbolic method name')
        ev(s, a[0].as_string(), self.pid, 'dispatch')
        return [('ok', s, NONE)]

    def open_conn(self, e, s, a, k, n):
        return [('ok', s, z3.Const('new_conn', Val))]

    def finalize(self, e, s, a, k, n):
        s = s.fork()
        ev(s, 'Finalize', a, k)
        return [('ok', s, Rec(e, 'finalizer', immutable=True))]

    def post(self, ex, outs):
        for k, s, p in outs:
            events = s.ghost['ev']
            incs = [e_ for e_ in events if e_[0] == 'incref']
            decs = [e_ for e_ in events if e_[0] == 'decref']
            fin = [e_ for e_ in events if e_[0] == 'Finalize']
            adds = [e_ for e_ in events if e_[0] == 'idset.add']
            if k not in ('normal', 'return') or len(fin) != 1 or len(incs) != 1:
                ex.oblige(s, 'exit: exactly one incref and one finalizer, no exception', False)
                continue
            a, kw = fin[0][1], fin[0][2]
            args = unbox_handle(ex, kw.get('args'))
            shape = len(a) == 2 and unbox_handle(ex, a[0]) is self.me and isinstance(args, PyTuple) and len(args.items) == 6
            ex.oblige(s, 'exit: exactly one increment of this proxy\'s ident on the server (directly when inside the server, else by one request), no decrement; exactly one finalizer is registered on '
                         'this proxy, running _decref with this proxy\'s own token (and the same server handle), also at interpreter exit (exitpriority set); the ident is recorded in the process\'s id set',
                      z3.And(z3.BoolVal(shape and len(decs) == 0 and len(adds) == 1 and incs[0][2] == ('direct' if self.in_server else 'dispatch')), incs[0][1] == self.tid,
                             box(ex, a[1]) == z3.Const('BaseProxy._decref', Val), z3.BoolVal(unbox_handle(ex, args.items[0]) is self.token),
                             z3.BoolVal((unbox_handle(ex, args.items[5]) is self.server) if self.in_server else True), box(ex, args.items[5]) == box(ex, self.server),
                             z3.BoolVal(unbox_handle(ex, args.items[3]) is self.idset and unbox_handle(ex, args.items[2]) is self.tls), box(ex, kw.get('exitpriority', NONE)) != NONE, adds[0][1] == self.pid)
                      if shape else z3.BoolVal(False))


class ProxyIncrefInServer(ProxyIncref):
    variant = 'in-server'
    in_server = True
    canaries = (('in-server increment goes to another ident', 'server.incref(None, self._token.id)', 'server.incref(None, self._token)', ''),
                ('increment skipped inside the server', '            server.incref(None, self._token.id)', '            pass', ''))


class ProxyIncrefAfterFork(ProxyIncref):
    """_incref called again on a proxy that already carries a `_close` finalizer attribute: the stdlib's after-fork hook (BaseProxy._after_fork) does this in a
    forked child, whose copy of the proxy must take its OWN reference and register its OWN finalizer (the inherited one belongs to the parent's pid)."""
    variant = 'client, after fork (finalizer attribute inherited)'
    canaries = ()

    def setup(self, ex):
        st = super().setup(ex)
        self.me.set(st, '_close', Rec(ex, 'inherited_finalizer', immutable=True))
        ex.globals['getattr'] = Fn(lambda e, s, a, k, n: e.getattr(s, a[0], a[1].as_string(), n) if z3.is_string_value(a[1]) and unbox_handle(e, a[0]) is self.me and self.me.has(s, a[1].as_string()) else [('ok', s, a[2] if len(a) > 2 else NONE)])
        return st


class ProxyDispatch(Unit):
    prop = 'C13'
    file = F
    qual = 'BaseProxy._dispatch'
    canaries = (('request names the token instead of the id', 'dispatch(conn, None, methodname, (self._id,))', 'dispatch(conn, None, methodname, (self._token,))', ''),)

    def setup(self, ex):
        st = St()
        st.ghost['ev'] = ()
        self.pid, self.addr, self.authkey, self.mname = z3.Const('proxy_id', Val), z3.Const('token_address', Val), z3.Const('authkey', Val), z3.Const('methodname', Val)
        self.conn = z3.Const('new_conn', Val)

        def client(e, s, a, k, n):
            s = s.fork()
            ev(s, 'connect', box(e, a[0]), box(e, k.get('authkey', NONE)))
            return [('ok', s, self.conn)]
        me = Rec(ex, 'self', immutable=True).init(st, _Client=Fn(client), _token=Rec(ex, 'token', immutable=True).init(st, address=self.addr), _authkey=self.authkey, _id=self.pid)
        st.env.update(self=me, methodname=self.mname)

        def dispatch(e, s, a, k, n):
            s = s.fork()
            ev(s, 'dispatch', [box(e, x) for x in a])
            exc = fresh('dispatch_exc')
            s2 = s.fork().assume(V.isinst(exc, 'Exception'), *V.cls_facts(exc))
            return [('ok', s, NONE), ('raise', s2, exc)]
        ex.globals['dispatch'] = Fn(dispatch)
        return st

    def post(self, ex, outs):
        for k, s, p in outs:
            d = [e_ for e_ in s.ghost['ev'] if e_[0] == 'dispatch']
            c = [e_ for e_ in s.ghost['ev'] if e_[0] == 'connect']
            ok = len(d) == 1 and len(c) == 1 and len(d[0][1]) == 4
            ex.oblige(s, 'exit: one request <methodname>(own id) sent on a fresh connection to the token\'s server',
                      z3.And(d[0][1][0] == self.conn, d[0][1][1] == NONE, d[0][1][2] == self.mname, d[0][1][3] == V.tup(V.seq_of([self.pid])), c[0][1] == self.addr, c[0][2] == self.authkey) if ok else z3.BoolVal(False))


class ProxyDecref(ProxyIncref):
    """BaseProxy._decref (the finalizer): exactly one decrement for the token's ident."""
    qual = 'BaseProxy._decref'
    variant = 'client'
    ignore_calls = ('threading.current_thread',)
    canaries = (('finalizer does not decrement', "dispatch(conn, None, 'decref', (token.id,))", "dispatch(conn, None, 'incref', (token.id,)) if False else None", ''),
                ('finalizer decrements the token address instead of the ident', "dispatch(conn, None, 'decref', (token.id,))", "dispatch(conn, None, 'decref', (token.address,))", ''),
                ('closed connection left in the thread-local cache', '            del tls.connection', '            pass', 'thread-local connection invariant'))

    def setup(self, ex):
        st = super().setup(ex)
        del st.env['self']
        self.addr = z3.Const('token_address', Val)
        self.token.set(st, 'address', self.addr)
        self.conn_obj = Rec(ex, 'tls.connection', methods={'close': Fn(lambda e, s, a, k, n: (ev(s := s.fork(), 'conn.close'), [('ok', s, NONE)])[1])})
        st.env.update(token=self.token, authkey=self.authkey, tls=self.tls, idset=self.idset, _Client=Fn(self.client_open), server=self.server)
        self.has_conn = z3.Bool('thread_has_connection')
        ex.globals['hasattr'] = Fn(lambda e, s, a, k, n: [('ok', s, self.has_conn)])
        self.tls.set(st, 'connection', self.conn_obj)

        def dispatch(e, s, a, k, n):
            s = s.fork()
            nm = a[2]
            ev(s, nm.as_string() if z3.is_string_value(nm) else '?', V.items(box(e, a[3]))[0], 'dispatch', box(e, a[0]))
            exc = fresh('dispatch_exc')
            s2 = s.fork().assume(V.isinst(exc, 'Exception'), *V.cls_facts(exc))
            return [('ok', s, NONE), ('raise', s2, exc)]
        ex.globals['dispatch'] = Fn(dispatch)
        return st

    def client_open(self, e, s, a, k, n):
        s = s.fork()
        ev(s, 'connect', box(e, a[0]), box(e, k.get('authkey', NONE)))
        exc = fresh('connect_exc')
        s2 = s.fork().assume(V.isinst(exc, 'Exception'), *V.cls_facts(exc))
        ev(s2, 'connect-failed')
        return [('ok', s, z3.Const('new_conn', Val)), ('raise', s2, exc)]

    def on_call(self, ex, st, e, src):
        return None

    def post(self, ex, outs):
        for k, s, p in outs:
            events = s.ghost['ev']
            incs = [e_ for e_ in events if e_[0] == 'incref']
            decs = [e_ for e_ in events if e_[0] == 'decref']
            conns = [e_ for e_ in events if e_[0] == 'connect']
            disc = [e_ for e_ in events if e_[0] == 'idset.discard']
            if k not in ('normal', 'return'):
                ex.oblige(s, 'exit: the finalizer raises nothing (a failed decref request means the server is gone)', False)
                continue
            if self.in_server:
                g = z3.And(z3.BoolVal(len(decs) == 1 and len(incs) == 0 and decs[0][2] == 'direct'), decs[0][1] == self.tid) if len(decs) == 1 else z3.BoolVal(False)
            else:
                # one decref request, unless the connection to the server could not be made / the request failed (server gone)
                failed = any(e_[0] == 'connect-failed' for e_ in events)
                g = z3.And(z3.BoolVal(len(decs) == (0 if failed else 1) and len(incs) == 0 and len(conns) == 1), conns[0][1] == self.addr, decs[0][1] == self.tid if decs else z3.BoolVal(True)) if len(conns) == 1 else z3.BoolVal(False)
            ex.oblige(s, 'exit: exactly one decrement of the token\'s ident (directly when inside the server; else one request on a fresh connection to the token\'s server -- at most one, none only if that connection failed), '
                         'never an increment; the ident leaves the process\'s id set', z3.And(g, z3.BoolVal(len(disc) == 1), disc[0][1] == self.tid if disc else z3.BoolVal(False)))
            closed = any(e_[0] == 'conn.close' for e_ in events)
            ex.oblige(s, 'exit: [C14] thread-local connection invariant: a connection this finalizer closed is also REMOVED from the thread-local cache -- _callmethod uses a cached '
                         'connection without checking it, so a closed one left behind makes every later call from this thread fail (OSError: handle is closed) instead of reconnecting',
                      z3.BoolVal(not closed or not self.tls.has(s, 'connection')))


class ProxyDecrefInServer(ProxyDecref):
    variant = 'in-server'
    in_server = True
    canaries = (('finalizer decrements twice inside the server', '            server.decref(None, token.id)', '            server.decref(None, token.id)\n            server.decref(None, token.id)', ''),)


class ProxyReduce(ProxyIncref):
    """BaseProxy.__reduce__: one increment on behalf of the pickle in transit, taken BEFORE the pickle exists; the pickle
    rebuilds with RebuildProxy for this proxy's own token."""
    qual = 'BaseProxy.__reduce__'
    variant = 'client'
    canaries = (('pickling does not take a reference', "            dispatch(conn, None, 'incref', (self._id,))", "            pass", ''),
                ('pickle names another token', 'return (RebuildProxy, (type(self), self._token, self._serializer, kwds))', 'return (RebuildProxy, (type(self), self._serializer, self._token, kwds))', ''))

    def setup(self, ex):
        st = super().setup(ex)
        self.me.set(st, '_serializer', z3.Const('serializer', Val))
        self.me.set(st, '_exposed_', z3.Const('exposed', Val))
        self.isauto = z3.Bool('is_auto')
        self.spawning = z3.Bool('spawning_child')
        self.token.set(st, 'address', z3.Const('token_address', Val))
        ex.globals['get_spawning_popen'] = Fn(lambda e, s, a, k, n: [('ok', s, z3.If(self.spawning, V.ref(z3.IntVal(-77)), NONE))])
        ex.globals['getattr'] = Fn(lambda e, s, a, k, n: [('ok', s, self.isauto)])
        ex.globals['bytes'] = Fn(lambda e, s, a, k, n: [('ok', s, box(e, a[0]))])
        ex.globals['RebuildProxy'] = z3.Const('RebuildProxy', Val)
        ex.globals['AutoProxy'] = z3.Const('AutoProxy', Val)
        ex.globals['type'] = Fn(lambda e, s, a, k, n: [('ok', s, z3.Const('type(self)', Val))])

        def dispatch(e, s, a, k, n):
            s = s.fork()
            nm = a[2]
            ev(s, nm.as_string() if z3.is_string_value(nm) else '?', V.items(box(e, a[3]))[0], 'dispatch', box(e, a[0]))
            return [('ok', s, NONE)]
        ex.globals['dispatch'] = Fn(dispatch)
        return st

    def post(self, ex, outs):
        for k, s, p in outs:
            events = s.ghost['ev']
            incs = [e_ for e_ in events if e_[0] == 'incref']
            decs = [e_ for e_ in events if e_[0] == 'decref']
            if k not in ('normal', 'return'):
                ex.oblige(s, 'exit: no exception of its own', False)
                continue
            p = unbox_handle(ex, p)
            shape = isinstance(p, PyTuple) and len(p.items) == 2 and isinstance(unbox_handle(ex, p.items[1]), PyTuple) and len(unbox_handle(ex, p.items[1]).items) == 4
            if not shape or len(incs) != 1:
                ex.oblige(s, 'exit: returns (RebuildProxy, (func, token, serializer, kwds)) after exactly one incref', False)
                continue
            inner = unbox_handle(ex, p.items[1]).items
            kwds = unbox_handle(ex, inner[3])
            ex.oblige(s, 'exit: exactly one increment of this proxy\'s ident (the reference held by the pickle in transit), no decrement; the pickle is (RebuildProxy, (AutoProxy or the proxy\'s own class, '
                         'this proxy\'s own token, its serializer, kwds)) and kwds never disables the rebuild\'s incref',
                      z3.And(z3.BoolVal(len(decs) == 0 and incs[0][2] == ('direct' if self.in_server else 'dispatch')), incs[0][1] == self.tid, box(ex, p.items[0]) == z3.Const('RebuildProxy', Val),
                             z3.BoolVal(unbox_handle(ex, inner[1]) is self.token), box(ex, inner[2]) == z3.Const('serializer', Val),
                             box(ex, inner[0]) == z3.If(self.isauto, z3.Const('AutoProxy', Val), z3.Const('type(self)', Val)),
                             z3.BoolVal(isinstance(kwds, DictVal) and 'incref' not in kwds.items and kwds.pack is None),
                             # an AutoProxy is rebuilt from its method list: the pickle carries this proxy's own (AutoProxy's fall-back -- asking the server again -- is declared unreachable)
                             z3.Implies(self.isauto, box(ex, kwds.items['exposed']) == z3.Const('exposed', Val) if isinstance(kwds, DictVal) and 'exposed' in kwds.items else z3.BoolVal(False))))


class ProxyReduceInServer(ProxyReduce):
    variant = 'in-server'
    in_server = True
    canaries = ()


class Rebuild(Unit):
    """RebuildProxy: the new proxy is constructed first (its constructor increments and registers the finalizer), then the count
    taken by __reduce__ is given back: net effect 0 on the count, +1 live proxy, -1 pickle in transit; never transiently lower."""
    prop = 'C13'
    file = F
    qual = 'RebuildProxy'
    variant = 'client'
    in_server = False
    canaries = (('rebuild skips the incref for inherited proxies (stdlib behaviour) although __reduce__ counted one', "incref = kwds.pop('incref', True)", "incref = kwds.pop('incref', True) and not getattr(process.current_process(), '_inheriting', False)", ''),
                ('rebuilt proxy takes no reference of its own although the pickle\'s is given back', 'obj = func(token, serializer, incref=incref, **kwds)', 'obj = func(token, serializer, incref=False, **kwds)', ''),
                ('compensating decrement dropped', "            obj._dispatch('decref')", "            pass", ''))

    def setup(self, ex):
        st = St()
        st.ghost['ev'] = ()
        self.tid = z3.Const('token_id', Val)
        self.token = Rec(ex, 'token', immutable=True).init(st, id=self.tid)
        self.serializer = z3.Const('serializer', Val)
        self.inherit = z3.Bool('inheriting')
        unit = self

        def srv(name):
            def f(e, s, a, k, n):
                s = s.fork()
                ev(s, name, box(e, a[1]), 'direct')
                return [('ok', s, NONE)]
            return f
        self.server = Rec(ex, 'server', immutable=True, methods={'incref': Fn(srv('incref')), 'decref': Fn(srv('decref'))}) if self.in_server else NONE

        def dispatch_m(e, s, a, k, n):
            s = s.fork()
            ev(s, a[0].as_string() if z3.is_string_value(a[0]) else '?', unit.tid, 'dispatch')
            return [('ok', s, NONE)]
        self.obj = Rec(ex, 'new_proxy', immutable=True, methods={'_dispatch': Fn(dispatch_m)})
        self.obj.init(st, _server=self.server)

        def func(e, s, a, k, n):
            # contract of the proxy constructors (units BaseProxy.__init__, _incref + stdlib): with incref=True one increment + finalizer
            s = s.fork()
            inc = k.get('incref')
            inc = z3.BoolVal(True) if inc is None else inc
            ok = len(a) == 2 and unbox_handle(e, a[0]) is unit.token
            e.oblige(s, f'line {n.lineno}: the proxy is rebuilt for the pickled token and serializer', z3.And(z3.BoolVal(ok), box(e, a[1]) == unit.serializer) if ok else z3.BoolVal(False))
            s.ghost['ctor_incref'] = inc
            s1 = s.fork().assume(inc)
            ev(s1, 'incref', unit.tid, 'ctor')
            ev(s1, 'finalizer')
            s2 = s.fork().assume(z3.Not(inc))
            return [x for x in (('ok', s1, unit.obj), ('ok', s2, unit.obj)) if e.feasible(x[1])]

        class Kwds(Obj):
            def m_pop(self_, e, s, a, k, n):
                if z3.is_string_value(a[0]) and a[0].as_string() == 'incref':
                    return [('ok', s, a[1])]            # __reduce__ never puts 'incref' into kwds (unit BaseProxy.__reduce__)
                raise Unsupported('kwds.pop')

            def as_kwpack(self_, e, s):
                return KwPack(z3.Const('pickled_kwds', Val))
        st.env.update(func=Fn(func), token=self.token, serializer=self.serializer, kwds=Kwds(ex, 'kwds'))
        from pyvc.core import Module
        ex.globals['process'] = Module('process')
        proc = Rec(ex, 'current_process', immutable=True)
        ex.globals['process.current_process'] = Fn(lambda e, s, a, k, n: [('ok', s, proc)])
        ex.globals['current_process'] = ex.globals['process.current_process']
        ex.globals['getattr'] = Fn(lambda e, s, a, k, n: [('ok', s, self.inherit)])
        return st

    def post(self, ex, outs):
        for k, s, p in outs:
            events = s.ghost['ev']
            if k not in ('normal', 'return'):
                ex.oblige(s, 'exit: no exception of its own', False)
                continue
            names = [e_[0] for e_ in events]
            ex.oblige(s, 'exit: the new proxy took its own reference and registered its finalizer BEFORE the pickle\'s reference was given back -- events are exactly [incref, finalizer, decref] for the '
                         'pickled token\'s ident, whether or not the process is "inheriting" (child start-up); the new proxy is returned',
                      z3.And(z3.BoolVal(names == ['incref', 'finalizer', 'decref'] and unbox_handle(ex, p) is self.obj), events[2][1] == self.tid,
                             z3.BoolVal(events[2][2] == ('direct' if self.in_server else 'dispatch'))) if names == ['incref', 'finalizer', 'decref'] else z3.BoolVal(False))


class RebuildInServer(Rebuild):
    variant = 'in-server'
    in_server = True
    canaries = ()


class Managed(Unit):
    prop = 'C13'
    file = F
    qual = 'managed'
    variant = 'typeid given, inside the server'
    in_server = True
    unreachable_ok = ('typeid = type(obj).__name__', 'try:', 'return obj')
    canaries = (('managed() hosts a copy', 'proxy = server.create(None, typeid, obj)', 'proxy = server.create(None, typeid, [obj])', ''),)

    def setup(self, ex):
        st = St()
        st.ghost['ev'] = ()
        self.obj, self.typeid = z3.Const('obj', Val), z3.Const('typeid', Val)
        self.created = z3.Function('server_create', Val, Val, Val)

        def create(e, s, a, k, n):
            s = s.fork()
            ev(s, 'create', [box(e, x) for x in a])
            return [('ok', s, self.created(box(e, a[1]), box(e, a[2])))]
        server = Rec(ex, 'server', immutable=True, methods={'create': Fn(create)}) if self.in_server else NONE
        ex.globals['get_server'] = Fn(lambda e, s, a, k, n: [('ok', s, server)])
        st.env.update(obj=self.obj, typeid=self.typeid)
        if self.in_server:
            st.assume(V.is_strv(self.typeid), z3.Length(V.sval(self.typeid)) > 0)
        return st

    def post(self, ex, outs):
        for k, s, p in outs:
            c = [e_ for e_ in s.ghost['ev'] if e_[0] == 'create']
            if k not in ('normal', 'return'):
                ex.oblige(s, 'exit: no exception of its own', False)
            elif self.in_server:
                ex.oblige(s, 'exit: returns Server.create(None, typeid, obj) for this very object: a proxy to the hosted value (unit Server.create[no callable]: hosted object is the argument itself)',
                          z3.And(z3.BoolVal(len(c) == 1 and len(c[0][1]) == 3), c[0][1][0] == NONE, c[0][1][1] == self.typeid, c[0][1][2] == self.obj, box(ex, p) == self.created(self.typeid, self.obj)) if len(c) == 1 and len(c[0][1]) == 3 else z3.BoolVal(False))
            else:
                ex.oblige(s, 'exit: outside a server process managed() is the identity', z3.And(z3.BoolVal(len(c) == 0), box(ex, p) == self.obj))


class ManagedNoTypeid(Unit):
    """managed(obj) without a typeid, inside the server: the registry entry to use is looked up by the object's class name (falling back to 'Managed<Name>'), made on
    the fly when there is none -- and the registry only ever GROWS: other request threads look entries up and then call Server.create with the typeid they found
    (several managed() calls for one class run concurrently), so an entry that exists at the lookup must still exist at the create.  Never removed, never overwritten."""
    prop = 'C13'
    file = F
    qual = 'managed'
    variant = 'no typeid, inside the server'
    unreachable_ok = ('return obj',)
    canaries = (('the on-the-fly registry entry is removed after use (a concurrent managed() of the same class then fails in Server.create)',
                 '    proxy = server.create(None, typeid, obj)\n', '    proxy = server.create(None, typeid, obj)\n    server.registry.pop(typeid, None)\n', 'never removed'),
                ('an existing registration is overwritten', "            typeid = 'Managed' + typeid.title()\n            try:\n                callable, *_ = server.registry[typeid]\n                if callable is not None:\n                    raise ValueError(",
                 "            typeid = 'Managed' + typeid.title()\n            server.registry[typeid] = (None, None, None, AutoProxy)\n            try:\n                callable, *_ = server.registry[typeid]\n                if callable is not None:\n                    raise ValueError(", ''))

    def setup(self, ex):
        st = St()
        st.ghost['ev'] = ()
        self.obj = z3.Const('obj', Val)
        self.created = z3.Function('server_create', Val, Val, Val)
        self.cls_name = z3.String('class_name')
        self.title = z3.Function('str_title', z3.StringSort(), z3.StringSort())
        unit = self
        present = z3.Function('registry_has', z3.StringSort(), z3.BoolSort())            # at the time of THIS call's look-ups; entries are only ever added by others
        reg_callable = z3.Function('registry_callable', z3.StringSort(), Val)
        reg_proxytype = z3.Function('registry_proxytype', z3.StringSort(), Val)
        self.present, self.reg_callable = present, reg_callable

        class Registry(Obj):
            def havoc(self_, e, s):
                pass

            def getitem(self_, e, s, idx, node):
                key = idx if z3.is_expr(idx) and idx.sort() == z3.StringSort() else V.sval(box(e, idx))
                written = [w for w in s.ghost['ev'] if w[0] == 'set' and w[1].eq(key)]
                ev(s2 := s.fork(), 'get', key)
                if written:
                    return [('ok', s2, written[-1][2])]
                s_in = s2.fork().assume(present(key))
                s_out = s2.fork().assume(z3.Not(present(key)))
                outs = []
                if e.feasible(s_in):
                    outs.append(('ok', s_in, PyTuple([reg_callable(key), fresh('exposed'), fresh('method_to_typeid'), reg_proxytype(key)])))
                if e.feasible(s_out):
                    outs.append(e.raise_new(s_out, 'KeyError'))
                return outs

            def setitem(self_, e, s, idx, v, node):
                key = idx if z3.is_expr(idx) and idx.sort() == z3.StringSort() else V.sval(box(e, idx))
                s = s.fork()
                ev(s, 'set', key, v, present(key))
                return [('ok', s, None)]

            def delitem(self_, e, s, idx, node):
                s = s.fork()
                ev(s, 'remove', idx)
                return [('ok', s, None)]

            def m_pop(self_, e, s, a, k, n):
                s = s.fork()
                ev(s, 'remove', a[0])
                return [('ok', s, NONE)]
            m_popitem = m_clear = m_pop

        def create(e, s, a, k, n):
            s = s.fork()
            ev(s, 'create', [box(e, x) for x in a])
            boom = fresh('create_failure')
            s2 = s.fork().assume(V.isinst(boom, 'Exception'), *V.cls_facts(boom))
            return [('ok', s, self.created(box(e, a[1]), box(e, a[2]))), ('raise', s2, boom)]
        self.registry = Registry(ex, 'server.registry')
        server = Rec(ex, 'server', immutable=True, methods={'create': Fn(create)}).init(st, registry=self.registry)
        ex.globals['get_server'] = Fn(lambda e, s, a, k, n: [('ok', s, server)])
        ex.globals['type'] = Fn(lambda e, s, a, k, n: [('ok', s, Rec(e, 'type(obj)', immutable=True).init(s, __name__=self.cls_name))])
        ex.globals['AutoProxy'] = z3.Const('AutoProxy', Val)
        st.assume(z3.Length(self.cls_name) > 0)
        st.env.update(obj=self.obj, typeid=NONE)
        return st

    def on_call(self, ex, st, e, src):
        if src.endswith('.title') and not e.args:
            return ex.bind(ex.ev(e.func.value, st), lambda s, v: [('ok', s, self.title(v if v.sort() == z3.StringSort() else V.sval(box(ex, v))))])
        return None

    def post(self, ex, outs):
        for k, s, p in outs:
            evs = s.ghost['ev']
            ex.oblige(s, 'exit: the registry only grows: managed() never removes an entry (a concurrent managed() of the same class has looked it up and is about to create with it)',
                      z3.BoolVal(not [e_ for e_ in evs if e_[0] == 'remove']))
            sets = [e_ for e_ in evs if e_[0] == 'set']
            ex.oblige(s, 'exit: at most one entry is added, only under a name found absent (an existing registration is never overwritten), and it hosts the value itself (no callable)',
                      z3.And(z3.BoolVal(len(sets) <= 1), *[z3.And(z3.Not(w[3]), z3.BoolVal(isinstance(unbox_handle(ex, w[2]), PyTuple) and len(unbox_handle(ex, w[2]).items) == 4),
                                                                  box(ex, unbox_handle(ex, w[2]).items[0]) == NONE if isinstance(unbox_handle(ex, w[2]), PyTuple) and len(unbox_handle(ex, w[2]).items) == 4 else z3.BoolVal(False)) for w in sets]))
            c = [e_ for e_ in evs if e_[0] == 'create']
            if len(c) == 1 and len(c[0][1]) == 3:
                # the typeid used to create must HOST THE VALUE ITSELF: its registration has no callable (found so, or added just now) -- with a callable Server.create would
                # construct a NEW object from the value instead of hosting it
                tid = V.sval(c[0][1][1])
                added = [w for w in sets]
                ex.oblige(s, 'create: the typeid handed to Server.create is registered WITHOUT a callable (the value itself is hosted, not something constructed from it)',
                          z3.Or(z3.And(self.present(tid), self.reg_callable(tid) == NONE), *[w[1] == tid for w in added]))
            if k in ('normal', 'return'):
                ok = len(c) == 1 and len(c[0][1]) == 3
                ex.oblige(s, 'exit: returns Server.create(None, <the typeid it settled on>, obj) for this very object, called exactly once',
                          z3.And(c[0][1][0] == NONE, c[0][1][2] == self.obj, box(ex, p) == self.created(c[0][1][1], self.obj)) if ok else z3.BoolVal(False))
            else:
                ex.oblige(s, 'exit(raise): only what Server.create raised, or ValueError when the only candidate registration constructs objects (has a callable)',
                          z3.Or(V.isinst(p, 'ValueError'), z3.BoolVal(len(c) == 1)))


class ManagedOutside(Managed):
    variant = 'outside a server'
    in_server = False
    unreachable_ok = ('if not typeid:', 'proxy = server.create(', 'return proxy')
    canaries = ()


class MemRelease(Unit):
    prop = 'C13'
    file = F
    qual = 'MemoryBlock._release'
    canaries = (('shared memory closed but never unlinked', '            mem.unlink()', '            pass', ''),)

    def setup(self, ex):
        st = St()
        st.ghost['ev'] = ()
        mem = Rec(ex, 'mem', immutable=True, methods={'close': Fn(lambda e, s, a, k, n: (ev(s := s.fork(), 'close'), [('ok', s, NONE)])[1]), 'unlink': Fn(lambda e, s, a, k, n: (ev(s := s.fork(), 'unlink'), [('ok', s, NONE)])[1])})
        st.env['mem'] = mem
        return st

    def post(self, ex, outs):
        for k, s, p in outs:
            ex.oblige(s, 'exit: the shared memory is closed and then unlinked (the /dev/shm entry is removed)', z3.BoolVal(k in ('normal', 'return') and [e_[0] for e_ in s.ghost['ev']] == ['close', 'unlink']))


class MemInit(Unit):
    prop = 'C13'
    file = F
    qual = 'MemoryBlock.__init__'
    canaries = (('finalizer releases nothing', 'args=(self._mem,)', 'args=(None,)', ''),)

    def setup(self, ex):
        st = St()
        st.ghost['ev'] = ()
        self.me = Rec(ex, 'self')
        self.size = z3.Int('size')
        self.mem = z3.Const('shared_memory', Val)
        st.env.update(self=self.me, size=self.size)
        ex.globals['SharedMemory'] = Fn(lambda e, s, a, k, n: (ev(s := s.fork(), 'SharedMemory', dict(k)), [('ok', s, self.mem)])[1])
        ex.globals['util.Finalize'] = Fn(lambda e, s, a, k, n: (ev(s := s.fork(), 'Finalize', a, k), [('ok', s, z3.Const('finalizer', Val))])[1])
        ex.globals['type'] = Fn(lambda e, s, a, k, n: [('ok', s, Rec(e, 'type(self)', immutable=True).init(s, _release=z3.Const('MemoryBlock._release', Val)))])
        return st

    def post(self, ex, outs):
        for k, s, p in outs:
            fin = [e_ for e_ in s.ghost['ev'] if e_[0] == 'Finalize']
            if k not in ('normal', 'return') or len(fin) != 1:
                ex.oblige(s, 'exit: one finalizer registered', False)
                continue
            a, kw = fin[0][1], fin[0][2]
            args = unbox_handle(ex, kw.get('args'))
            ok = len(a) == 2 and unbox_handle(ex, a[0]) is self.me and isinstance(args, PyTuple) and len(args.items) == 1
            ex.oblige(s, 'exit: a finalizer on this MemoryBlock releases exactly the shared memory it created (and self.release is that finalizer, which __del__ calls)',
                      z3.And(box(ex, a[1]) == z3.Const('MemoryBlock._release', Val), box(ex, args.items[0]) == self.mem, box(ex, self.me.get(s, '_mem')) == self.mem,
                             box(ex, self.me.get(s, 'release')) == z3.Const('finalizer', Val)) if ok else z3.BoolVal(False))


class MemDel(Unit):
    prop = 'C13'
    file = F
    qual = 'MemoryBlock.__del__'
    canaries = (('garbage collection does not release the memory', '            self.release()', '            pass', ''),)

    def setup(self, ex):
        st = St()
        st.ghost['ev'] = ()
        st.env['self'] = Rec(ex, 'self', immutable=True, methods={'release': Fn(lambda e, s, a, k, n: (ev(s := s.fork(), 'release'), [('ok', s, NONE)])[1])})
        return st

    def post(self, ex, outs):
        for k, s, p in outs:
            ex.oblige(s, 'exit: dropping the hosted MemoryBlock runs its release finalizer', z3.BoolVal(k in ('normal', 'return') and [e_[0] for e_ in s.ghost['ev']] == ['release']))


class MemProxyReduce(Unit):
    """MemoryBlockProxy.__reduce__: the pickle is BaseProxy.__reduce__'s own -- taken exactly once (one incref for the pickle in transit: unit BaseProxy.__reduce__) --
    with nothing changed but two entries, name and size, added to its keyword dict (in particular the rebuild's incref is not switched off)."""
    prop = 'C13'
    file = F
    qual = 'MemoryBlockProxy.__reduce__'
    canaries = (('pickles a second time (two increfs for one pickle)', '            func, args = super().__reduce__()', '            super().__reduce__()\n            func, args = super().__reduce__()', ''),
                ('rebuild told not to take its own reference', "            kwds['size'] = self._size", "            kwds['size'] = self._size\n            kwds['incref'] = False", ''))

    def setup(self, ex):
        from pyvc.core import DictVal
        st = St()
        st.ghost['ev'] = ()
        self.name_, self.size = z3.Const('cached_name', Val), z3.Const('cached_size', Val)
        st.env['self'] = Rec(ex, 'self', immutable=True).init(st, _name=self.name_, _size=self.size)
        self.func = z3.Const('RebuildProxy', Val)
        self.a0, self.a1, self.a2 = z3.Consts('proxy_class token serializer', Val)
        return st

    def on_call(self, ex, st, e, src):
        if src == 'super().__reduce__':
            from pyvc.core import DictVal

            def f(s, ak):
                s = s.fork()
                ev(s, 'reduce')
                d = DictVal()
                d.items = {}
                self.kwds = d
                return [('ok', s, PyTuple([self.func, PyTuple([self.a0, self.a1, self.a2, d])]))]
            return ex.bind(ex.evargs(e, st), f)
        return None

    def post(self, ex, outs):
        from pyvc.core import DictVal
        for k, s, p in outs:
            n = len([e_ for e_ in s.ghost['ev'] if e_[0] == 'reduce'])
            p = unbox_handle(ex, p)
            if k not in ('normal', 'return') or n != 1 or not (isinstance(p, PyTuple) and len(p.items) == 2 and isinstance(unbox_handle(ex, p.items[1]), PyTuple) and len(unbox_handle(ex, p.items[1]).items) == 4):
                ex.oblige(s, 'exit: returns the (func, args) of exactly one super().__reduce__()', False)
                continue
            inner = unbox_handle(ex, p.items[1]).items
            kw = unbox_handle(ex, inner[3])
            ok = isinstance(kw, DictVal) and set(kw.items) == {'name', 'size'} and kw.pack is None
            ex.oblige(s, 'exit: one super().__reduce__() (one reference for the pickle in transit); its function, proxy class, token and serializer are passed on untouched; kwds gains exactly name and size (the cached values)',
                      z3.And(box(ex, p.items[0]) == self.func, box(ex, inner[0]) == self.a0, box(ex, inner[1]) == self.a1, box(ex, inner[2]) == self.a2,
                             box(ex, kw.items['name']) == self.name_, box(ex, kw.items['size']) == self.size) if ok else z3.BoolVal(False))


class MemProxyInit(Unit):
    """MemoryBlockProxy.__init__: everything but name/size goes to BaseProxy.__init__ exactly once (which takes this proxy's reference: unit BaseProxy.__init__)."""
    prop = 'C13'
    file = F
    qual = 'MemoryBlockProxy.__init__'
    canaries = (('base constructor skipped (proxy holds no reference)', '            super().__init__(*args, **kwargs)', '            pass', ''),)

    def setup(self, ex):
        from pyvc.core import StarPack
        st = St()
        st.ghost['ev'] = ()
        self.me = Rec(ex, 'self')
        self.args, self.kw = StarPack(z3.Const('args', Val)), KwPack(z3.Const('kwargs', Val))
        self.name_, self.size = z3.Const('name', Val), z3.Const('size', Val)
        st.env.update(self=self.me, args=self.args, kwargs=self.kw, name=self.name_, size=self.size)
        return st

    def on_call(self, ex, st, e, src):
        if src == 'super().__init__':
            def f(s, ak):
                s = s.fork()
                ev(s, 'init', tuple(ak[0]), dict(ak[1]))
                return [('ok', s, NONE)]
            return ex.bind(ex.evargs(e, st), f)
        return None

    def post(self, ex, outs):
        for k, s, p in outs:
            inits = [e_ for e_ in s.ghost['ev'] if e_[0] == 'init']
            ok = k in ('normal', 'return') and len(inits) == 1 and len(inits[0][1]) == 1 and inits[0][1][0] is self.args and set(inits[0][2]) == {'**'} and inits[0][2]['**'] is self.kw
            ex.oblige(s, 'exit: BaseProxy.__init__(*args, **kwargs) exactly once with the caller\'s arguments; name and size are cached as given, no memory is attached yet',
                      z3.And(box(ex, self.me.get(s, '_name')) == self.name_, box(ex, self.me.get(s, '_size')) == self.size, box(ex, self.me.get(s, '_mem')) == NONE) if ok else z3.BoolVal(False))


class C13Lemma(LemmaUnit):
    prop = 'C13'
    qual = 'lemma(C13)'

    def lemmas(self):
        rc, live, transit = z3.Ints('refcount live_proxies pickles_in_transit')
        inv = lambda r, l, t: z3.And(r == l + t, l >= 0, t >= 0)       # noqa: E731
        base = [inv(rc, live, transit)]
        # effects proved by the units above (per ident)
        yield ('create / managed(): refcount+1, one more live proxy', base, inv(rc + 1, live + 1, transit))
        yield ('pickle (__reduce__): refcount+1, one more pickle in transit', base + [live >= 1], inv(rc + 1, live, transit + 1))
        yield ('unpickle once (RebuildProxy): +1 (constructor) then -1: one more live proxy, one pickle fewer; the count never dips below its value before (so never to 0 while the pickle existed)',
               base + [transit >= 1], z3.And(inv(rc + 1 - 1, live + 1, transit - 1), rc + 1 >= 1, rc >= 1))
        yield ('drop a proxy (finalizer _decref, also at child exit): refcount-1, one live proxy fewer', base + [live >= 1], inv(rc - 1, live - 1, transit))
        yield ('the object is disposed of (refcount reaches 0: stdlib decref) exactly when no proxy and no pickle in transit refers to it', base, (rc == 0) == z3.And(live == 0, transit == 0))
        yield ('a decrement by a live reference never finds the count at 0 (stdlib decref would raise)', base + [z3.Or(live >= 1, transit >= 1)], rc >= 1)


UNITS = [ServerCreate, ServerCreateInterference, ServerCreateBadArgs, ServerCreateTyped, ServerCreateCallable, MakeProxy, MakeProxyAuto, MakeProxyMemory, ServerIncref, ServerDecref, ProxyInit, ProxyIncref, ProxyIncrefInServer, ProxyIncrefAfterFork, ProxyDispatch,
         ProxyDecref, ProxyDecrefInServer, ProxyReduce, ProxyReduceInServer, Rebuild, RebuildInServer, Managed, ManagedNoTypeid, ManagedOutside, MemRelease, MemInit, MemDel, MemProxyReduce, MemProxyInit, C13Lemma]
SCENARIOS = [('Server.', 'replay/scenarios/c13_rewrap_vs_last_decref.py'), ('', 'replay/scenarios/c13_refcount_histories.py', [1, 2, 3, 4, 5, 6])]
BOUNDED = [{'function': 'whole histories across processes (create/pickle/unpickle/child/store/remove/managed/delete)', 'method': 'runtime scenario replay/scenarios/c13_refcount_histories.py against a reference-count model', 'bound': '6 seeds x 45 steps (thorough tier and fallback)', 'counted_as_proved': False}]
THOROUGH_SCENARIOS = [('', 'replay/scenarios/c13_refcount_histories.py', list(range(7, 31)), 600)]
from contracts.c14 import IteratorProxyIter      # noqa: E402  ('stays alive AND USABLE': one consumer must not finalize the shared hosted iterator)
UNITS += [IteratorProxyIter]
