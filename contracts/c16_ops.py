"""C16 (supplementary) -- the one-to-one AsyncStream operators carry the *same* stream contracts as their sync counterparts (contracts/c03.py):
the unit classes below inherit setup, loop invariant and post-condition from the sync operator's unit and only re-anchor them at the async function,
so "same answers as the sync counterpart" is literally "satisfies the same specification function".  Differences stated where the async code differs."""
import z3

from pyvc import vals as V
from pyvc.unit import LoopSpec
from pyvc.models import Fn
from pyvc.core import box
from contracts.c03 import MapperIter, FilterIter, HeaderIter, TailerIter, BatcherIter, is_coro

FA = 'streamer/_streamer_async.py'


def _iscoro(value):
    """`iscoroutinefunction(func)` is a pure predicate of its argument (trusted); the unit fixes its value so both branches are covered by two units."""
    def install(self, ex, st):
        ex.globals['iscoroutinefunction'] = Fn(lambda ex2, st2, args, kwargs, node: [('ok', st2, is_coro(box(ex2, args[0])))],
                                               trusted='inspect.iscoroutinefunction is a pure predicate of its argument')
        st.assume(is_coro(box(ex, self.f)) == value)
    return install


class AsyncMapperIter(MapperIter):
    """AsyncMapper.__aiter__ with a plain function: out == map(f, input), lazily, errors are the source's or f's own (MapperIter's contract)."""
    prop = 'C16'
    file = FA
    qual = 'AsyncMapper.__aiter__'
    variant = 'sync func'
    coro = False
    canaries = (
        ('yield the element instead of func(element)', '                yield func(v)', '                yield v', 'invariant preserved'),
        ('apply func twice', '                yield func(v)', '                yield func(func(v))', 'invariant preserved'),
    )

    def setup(self, ex):
        st = super().setup(ex)
        _iscoro(self.coro)(self, ex, st)
        return st

    @property
    def loops(self):
        inv = super().loops[0]
        return {0: inv, 1: inv}


class AsyncMapperIterCoro(AsyncMapperIter):
    """... with a coroutine function: the awaited result of func(v) is what is yielded (an await of the model's value is the value: `await f(v)` == f(v) or raises f's error)."""
    variant = 'coroutine func'
    coro = True
    canaries = (
        ('yield the element instead of await func(element)', 'yield await func(v)', 'yield v', 'invariant preserved'),
        ('apply func twice', 'yield await func(v)', 'yield await func(await func(v))', 'invariant preserved'),
    )


class AsyncFilterIter(FilterIter):
    prop = 'C16'
    file = FA
    qual = 'AsyncFilter.__aiter__'
    variant = 'sync func'
    coro = False
    canaries = (
        ('negated predicate', '                if func(v):', '                if not func(v):', 'invariant preserved'),
    )

    def setup(self, ex):
        st = super().setup(ex)
        _iscoro(self.coro)(self, ex, st)
        return st

    @property
    def loops(self):
        inv = super().loops[0]
        return {0: inv, 1: inv}


class AsyncFilterIterCoro(AsyncFilterIter):
    variant = 'coroutine func'
    coro = True
    canaries = (
        ('negated predicate', 'if await func(v):', 'if not await func(v):', 'invariant preserved'),
    )


class AsyncHeaderIter(HeaderIter):
    """AsyncHeader.__aiter__: out == input[:n]; unlike the sync Header it stops right after the n-th yield, so it pulls at most n (<= n+1) elements."""
    prop = 'C16'
    file = FA
    qual = 'AsyncHeader.__aiter__'
    canaries = (
        ('off by one: n > self.n', 'if n >= self.n:', 'if n > self.n:', 'out == input[:n]'),
        ('count not advanced', 'n += 1', 'n += 0', 'out == input[:n]'),
    )

    @property
    def loops(self):
        def inv(s, ex):
            return z3.And(self.live(s), s.env['n'] == z3.Length(self.out(s)), self.out(s) == self.seen(s), s.env['n'] < self.n)
        return {0: LoopSpec(inv=inv)}


class AsyncTailerIter(TailerIter):
    """AsyncTailer.__aiter__: out == last n elements of the input.  The async code hands the deque out with an explicit `for x in data: yield x`
    (the sync one with `yield from`), so there is a second loop: its invariant is `out == data0[:i]`, where data0 / dropped0 / seen0 are the values of
    the deque, of its discarded prefix and of the pulled input *at the entry of that loop* (recorded when the entry obligation is generated: the
    iteration index is then the literal 0) -- the engine havocs every object and ghost at the loop cut, so "unchanged since entry" is proved, not assumed."""
    prop = 'C16'
    file = FA
    qual = 'AsyncTailer.__aiter__'
    canaries = TailerIter.canaries + (
        ('hands out the elements twice', '        for x in data:\n            yield x', '        for x in data:\n            yield x\n            yield x', 'invariant preserved'),
        ('hands out nothing', '        for x in data:\n            yield x', '        for x in data:\n            pass', 'last n'),
    )

    @property
    def loops(self):
        first = super().loops[0]

        def inv1(s, ex):
            keys = [k for k in s.ghost if k.startswith('#i')]
            i = s.ghost[keys[-1]]
            d = s.env['data']
            if z3.is_int_value(i) and i.as_long() == 0:          # the entry obligation of this path: remember the entry values
                self._q0, self._dr0, self._seen0 = d.get(s, 'q'), d.get(s, 'dropped'), self.seen(s)
            return z3.And(self.src.done(s), self.seen(s) == self._seen0, self.out(s) == z3.SubSeq(self._q0, 0, i),
                          d.get(s, 'q') == self._q0, d.get(s, 'dropped') == self._dr0, i >= 0, i <= z3.Length(self._q0))
        return {0: first, 1: LoopSpec(inv=inv1, keep=('data',))}


class AsyncBatcherIter(BatcherIter):
    prop = 'C16'
    file = FA
    qual = 'AsyncBatcher.__aiter__'


UNITS = [AsyncMapperIter, AsyncMapperIterCoro, AsyncFilterIter, AsyncFilterIterCoro, AsyncHeaderIter, AsyncTailerIter, AsyncBatcherIter]
