"""C16 (supplementary) -- the one-to-one AsyncStream operators carry the *same* stream contracts as their sync counterparts (contracts/c03.py):
the unit classes below inherit setup, loop invariant and post-condition from the sync operator's unit and only re-anchor them at the async function,
so "same answers as the sync counterpart" is literally "satisfies the same specification function".  Differences stated where the async code differs."""
import z3

from pyvc import vals as V
from pyvc.unit import LoopSpec
from pyvc.models import Fn
from pyvc.core import box, St, Module, Unsupported
from pyvc.vals import Val
from contracts.c03 import StreamOp
from contracts.c03 import MapperIter, FilterIter, HeaderIter, TailerIter, BatcherIter, UnbatcherIter, ShufflerIter, is_coro
from pyvc.models import seqof

FA = 'streamer/_streamer_async.py'


def _iscoro(value):
    """`iscoroutinefunction(func)` is a pure predicate of its argument (trusted); the unit fixes its value so both branches are covered by two units."""
    def install(self, ex, st):
        ex.globals['iscoroutinefunction'] = Fn(lambda ex2, st2, args, kwargs, node: [('ok', st2, is_coro(box(ex2, args[0])))],
                                               trusted='inspect.iscoroutinefunction is a pure predicate of its argument')
        st.assume(is_coro(box(ex, self.f)) == value)
    return install


class AsyncMapperIter(MapperIter):
    """AsyncMapper.__aiter__ with a plain function: out == map(f, input), lazily, errors are the source's or f's own (MapperIter's contract)."""
    prop = 'C16'
    file = FA
    qual = 'AsyncMapper.__aiter__'
    variant = 'sync func'
    coro = False
    canaries = (
        ('yield the element instead of func(element)', '                yield func(v)', '                yield v', 'invariant preserved'),
        ('apply func twice', '                yield func(v)', '                yield func(func(v))', 'invariant preserved'),
    )

    def setup(self, ex):
        st = super().setup(ex)
        _iscoro(self.coro)(self, ex, st)
        return st

    @property
    def loops(self):
        inv = super().loops[0]
        return {0: inv, 1: inv}


class AsyncMapperIterCoro(AsyncMapperIter):
    """... with a coroutine function: the awaited result of func(v) is what is yielded (an await of the model's value is the value: `await f(v)` == f(v) or raises f's error)."""
    variant = 'coroutine func'
    coro = True
    canaries = (
        ('yield the element instead of await func(element)', 'yield await func(v)', 'yield v', 'invariant preserved'),
        ('apply func twice', 'yield await func(v)', 'yield await func(await func(v))', 'invariant preserved'),
    )


class AsyncFilterIter(FilterIter):
    prop = 'C16'
    file = FA
    qual = 'AsyncFilter.__aiter__'
    variant = 'sync func'
    coro = False
    canaries = (
        ('negated predicate', '                if func(v):', '                if not func(v):', 'invariant preserved'),
    )

    def setup(self, ex):
        st = super().setup(ex)
        _iscoro(self.coro)(self, ex, st)
        return st

    @property
    def loops(self):
        inv = super().loops[0]
        return {0: inv, 1: inv}


class AsyncFilterIterCoro(AsyncFilterIter):
    variant = 'coroutine func'
    coro = True
    canaries = (
        ('negated predicate', 'if await func(v):', 'if not await func(v):', 'invariant preserved'),
    )


class AsyncHeaderIter(HeaderIter):
    """AsyncHeader.__aiter__: out == input[:n]; unlike the sync Header it stops right after the n-th yield, so it pulls at most n (<= n+1) elements."""
    prop = 'C16'
    file = FA
    qual = 'AsyncHeader.__aiter__'
    canaries = (
        ('off by one: n > self.n', 'if n >= self.n:', 'if n > self.n:', 'out == input[:n]'),
        ('count not advanced', 'n += 1', 'n += 0', 'out == input[:n]'),
    )

    @property
    def loops(self):
        def inv(s, ex):
            # the invariant speaks about the abstraction (out == input so far, fewer than n handed out); whatever counts the outputs -- the local `n` of the
            # current text, or the index of a `for ... in range(...)` after a refactoring -- is tied to len(out) when it exists
            cnt = [s.env['n']] if z3.is_expr(s.env.get('n')) and s.env['n'].sort() == z3.IntSort() else []
            cnt += [s.ghost[k] for k in s.ghost if k.startswith('#i')]
            return z3.And(self.live(s), self.out(s) == self.seen(s), z3.Length(self.out(s)) < self.n, *[c == z3.Length(self.out(s)) for c in cnt])
        return {0: LoopSpec(inv=inv)}


class AsyncTailerIter(TailerIter):
    """AsyncTailer.__aiter__: out == last n elements of the input.  The async code hands the deque out with an explicit `for x in data: yield x`
    (the sync one with `yield from`), so there is a second loop: its invariant is `out == data0[:i]`, where data0 / dropped0 / seen0 are the values of
    the deque, of its discarded prefix and of the pulled input *at the entry of that loop* (recorded when the entry obligation is generated: the
    iteration index is then the literal 0) -- the engine havocs every object and ghost at the loop cut, so "unchanged since entry" is proved, not assumed."""
    prop = 'C16'
    file = FA
    qual = 'AsyncTailer.__aiter__'
    canaries = TailerIter.canaries + (
        ('hands out the elements twice', '        for x in data:\n            yield x', '        for x in data:\n            yield x\n            yield x', 'invariant preserved'),
        ('hands out nothing', '        for x in data:\n            yield x', '        for x in data:\n            pass', 'last n'),
    )

    @property
    def loops(self):
        first = super().loops[0]

        def inv1(s, ex):
            keys = [k for k in s.ghost if k.startswith('#i')]
            i = s.ghost[keys[-1]]
            d = s.env['data']
            if z3.is_int_value(i) and i.as_long() == 0:          # the entry obligation of this path: remember the entry values
                self._q0, self._dr0, self._seen0 = d.get(s, 'q'), d.get(s, 'dropped'), self.seen(s)
            return z3.And(self.src.done(s), self.seen(s) == self._seen0, self.out(s) == z3.SubSeq(self._q0, 0, i),
                          d.get(s, 'q') == self._q0, d.get(s, 'dropped') == self._dr0, i >= 0, i <= z3.Length(self._q0))
        return {0: first, 1: LoopSpec(inv=inv1, keep=('data',))}


class AsyncBatcherIter(BatcherIter):
    prop = 'C16'
    file = FA
    qual = 'AsyncBatcher.__aiter__'


class AsyncUnbatcherIter(UnbatcherIter):
    """AsyncUnbatcher.__aiter__ over list/tuple elements (the sync operator's precondition): out == concatenation of the input lists.
    The async code spells `yield from x` as an inner `for y in x: yield y`; the inner invariant is `out == out0 ++ x[:i]` with out0 / seen0 the values at
    the entry of the inner loop (recorded when its entry obligation is generated, see AsyncTailerIter).  `isiterable(x)` is true for lists and tuples
    (trusted: iter() of a list or tuple succeeds); elements that are *async* iterables take the other branch, which is outside this contract."""
    prop = 'C16'
    file = FA
    qual = 'AsyncUnbatcher.__aiter__'
    variant = 'list/tuple elements'
    elems_sync = True
    trusted = ('isiterable(x) is True for a list or a tuple (iter() succeeds on them)',)
    canaries = (
        ('yields the batch itself', '                for y in x:\n                    yield y', '                yield x', 'invariant preserved'),
        ('yields every member twice', '                for y in x:\n                    yield y', '                for y in x:\n                    yield y\n                    yield y', 'invariant preserved'),
    )

    def setup(self, ex):
        st = super().setup(ex)
        ex.globals['isiterable'] = Fn(lambda ex2, st2, args, kwargs, node: [('ok', st2, z3.BoolVal(self.elems_sync))],
                                      trusted=self.trusted[0])
        return st

    @property
    def loops(self):
        outer = super().loops[0]

        def inv1(s, ex):
            keys = [k for k in s.ghost if k.startswith('#i')]
            i = s.ghost[keys[-1]]
            if z3.is_int_value(i) and i.as_long() == 0:
                self._out0, self._seen0, self._x0 = self.out(s), self.seen(s), seqof(box(ex, s.env['x']))
            return z3.And(self.live(s), self.seen(s) == self._seen0, i >= 0, i <= z3.Length(self._x0),
                          self.out(s) == z3.Concat(self._out0, z3.SubSeq(self._x0, 0, i)))
        return {0: outer, 1: LoopSpec(inv=inv1, keep=('x',)), 2: LoopSpec(inv=inv1, keep=('x',))}


class AsyncUnbatcherIterAsyncElems(AsyncUnbatcherIter):
    """... over elements that are *async* iterables (isiterable(x) is False): the `async for y in x` branch.  Modelling assumption (stated, unchecked): such an
    element is represented by the finite sequence of what it yields, and its own iteration does not fail; the contract is the same concatenation."""
    variant = 'async-iterable elements'
    elems_sync = False
    trusted = ('isiterable(x) is False for an element that is only async-iterable; that element is modelled as the finite sequence it yields (its iteration does not fail)',)
    canaries = (
        ('members of an async element dropped', '                async for y in x:\n                    yield y', '                async for y in x:\n                    pass', 'invariant preserved'),
    )


class AsyncShufflerIter(ShufflerIter):
    """AsyncShuffler.__aiter__: out is a permutation of the input (ShufflerIter's contract).  The final buffer is handed out by an explicit
    `for x in buffer: yield x`; inner invariant `out == out0 ++ buffer0[:i]` with the entry values recorded as in AsyncTailerIter; the count of the
    concatenation is the proved count lemma (unit C03:lemma(count)) instantiated at (out0, buffer0)."""
    prop = 'C16'
    file = FA
    qual = 'AsyncShuffler.__aiter__'
    canaries = (
        ('loses the replaced element', '                yield y', '                pass', 'invariant preserved'),
        ('overwrites without yielding the old one', 'y = buffer[idx]', 'y = x', 'invariant preserved'),
        ('final buffer not flushed', '            for x in buffer:\n                yield x', '            pass', 'permutation'),
        ('final buffer handed out twice', '            for x in buffer:\n                yield x', '            for x in buffer:\n                yield x\n                yield x', 'invariant preserved'),
    )

    @property
    def loops(self):
        first = super().loops[0]

        def inv1(s, ex):
            keys = [k for k in s.ghost if k.startswith('#i')]
            i = s.ghost[keys[-1]]
            if z3.is_int_value(i) and i.as_long() == 0:
                self._out0, self._seen0, self._b0 = self.out(s), self.seen(s), s.env['buffer']
                self.__dict__.setdefault('_entries', []).append((self._out0, self._b0))
            return z3.And(self.src.done(s), self.seen(s) == self._seen0, i >= 0, i <= z3.Length(self._b0),
                          self.out(s) == z3.Concat(self._out0, z3.SubSeq(self._b0, 0, i)))
        return {0: first, 1: LoopSpec(inv=inv1, keep=('buffer', 'randrange'))}

    def post(self, ex, outs):
        for k, s, p in outs:
            if k in ('normal', 'return'):
                for o0, b0 in getattr(self, '_entries', ()):
                    s.assume(self.cnt.concat_fact(o0, b0))      # instance of the proved lemma count(a ++ b) == count(a) + count(b)
        super().post(ex, outs)


class AsyncGrouperIter(StreamOp):
    """AsyncGrouper.__aiter__: delegates to asyncstdlib.itertools.groupby(self._instream, self.key) -- called exactly once with exactly these two arguments --
    and yields everything that async iterator yields, in order, nothing else (the sync Grouper's contract: `yield from itertools.groupby(source, key)`)."""
    prop = 'C16'
    file = FA
    qual = 'AsyncGrouper.__aiter__'
    trusted = ('asyncstdlib.itertools.groupby(aiterable, key): consecutive elements with equal key form one (key, group) pair, lazily (same meaning as itertools.groupby)',)
    canaries = (('key function dropped', 'groupby(self._instream, self.key)', 'groupby(self._instream)', 'delegates'),
                ('groups dropped', '            yield v', '            pass', 'invariant preserved'),)

    def setup(self, ex):
        st = St()
        self.ins, self.key = z3.Const('instream', Val), z3.Const('key', Val)
        self.mk_self(ex, st, key=self.key)                   # self.src stands for the iterator groupby returns
        st.env['self'].set(st, '_instream', self.ins)              # the source itself is opaque here: only groupby reads it
        st.ghost['gb_calls'] = z3.IntVal(0)
        st.ghost['gb_ok'] = z3.BoolVal(True)
        ex.globals['asyncstdlib'] = Module('asyncstdlib')

        def f(ex2, st2, args, kwargs, node):
            st2 = st2.fork()
            ok = len(args) == 2 and not kwargs
            st2.ghost['gb_calls'] = st2.ghost['gb_calls'] + 1
            st2.ghost['gb_ok'] = z3.And(st2.ghost['gb_ok'], z3.BoolVal(ok),
                                        *( [box(ex2, args[0]) == self.ins, box(ex2, args[1]) == self.key] if ok else []))
            return [('ok', st2, self.src)]
        ex.globals['asyncstdlib.itertools.groupby'] = Fn(f, trusted=self.trusted[0])
        return st

    @property
    def loops(self):
        return {0: LoopSpec(inv=lambda s, ex: z3.And(self.live(s), self.out(s) == self.seen(s), s.ghost['gb_calls'] == 1, s.ghost['gb_ok']))}

    def post(self, ex, outs):
        for k, s, p in outs:
            if k in ('normal', 'return'):
                ex.oblige(s, 'exit: delegates to asyncstdlib.itertools.groupby(source, key) exactly once and yields everything it yields, nothing else',
                          z3.And(s.ghost['gb_calls'] == 1, s.ghost['gb_ok'], self.out(s) == self.seen(s), self.src.done(s)))


UNITS = [AsyncMapperIter, AsyncMapperIterCoro, AsyncFilterIter, AsyncFilterIterCoro, AsyncHeaderIter, AsyncTailerIter, AsyncBatcherIter, AsyncUnbatcherIter, AsyncUnbatcherIterAsyncElems, AsyncShufflerIter, AsyncGrouperIter]


# ================================================================ AsyncStream.<op>(...) builders: same contract as Stream.<op> (append exactly one lazy stage over the previous one)
from contracts.c03 import BuilderUnit, T, ClassCtor      # noqa: E402

ASYNC_OPS = ('AsyncMapper', 'AsyncFilter', 'AsyncShuffler', 'AsyncHeader', 'AsyncTailer', 'AsyncGrouper', 'AsyncBatcher', 'AsyncUnbatcher', 'AsyncBuffer')


class AsyncBuilderUnit(BuilderUnit):
    prop = 'C16'
    file = FA

    def extra_setup(self, ex, st):
        for n in ASYNC_OPS:
            self.C[n] = ClassCtor(n)
            ex.globals[n] = self.C[n]


def mk_abuilder(name, expect, canaries=()):
    return type('ABuild_' + name, (AsyncBuilderUnit,), dict(qual=f'AsyncStream.{name}', expect=staticmethod(expect), canaries=canaries))


AB_map = mk_abuilder('map', lambda C, last, P, kw: T(C, 'AsyncMapper', [last, P['func']], kw),
                     canaries=(('wraps the source instead of the previous stage', 'AsyncMapper(self.streamlets[-1], func, **kwargs)', 'AsyncMapper(self.streamlets[0], func, **kwargs)', 'appends exactly one'),
                               ('keyword arguments of func dropped', 'AsyncMapper(self.streamlets[-1], func, **kwargs)', 'AsyncMapper(self.streamlets[-1], func)', 'appends exactly one')))
AB_filter = mk_abuilder('filter', lambda C, last, P, kw: T(C, 'AsyncFilter', [last, P['func']], kw),
                        canaries=(('filter builds a mapper', 'AsyncFilter(self.streamlets[-1], func, **kwargs)', 'AsyncMapper(self.streamlets[-1], func, **kwargs)', 'appends exactly one'),))
AB_shuffle = mk_abuilder('shuffle', lambda C, last, P, kw: T(C, 'AsyncShuffler', [last], buffer_size=P['buffer_size']))
AB_head = mk_abuilder('head', lambda C, last, P, kw: T(C, 'AsyncHeader', [last, P['n']]),
                      canaries=(('head builds a tailer', 'AsyncHeader(self.streamlets[-1], n)', 'AsyncTailer(self.streamlets[-1], n)', 'appends exactly one'),))
AB_tail = mk_abuilder('tail', lambda C, last, P, kw: T(C, 'AsyncTailer', [last, P['n']]),
                      canaries=(('tail builds a header', 'AsyncTailer(self.streamlets[-1], n)', 'AsyncHeader(self.streamlets[-1], n)', 'appends exactly one'),))
AB_groupby = mk_abuilder('groupby', lambda C, last, P, kw: T(C, 'AsyncGrouper', [last, P['key']], kw))
AB_batch = mk_abuilder('batch', lambda C, last, P, kw: T(C, 'AsyncBatcher', [last, P['batch_size']]))
AB_unbatch = mk_abuilder('unbatch', lambda C, last, P, kw: T(C, 'AsyncUnbatcher', [last]))
AB_buffer = mk_abuilder('buffer', lambda C, last, P, kw: T(C, 'AsyncBuffer', [last, P['maxsize']]))

UNITS_ABUILD = [AB_map, AB_filter, AB_shuffle, AB_head, AB_tail, AB_groupby, AB_batch, AB_unbatch, AB_buffer]
UNITS += UNITS_ABUILD


# ================================================================ __init__ of the async operator classes: store their arguments (what the __aiter__ contracts read back)
from contracts.c03 import InitUnit      # noqa: E402


def mk_ainit(cls, fields, partial_field=None, int_params=(), requires=None, canaries=()):
    return type(cls + 'Init', (InitUnit,), dict(prop='C16', file=FA, qual=f'{cls}.__init__', fields=fields, partial_field=partial_field,
                                                 int_params=int_params, requires=staticmethod(requires) if requires else None, canaries=canaries))


AsyncMapperInit = mk_ainit('AsyncMapper', {'_instream': 'instream'}, ('func', 'func'),
                           canaries=(('kwargs dropped', '            func = functools.partial(func, **kwargs)', '            pass', 'stores its arguments'),))
AsyncFilterInit = mk_ainit('AsyncFilter', {'_instream': 'instream'}, ('func', 'func'),
                           canaries=(('kwargs dropped', 'functools.partial(func, **kwargs) if kwargs else func', 'func', 'stores its arguments'),))
AsyncHeaderInit = mk_ainit('AsyncHeader', {'_instream': 'instream', 'n': 'n'}, int_params=('n',), requires=lambda P: P['n'] > 0,
                           canaries=(('stores n+1', 'self.n = n', 'self.n = n + 1', 'stores its arguments'),))
AsyncTailerInit = mk_ainit('AsyncTailer', {'_instream': 'instream', 'n': 'n'}, int_params=('n',), requires=lambda P: P['n'] > 0)
AsyncGrouperInit = mk_ainit('AsyncGrouper', {'_instream': 'instream'}, ('key', 'key'))
AsyncBatcherInit = mk_ainit('AsyncBatcher', {'_instream': 'instream', '_batch_size': 'batch_size'}, int_params=('batch_size',),
                            requires=lambda P: P['batch_size'] > 0)
AsyncUnbatcherInit = mk_ainit('AsyncUnbatcher', {'_instream': 'instream'})
AsyncShufflerInit = mk_ainit('AsyncShuffler', {'_instream': 'instream', '_buffersize': 'buffer_size'}, int_params=('buffer_size',),
                             requires=lambda P: P['buffer_size'] > 0)

UNITS_AINIT = [AsyncMapperInit, AsyncFilterInit, AsyncHeaderInit, AsyncTailerInit, AsyncGrouperInit, AsyncBatcherInit, AsyncUnbatcherInit, AsyncShufflerInit]
UNITS += UNITS_AINIT


# ================================================================ AsyncStream core: same contracts as Stream.__init__ / __iter__ / drain
from contracts.c03 import StreamInit, StreamIter, StreamDrain, IterModel, iter_of      # noqa: E402
from pyvc.core import SymMethod      # noqa: E402


class AsyncStreamInit(StreamInit):
    prop = 'C16'
    file = FA
    qual = 'AsyncStream.__init__'
    canaries = (('source stored twice', 'self.streamlets: list[AsyncIterable] = [instream]', 'self.streamlets: list[AsyncIterable] = [instream, instream]', 'nothing consumed'),)


class AIterModel(IterModel):
    def getattr(self, ex, st, base, attr, node):
        if attr == '__aiter__':
            return [('ok', st, SymMethod(self, base, attr))]
        raise Unsupported(f'streamlet.{attr}')


class AsyncStreamAiter(StreamIter):
    prop = 'C16'
    file = FA
    qual = 'AsyncStream.__aiter__'
    canaries = (('iterates the source, not the pipeline', 'self.streamlets[-1].__aiter__()', 'self.streamlets[0].__aiter__()', 'iterates the last streamlet'),)

    def setup(self, ex):
        st = super().setup(ex)
        ex.sym_models['self.streamlets[-1]'] = AIterModel()
        ex.sym_models['self.streamlets[0]'] = AIterModel()
        return st


class AsyncStreamDrain(StreamDrain):
    prop = 'C16'
    file = FA
    qual = 'AsyncStream.drain'
    assumed_contracts = ('aiter(self) yields the pipeline output: unit C16:AsyncStream.__aiter__',)


UNITS_ACORE = [AsyncStreamInit, AsyncStreamAiter, AsyncStreamDrain]
UNITS += UNITS_ACORE


# AsyncStream.collect (`[x async for x in self]`) is NOT under contract: the engine has no model of an async list comprehension over a source.
