"""C02 — server answers every request with its own result (no cross-talk)."""
from contracts.worker import UNITS_SINGLE, UNITS_BATCH, ASSUMPTIONS as W_ASSUMPTIONS
from contracts.server import EnqueueUnit, AEnqueueUnit, GatherUnit, AGatherUnit, UNITS_ENTRY, ASSUMPTIONS as S_ASSUMPTIONS
UNITS = list(UNITS_ENTRY) + list(UNITS_SINGLE) + list(UNITS_BATCH) + [EnqueueUnit, AEnqueueUnit, GatherUnit, AGatherUnit]
ASSUMPTIONS = tuple(W_ASSUMPTIONS) + tuple(S_ASSUMPTIONS)
from contracts.servlet import UNITS_FORWARD, UNITS_DEQUEUE
UNITS += list(UNITS_FORWARD) + list(UNITS_DEQUEUE)
from contracts.c11 import OnboardUnit      # noqa: E402  (process input queue: accepted requests reach the workers through the onboarding thread -- each once, unchanged, in order)
UNITS += [OnboardUnit]
from contracts.singlelane import SLInit, SLPut, SLGet, SLRelyGuarantee      # noqa: E402  (the batch buffer between collector and worker: a get that waits longer than told holds a partial batch -- and its requests -- back)
UNITS += [SLInit, SLPut, SLGet, SLRelyGuarantee]
NOT_DECIDED = ('pickling preserves values across process queues; SequentialServlet wiring is checked in C11',)
SCENARIOS = [('', 'replay/scenarios/c02_server_battery.py'), ('', 'replay/scenarios/c02a_uid_recycle.py'), ('', 'replay/scenarios/c02b_record_before_enqueue.py'), ('', 'replay/scenarios/c06_idle_backlog.py'), ('', 'replay/scenarios/c09_batches.py')]
