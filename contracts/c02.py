"""C02 — server answers every request with its own result (no cross-talk)."""
from contracts.worker import UNITS_SINGLE, ASSUMPTIONS as W_ASSUMPTIONS
from contracts.server import EnqueueUnit, AEnqueueUnit, GatherUnit, ASSUMPTIONS as S_ASSUMPTIONS
UNITS = list(UNITS_SINGLE) + [EnqueueUnit, AEnqueueUnit, GatherUnit]
ASSUMPTIONS = tuple(W_ASSUMPTIONS) + tuple(S_ASSUMPTIONS)
from contracts.servlet import UNITS_FORWARD
UNITS += list(UNITS_FORWARD)
NOT_DECIDED = ('EnsembleServlet._dequeue (mutable per-request dict-of-list entries): outside pyvc\'s by-value model -> bounded stand-in (runtime battery over arrival orders)',
               'pickling preserves values across process queues; SequentialServlet wiring is checked in C11')
BOUNDED = [{'function': 'EnsembleServlet._dequeue', 'method': 'runtime scenario replay/scenarios/c02_server_battery.py', 'bound': 'member latencies forcing every arrival order of 3 members x fail_fast x which members fail', 'counted_as_proved': False}]
SCENARIOS = [('', 'replay/scenarios/c02_server_battery.py'), ('', 'replay/scenarios/c02a_uid_recycle.py'), ('', 'replay/scenarios/c02b_record_before_enqueue.py')]
ALWAYS_RUN_SCENARIOS = True      # EnsembleServlet._dequeue is decided only by the bounded stand-in (about 15 s)
