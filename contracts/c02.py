"""C02 — server answers every request with its own result (no cross-talk)."""
from contracts.worker import UNITS_SINGLE, ASSUMPTIONS as W_ASSUMPTIONS
from contracts.server import EnqueueUnit, AEnqueueUnit, GatherUnit, ASSUMPTIONS as S_ASSUMPTIONS
UNITS = list(UNITS_SINGLE) + [EnqueueUnit, AEnqueueUnit, GatherUnit]
ASSUMPTIONS = tuple(W_ASSUMPTIONS) + tuple(S_ASSUMPTIONS)
