"""C20 — child-process log records all reach the parent, once and in order."""
import z3

from pyvc import vals as V
from pyvc.vals import Val, SeqV, NONE, fresh
from pyvc.unit import Unit, LoopSpec, LemmaUnit
from pyvc.models import UFunc, Rec, Fn, Nop, QueueReader, SpecFn, ThreadCtor, ThreadObj, PipeWriter
from pyvc.core import St, Module, box, Unsupported, KwPack, StarPack, Obj, unbox_handle, PyTuple
from contracts.c12 import CollectResult, ProcessRun, ProcessRunNoTarget, KwDict, remote_exc, CTX, StartUnit

ASSUMPTIONS = (
    'multiprocessing.Queue: records put by the child are flushed to the pipe before the child process exits (feeder thread joined at exit) and are received FIFO, each by exactly one reader',
    'logging.handlers.QueueHandler.emit puts each record on the queue in emission order; Logger.handle dispatches a record to the parent\'s handlers once',
    'the child has exited when multiprocessing.connection.wait([sentinel]) returns',
)
NOT_DECIDED = ('pipe buffer sizes / OS scheduling', 'the GC-time finalizer SpawnProcess._finalize (runs when the Process object is collected; it ends the reader as well)')

level_ok = z3.Function('level_enabled', Val, z3.BoolSort())      # record.levelno >= getLogger(record.name).getEffectiveLevel()


class RunLogger(Unit):
    prop = 'C20'
    file = CTX
    qual = 'SpawnProcess._run_logger'
    expected_exits = ('normal',)
    canaries = (
        ('records below the level are dropped AND the reader stops', '            if record.levelno >= logger.getEffectiveLevel():\n                logger.handle(record)',
         '            if record.levelno < logger.getEffectiveLevel():\n                break\n            logger.handle(record)', ''),
        ('every record handled twice', '                logger.handle(record)', '                logger.handle(record)\n                logger.handle(record)', 'invariant preserved'),
        ('level test inverted', 'if record.levelno >= logger.getEffectiveLevel():', 'if record.levelno < logger.getEffectiveLevel():', 'invariant preserved'),
    )

    def setup(self, ex):
        st = St()
        self.sfil = SpecFn('sfilter_level', lambda acc, x: z3.If(level_ok(x), z3.Concat(acc, z3.Unit(x)), acc))
        st.assume(*self.sfil.base_facts())
        self.q = QueueReader(ex, 'q')
        self.q.init(st)
        st.env['q'] = self.q
        st.ghost['taken'] = V.EMPTY
        st.ghost['handled'] = V.EMPTY
        st.ghost['none_got'] = z3.BoolVal(False)

        class RecModel:
            def getattr(self_, ex2, st2, base, attr, node):
                if attr == 'name':
                    return [('ok', st2, z3.Function('record_name', Val, Val)(base))]
                if attr == 'levelno':
                    return [('ok', st2, LevelNo(base))]
                raise Unsupported(attr)
        ex.sym_models['record'] = RecModel()

        def get_logger(e, s, a, k, n):
            def handle(e2, s2, a2, k2, n2):
                s2 = s2.fork()
                s2.ghost['handled'] = z3.Concat(s2.ghost['handled'], z3.Unit(box(e2, a2[0])))
                return [('ok', s2, NONE)]
            return [('ok', s, Rec(e, 'logger', methods={'getEffectiveLevel': Fn(lambda e2, s2, a2, k2, n2: [('ok', s2, EffLevel())]), 'handle': Fn(handle)}))]
        ex.globals['logging.getLogger'] = Fn(get_logger, trusted='logging.getLogger(name) returns the parent-side logger; Logger.handle(record) passes the record to the parent\'s handlers once')
        return st

    def on_binop(self, ex, st, op, a, b, node):
        return None

    def on_get(self, ex, st, q, k, z, node):
        ex.oblige(st, f'line {node.lineno}: the reader does not read past the end marker', z3.Not(st.ghost['none_got']))
        s1 = st.fork().assume(z != NONE)
        s1.ghost['taken'] = z3.Concat(s1.ghost['taken'], z3.Unit(z))
        s1.assume(*self.sfil.snoc_facts(st.ghost['taken'], z, s1.ghost['taken']))
        s2 = st.fork().assume(z == NONE)
        s2.ghost['none_got'] = z3.BoolVal(True)
        return [s1, s2]

    @property
    def loops(self):
        return {0: LoopSpec(inv=lambda s, ex: z3.And(s.ghost['handled'] == self.sfil(s.ghost['taken']), z3.Not(s.ghost['none_got'])), keep=('q',))}

    def post(self, ex, outs):
        for k, s, p in outs:
            if k in ('normal', 'return'):
                ex.oblige(s, 'exit: every record taken before the end marker was handled exactly once, in order, subject only to the level test; the reader stops at the end marker',
                          z3.And(s.ghost['none_got'], s.ghost['handled'] == self.sfil(s.ghost['taken'])))
            else:
                ex.oblige(s, 'exit: the reader thread does not die with an exception', False)


class LevelNo:
    def __init__(self, rec):
        self.rec = rec


class EffLevel:
    pass


def _compare_hook(ex, st, op, a, b, node):
    return None


# comparison `record.levelno >= logger.getEffectiveLevel()` -> level_ok(record)
from pyvc import core as _core
_orig_compare = _core.Exec.compare


def _compare(self, st, op, a, b, node):
    if isinstance(a, LevelNo) and isinstance(b, EffLevel):
        import ast
        if isinstance(op, ast.GtE):
            return level_ok(a.rec)
        if isinstance(op, ast.Lt):
            return z3.Not(level_ok(a.rec))
        raise Unsupported('level comparison')
    return _orig_compare(self, st, op, a, b, node)


_core.Exec.compare = _compare


class ChildRunLogging(ProcessRun):
    """Child side: a QueueHandler is installed on the root logger before the target runs and removed only after it ended;
    then the queue is closed (its feeder flushes everything before the process exits -- trusted)."""
    prop = 'C20'
    variant = 'logging'
    ignore_calls = ('logging.captureWarnings', 'sys.stderr.write', 'traceback.print_exc')
    canaries = (
        ('child filters records by a level of its own', 'root.setLevel(logging.DEBUG)', 'root.setLevel(logging.WARNING)', 'level'),
        ('handler removed before the target runs', '        self._mpservice_exitcode_ = 0\n', '        self._mpservice_exitcode_ = 0\n        if qh is not None:\n            logging.getLogger().removeHandler(qh)\n', 'installed before'),
        ('queue never closed by the child', '                logger_queue.close()', '                pass', ''),
    )

    def __init__(self):
        super().__init__()
        self.name = 'C20:SpawnProcess.run[logging]'

    def setup(self, ex):
        st = super().setup(ex)
        st.ghost['events'] = ()
        ev = lambda name: (lambda e, s, a, k, n: (lambda s2: (s2.ghost.__setitem__('events', s2.ghost['events'] + (name,)), [('ok', s2, NONE)])[1])(s.fork()))
        self.has_handlers = z3.Bool('root_has_handlers')
        st.ghost['root_level'] = fresh('child_root_level_before')

        def set_level(e, s, a, k, n):
            s = s.fork()
            s.ghost['root_level'] = box(e, a[0])
            s.ghost['events'] = s.ghost['events'] + ('setLevel',)
            return [('ok', s, NONE)]
        for nm, lv in (('DEBUG', 10), ('INFO', 20), ('WARNING', 30), ('ERROR', 40), ('NOTSET', 0)):
            ex.globals['logging.' + nm] = z3.IntVal(lv)
        root = Rec(ex, 'root', methods={'hasHandlers': Fn(lambda e, s, a, k, n: [('ok', s, self.has_handlers)]), 'setLevel': Fn(set_level),
                                        'addHandler': Fn(ev('addHandler')), 'removeHandler': Fn(ev('removeHandler'))})
        ex.globals['logging.getLogger'] = Fn(lambda e, s, a, k, n: [('ok', s, root)])
        self.logq.methods['close'] = Fn(ev('queue.close'))
        # the target call is an event too
        orig = self.target.invoke

        def invoke(ex2, st2, args, kwargs, node):
            outs = orig(ex2, st2, args, kwargs, node)
            res = []
            for k, s, v in outs:
                s = s.fork()
                s.ghost['events'] = s.ghost['events'] + ('target',)
                res.append((k, s, v))
            return res
        self.target.invoke = invoke
        return st

    def post(self, ex, outs):
        for k, s, p in outs:
            if k == 'raise':
                ex.oblige(s, 'exit: run() never raises', False)
                continue
            evs = s.ghost['events']
            fwd = ('setLevel', 'addHandler', 'target', 'removeHandler', 'queue.close')
            nofwd = ('queue.close', 'target')
            ex.oblige(s, 'exit: log forwarding is installed before the target runs and removed only after it ended, then the queue is closed (or, if logging is already configured in the child, the queue is closed at once)',
                      z3.If(self.has_handlers, z3.BoolVal(evs == nofwd), z3.BoolVal(evs == fwd)))
            ex.oblige(s, 'exit: the child itself filters nothing -- its root level is DEBUG (a constant, not a copy of some parent setting) before the handler is installed, so every record reaches the parent, whose level settings alone decide',
                      z3.Or(self.has_handlers, s.ghost['root_level'] == V.intv(z3.IntVal(10))))


class C20Lemma(LemmaUnit):
    prop = 'C20'
    qual = 'lemma(C20)'

    def lemmas(self):
        # history of the log queue L = child_records ++ [None] because the parent's None is put only after the child exited (all records flushed);
        # the reader handles the level-filtered prefix before the first None
        child, L, taken = z3.Consts('child_records L taken_before_none', SeqV)
        yield ('the end marker follows every child record (it is put after the child has exited) and the reader takes everything before it => every emitted record is taken, in order',
               [L == z3.Concat(child, z3.Unit(NONE)), z3.Concat(taken, z3.Unit(NONE)) == L], taken == child)


# ---------------------------------------------------------------- the wiring that makes "started through mpservice's Process" cover ProcessServlet workers and process pools
class PoolInit(Unit):
    """concurrent.futures.ProcessPoolExecutor.__init__ (mpservice's): without an explicit context the pool is built on MP_SPAWN_CTX (whose Process is
    SpawnProcess: the log forwarding above applies to every pool worker); the caller's max_workers / context / other arguments go to the stdlib constructor once."""
    prop = 'C20'
    file = 'concurrent/futures/__init__.py'
    qual = 'ProcessPoolExecutor.__init__'
    canaries = (('pool built on the stdlib default context (plain processes: child logs are lost)', '            mp_context = MP_SPAWN_CTX', '            mp_context = None', ''),)

    def setup(self, ex):
        from pyvc.core import KwPack
        st = St()
        self.given = z3.Bool('context_given')
        self.ctx = z3.Const('caller_context', Val)
        st.assume(self.ctx != NONE)
        self.mw = z3.Const('max_workers', Val)
        self.kw = KwPack(z3.Const('kwargs', Val))
        st.env.update(self=Rec(ex, 'self'), max_workers=self.mw, mp_context=z3.If(self.given, self.ctx, NONE), kwargs=self.kw)
        self.spawn_ctx = z3.Const('MP_SPAWN_CTX', Val)
        st.assume(self.spawn_ctx != NONE)
        ex.globals['MP_SPAWN_CTX'] = self.spawn_ctx
        st.ghost['init'] = ()
        return st

    def on_call(self, ex, st, e, src):
        if src == 'super().__init__':
            def f(s, ak):
                a, k = ak
                s = s.fork()
                s.ghost['init'] = s.ghost['init'] + ((tuple(a), dict(k)),)
                return [('ok', s, NONE)]
            return ex.bind(ex.evargs(e, st), f)
        return None

    def post(self, ex, outs):
        from pyvc.core import KwPack
        for k, s, p in outs:
            i = s.ghost['init']
            if k not in ('normal', 'return') or len(i) != 1:
                ex.oblige(s, 'exit: the stdlib constructor is called exactly once, no exception of its own', False)
                continue
            a, kw = i[0]
            got_ctx = kw.get('mp_context', a[1] if len(a) > 1 else None)
            got_mw = kw.get('max_workers', a[0] if len(a) > 0 else None)
            pack = kw.get('**')
            ex.oblige(s, 'exit: [C20] the pool is built on the caller\'s context, or -- none given -- on MP_SPAWN_CTX (SpawnProcess workers: their log records reach the parent); max_workers and the other arguments are the caller\'s',
                      z3.And(box(ex, got_ctx) == z3.If(self.given, self.ctx, self.spawn_ctx), box(ex, got_mw) == self.mw, z3.BoolVal(isinstance(pack, KwPack) and pack.val is self.kw.val)) if got_ctx is not None and got_mw is not None else z3.BoolVal(False))


class GetContext(Unit):
    """SpawnContext.get_context: the default and 'spawn' give THIS context (so code asking MP_SPAWN_CTX for a context keeps SpawnProcess)."""
    prop = 'C20'
    file = CTX
    qual = 'SpawnContext.get_context'
    canaries = (("get_context() falls back to the stdlib context", "        if method is None or method == 'spawn':\n            return self", "        if method == 'mpservice':\n            return self", ''),)

    def setup(self, ex):
        st = St()
        self.me = Rec(ex, 'self', immutable=True)
        self.method = z3.Const('method', Val)
        st.env.update(self=self.me, method=self.method)
        self.other = z3.Const('stdlib_context', Val)
        return st

    def on_call(self, ex, st, e, src):
        if src == 'super().get_context':
            return ex.bind(ex.evargs(e, st), lambda s, ak: [('ok', s, self.other)])
        return None

    def post(self, ex, outs):
        for k, s, p in outs:
            if k in ('normal', 'return'):
                mine = z3.Or(self.method == NONE, self.method == box(ex, z3.StringVal('spawn')))
                ex.oblige(s, 'exit: for method None / "spawn" returns this very context; anything else is the stdlib\'s answer', z3.If(mine, z3.BoolVal(unbox_handle(ex, p) is self.me), z3.And(z3.BoolVal(unbox_handle(ex, p) is not self.me), box(ex, p) == self.other)))
            else:
                ex.oblige(s, 'exit: does not raise', False)


class ProcessWiring(Unit):
    """Module-level wiring (read from the AST of the real files; no code is executed): SpawnContext.Process is SpawnProcess, MP_SPAWN_CTX is a SpawnContext(),
    mpservice.multiprocessing.Process is SpawnProcess, and ProcessServlet imports THAT Process."""
    prop = 'C20'
    file = CTX
    qual = 'SpawnContext'

    def run(self, override=None):
        import ast, hashlib
        from pyvc.unit import load_source, find_function
        from pyvc.core import Obligation
        res = {'unit': self.name, 'status': 'ok', 'obligations': [], 'covers': {}, 'ignored': [], 'sha': None, 'error': None, 'paths': 1, 'lineno': None, 'unreached': []}
        self.ex = None
        try:
            ctx_src = load_source(CTX, override if self.file == CTX else None)
            ctx = ast.parse(ctx_src)
            init = ast.parse(load_source('multiprocessing/__init__.py', None))
            servlet = ast.parse(load_source('mpserver/_servlet.py', None))
            cls = find_function(ctx, 'SpawnContext')
        except (KeyError, SyntaxError, FileNotFoundError) as e:
            res['status'], res['error'] = 'undecided', f'cannot read the wiring: {e!r}'
            return res
        res['lineno'] = cls.lineno
        res['sha'] = hashlib.sha256(ast.get_source_segment(ctx_src, cls).encode()).hexdigest()

        def assigns(body, name):
            return [ast.unparse(x.value) for x in body if isinstance(x, ast.Assign) and len(x.targets) == 1 and ast.unparse(x.targets[0]) == name]

        def imports(tree, module_suffixes, name):
            return any(isinstance(x, ast.ImportFrom) and (x.module or '').endswith(module_suffixes) and any(a.name == name and a.asname in (None, name) for a in x.names) for x in ast.walk(tree))
        facts = [
            ('SpawnContext.Process is SpawnProcess (every process made through the context forwards its log records)', assigns(cls.body, 'Process') == ['SpawnProcess'] and [ast.unparse(b) for b in cls.bases] == ['multiprocessing.context.SpawnContext']),
            ('MP_SPAWN_CTX is an instance of this SpawnContext', assigns(ctx.body, 'MP_SPAWN_CTX') == ['SpawnContext()']),
            ('mpservice.multiprocessing.Process is SpawnProcess (imported from .context)', assigns(init.body, 'Process') == ['SpawnProcess'] and imports(init, ('context',), 'SpawnProcess')),
            ('ProcessServlet creates its workers with mpservice.multiprocessing.Process', imports(servlet, ('mpservice.multiprocessing', '.multiprocessing'), 'Process') and not assigns(servlet.body, 'Process')),
        ]
        for name, ok in facts:
            ob = Obligation(f'wiring: {name}', [], z3.BoolVal(bool(ok)), [cls.lineno], 'assert')
            ob.unit = self.name
            res['obligations'].append(ob)
        return res


from contracts.c12 import ProcInit, ProcInitNone       # noqa: E402
UNITS = [ProcInit, ProcInitNone, RunLogger, CollectResult, ChildRunLogging, ProcessRunNoTarget, StartUnit, PoolInit, GetContext, ProcessWiring, C20Lemma]
SCENARIOS = [('', 'replay/scenarios/c20_child_logs.py', (50, 2000)), ('', 'replay/scenarios/c20_child_logs.py', (3000, 200)), ('', 'replay/scenarios/c20_child_logs.py', (0, 1))]
THOROUGH_SCENARIOS = [('', 'replay/scenarios/c20_child_logs.py', (20000, 100), 300), ('', 'replay/scenarios/c20_child_logs.py', (100, 100000), 300)]
