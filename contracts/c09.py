"""C09 — workers see well-formed batches; no request waits for a full batch."""
import z3
from pyvc.unit import LemmaUnit
from contracts.worker import UNITS_SINGLE, UNITS_BATCH, ASSUMPTIONS as W_ASSUMPTIONS
from contracts.singlelane import SLPut, SLGet, SLRelyGuarantee


class C09Lemma(LemmaUnit):
    prop = 'C09'
    qual = 'lemma(C09)'

    def lemmas(self):
        taken, to_buffer, to_out, batched = z3.Ints('taken_from_q_in put_on_buffer short_circuited items_in_batches')
        yield ('every accepted request is in exactly one batch: the collector dispatches each item it takes exactly once (buffer or error), the buffer is FIFO (SingleLane), and _get_input_batch returns consecutive buffer items',
               [taken == to_buffer + to_out, batched == to_buffer], taken - to_out == batched)
        t_first, wait, t_release = z3.Reals('t_first batch_wait_time t_release')
        yield ('a lone request is released no later than batch_wait_time after it was taken (at once when the wait is 0)', [t_release <= t_first + wait, wait == 0, t_release >= t_first], t_release == t_first)


UNITS = list(UNITS_BATCH) + list(UNITS_SINGLE) + [SLPut, SLGet, SLRelyGuarantee, C09Lemma]
ASSUMPTIONS = tuple(W_ASSUMPTIONS) + ('ghost clock: time passes only in blocking calls; timed gets honour their timeout exactly',
                                      'the collector is the only writer and the batch consumer the only reader of the batch buffer (SingleLane precondition; the end marker put-back happens after the collector has returned)')
NOT_DECIDED = ('real-time accuracy of Condition.wait(timeout)', 'fair hand-over of the shared read lock between competing workers (_batch_get_called heuristics)')
SCENARIOS = [('', 'replay/scenarios/c09_collector_lost_wakeup.py'), ('', 'replay/scenarios/c09_batches.py')]
