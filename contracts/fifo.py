"""fifo_stream / async_fifo_stream: feeder and consumer roles against ONE shared item protocol (C01, C05, C07, C08, C16).

History functions of the index (no sequences, no quantifiers): src_at(k) is the k-th element the feeder pulls from the
source; the k-th item the feeder puts on the hand-off queue is, by the feeder's guarantee (proved in the feeder unit at
every put, assumed by the consumer unit at every get -- the SAME python function builds both formulas):
    pair      (src_at(k), f)  with f the future func returned for that element (or a pre-failed future carrying the
              preprocessor's exception), for every k below the terminal index,
    terminal  None (source exhausted after exactly k elements, or the consumer asked to stop) or the exception that ended
              the feeder (the source's or func's own), put exactly once and last.
The queue delivers the k-th put as the k-th get (contracts/singlelane.py for SingleLane; trusted for asyncio.Queue).
"""
import ast
import z3

from pyvc import vals as V
from pyvc.vals import Val, SeqV, NONE, fresh, PyTuple
from pyvc.unit import Unit, LoopSpec, LemmaUnit
from pyvc.models import (Source, UFunc, Rec, Fn, Nop, Event, Future, FutureCtor, QueueWriter, QueueReader, FutureSym,
                         ThreadCtor, ThreadObj, fut_ok, fut_val, fut_exc)
from pyvc.core import St, Module, box, Unsupported, KwPack, NOKW, Closure, Obj, unbox_handle, Callable_, as_int

F = 'streamer/_streamer.py'

src_at = z3.Function('src_at', z3.IntSort(), Val)
FAIL = z3.Const('feeder_failure', Val)            # the exception that ended the feeder (defined at its unique terminal put)
STOP_EXC = ('Exception', 'StopRequested')


def is_failure(z):
    return z3.Or(V.isinst(z, 'Exception'), V.isinst(z, 'StopRequested'))


class Proto:
    """Parameters of one fifo_stream call, shared by both roles."""

    def __init__(self, with_pre):
        self.func = UFunc('func', 1, raises='Exception')          # returns a future (a value); may itself raise (e.g. Server._enqueue)
        self.pre = UFunc('pre', 1, raises='Exception', with_kw=False) if with_pre else None
        self.kw = KwPack(z3.Const('func_kwargs', Val))

    # future the feeder must enqueue for element x
    def fut_spec(self, x, f):
        fx, okx, _ = self.func.app(None, x, kw=self.kw.val)
        if self.pre is None:
            return z3.And(okx, f == fx)
        px, pok, pexc = self.pre.f(x), self.pre.ok(x), self.pre.exc(x)
        fpx, okpx, _ = self.func.app(None, px, kw=self.kw.val)
        return z3.If(pok, z3.And(okpx, f == fpx), z3.And(z3.Not(fut_ok(f)), fut_exc(f) == pexc))

    def G_pair(self, k, z, f):
        return z3.And(z == V.tup(V.seq_of([src_at(k), f])), self.fut_spec(src_at(k), f))

    @staticmethod
    def G_none(k, z, src_done, n_pulled, stop_set):
        return z3.And(z == NONE, z3.Or(z3.And(src_done, n_pulled == k), stop_set))

    @staticmethod
    def G_exc(k, z):
        return z3.And(is_failure(z), z == FAIL)


class NamedSource(Source):
    """Source whose k-th element is named src_at(k) (a definition: each index is pulled once)."""

    def pull(self, ex, st, node):
        outs = []
        for kind, s, x in super().pull(ex, st, node):
            if kind == 'item':
                k = z3.Length(self.seen(s)) - 1
                s.assume(x == src_at(k))
            outs.append((kind, s, x))
        return outs


# ================================================================ feeder role
class FeedUnit(Unit):
    prop = 'C01'
    file = F
    qual = 'fifo_stream.<locals>.feed'
    with_pre = True
    qname = 'q'
    src_raises = ('Exception', 'StopRequested')
    expected_exits = ('normal',)
    numeric_vals_are_ints = True

    def __init__(self):
        self.variant = 'preprocessor' if self.with_pre else 'no-preprocessor'
        super().__init__()

    def setup(self, ex):
        st = St()
        self.P = Proto(self.with_pre)
        self.src = NamedSource(ex, 'src', may_raise=self.src_raises)
        self.src.init(st)
        self.to_stop = Event(ex, 'to_stop')
        self.to_stop.init(st)
        self.q = QueueWriter(ex, 'q')
        self.q.init(st)
        st.env.update({'instream': self.src, 'func': self.P.func, 'to_stop': self.to_stop, self.qname: self.q,
                       'preprocessor': (self.P.pre if self.with_pre else NONE), 'func_kwargs': self.P.kw})
        st.ghost['terminal_put'] = z3.BoolVal(False)
        ex.globals['concurrent'] = Module('concurrent')
        ex.globals['concurrent.futures'] = Module('concurrent.futures')
        ex.globals['concurrent.futures.Future'] = FutureCtor()
        ex.globals['asyncio'] = Module('asyncio')
        ex.globals['asyncio.Future'] = FutureCtor()
        return st

    # -- the guarantee, checked at every put
    def on_put(self, ex, st, q, k, item, node):
        ex.oblige(st, f'line {node.lineno}: nothing is put after the terminal item (terminal marker is last, exactly once)', z3.Not(st.ghost['terminal_put']))
        seen = self.src.seen(st)
        item_u = unbox_handle(ex, item)
        if isinstance(item_u, PyTuple) and len(item_u.items) == 2:
            x, f = item_u.items
            f_u = unbox_handle(ex, f)
            if isinstance(f_u, Future):
                fv = f_u.val()
                # link the concrete pre-failed future to the outcome functions (definition of fut_ok/fut_exc for this object)
                st.assume(z3.Implies(f_u.get(st, 'done'), fut_ok(fv) == z3.Not(f_u.get(st, 'is_exc'))),
                          z3.Implies(z3.And(f_u.get(st, 'done'), f_u.get(st, 'is_exc')), fut_exc(fv) == f_u.get(st, 'val')))
                ex.oblige(st, f'line {node.lineno}: a future created by the feeder is already resolved when enqueued', f_u.get(st, 'done'))
                f = fv
            ex.oblige(st, f'line {node.lineno}: item #k pairs the k-th source element with ITS OWN future (func of it, or the pre-failed future of its preprocessor error)',
                      z3.And(k == z3.Length(seen) - 1, self.P.G_pair(k, box(ex, PyTuple([x, f])), box(ex, f))))
            return
        z = box(ex, item)
        st.ghost['terminal_put'] = z3.BoolVal(True)
        none_case = z3.And(z == NONE, Proto.G_none(k, z, self.src.done(st), z3.Length(seen), self.to_stop.get(st, 'flag')))
        st.assume(z3.Implies(z != NONE, FAIL == z))          # definition of FAIL at the unique terminal put
        last_x = V.last(seen)
        func_failed = []
        if self.with_pre:
            px = self.P.pre.f(last_x)
            _, okp, excp = self.P.func.app(None, px, kw=self.P.kw.val)
            func_failed.append(z3.And(z3.Length(seen) == k + 1, self.P.pre.ok(last_x), z3.Not(okp), z == excp))
        else:
            _, okx, excx = self.P.func.app(None, last_x, kw=self.P.kw.val)
            func_failed.append(z3.And(z3.Length(seen) == k + 1, z3.Not(okx), z == excx))
        exc_case = z3.And(Proto.G_exc(k, z), z3.Or(z3.And(self.src.failed(st), z == st.ghost.get('src.error', z), z3.Length(seen) == k), *func_failed))
        ex.oblige(st, f'line {node.lineno}: terminal item: None (source exhausted after exactly k elements, or stop requested) or the very exception that ended the feed',
                  z3.Or(none_case, exc_case))

    @property
    def loops(self):
        def inv(s, ex):
            return z3.And(z3.Not(self.src.done(s)), z3.Not(self.src.failed(s)), self.q.nput(s) == z3.Length(self.src.seen(s)),
                          z3.Not(s.ghost['terminal_put']))
        return {0: LoopSpec(inv=inv, split_first=True, first_cond=lambda s, ex: z3.Length(self.src.seen(s)) == 0)}

    def after_put_lookahead(self, ex, st):
        pass

    def post(self, ex, outs):
        for k, s, p in outs:
            if k in ('normal', 'return'):
                ex.oblige(s, 'exit: exactly one terminal item was put, as the last action on the queue [S3]', s.ghost['terminal_put'])
            elif k == 'raise':
                ex.oblige(s, 'exit(raise): the feeder lets only non-stream failures escape (KeyboardInterrupt/SystemExit/GeneratorExit-like BaseExceptions), never Exception/StopRequested',
                          z3.Not(is_failure(p)))


class FeedUnitNoPre(FeedUnit):
    with_pre = False


FeedUnit.canaries = (
    ('pinned-tree C16 shape: pre-failed future bound to another name', '                        fut = concurrent.futures.Future()\n                        fut.set_exception(e)',
     '                        fut2 = concurrent.futures.Future()\n                        fut2.set_exception(e)', ''),
    ('pairs the preprocessed value instead of the original element', 'q.put((x, fut))', 'q.put((xx, fut))', 'ITS OWN future'),
    ('terminal None missing on the normal path', '        else:\n            q.put(None)', '        else:\n            pass', 'exactly one terminal'),
    ('StopRequested not forwarded (pinned-tree C05 defect)', 'except (Exception, StopRequested) as e:', 'except Exception as e:', 'never Exception/StopRequested'),
    ('element enqueued twice', '                q.put((x, fut))', '                q.put((x, fut))\n                q.put((x, fut))', ''),
)
FeedUnitNoPre.canaries = (
    ('kwargs not passed to func', 'fut = func(x, **func_kwargs)', 'fut = func(x)', 'ITS OWN future'),
)


# ================================================================ consumer role
class ConsumerUnit(Unit):
    prop = 'C01'
    file = F
    qual = 'fifo_stream'
    with_pre = True
    consumer_may_stop = True
    inlined_defs = ()
    expected_exits = ('normal', 'raise')
    queue_ctor = 'SingleLane'
    numeric_vals_are_ints = True

    def __init__(self):
        self.variant = 'preprocessor' if self.with_pre else 'no-preprocessor'
        super().__init__()

    def setup(self, ex):
        st = St()
        self.P = Proto(self.with_pre)
        self.instream = z3.Const('instream', Val)
        self.capacity = z3.Int('capacity')
        st.assume(self.capacity >= 1)
        self.return_x, self.return_exc = z3.Bool('return_x'), z3.Bool('return_exceptions')
        st.env.update({'instream': self.instream, 'func': self.P.func, 'name': z3.String('name'), 'capacity': self.capacity,
                       'return_x': self.return_x, 'return_exceptions': self.return_exc,
                       'preprocessor': (self.P.pre if self.with_pre else NONE), 'kwargs': self.P.kw})
        st.ghost['nyield'] = z3.IntVal(0)
        st.ghost['terminal_got'] = z3.BoolVal(False)
        st.ghost['terminal_index'] = z3.IntVal(-1)
        st.ghost['main.index'] = z3.IntVal(-1)            # index of the item the main loop is answering
        st.ghost['main.terminal'] = z3.BoolVal(False)     # the main loop (not the final drain) received the terminal item
        st.ghost['main.fut'] = NONE                        # the future of the item the main loop is answering
        st.ghost['cancelled'] = V.EMPTY
        fn, _, _ = self.load()
        gets = sorted(n.lineno for n in ast.walk(fn) if isinstance(n, ast.Call) and ast.unparse(n.func) == 'tasks.get'
                      and not any(isinstance(a, (ast.FunctionDef, ast.AsyncFunctionDef)) and a is not fn and a.lineno <= n.lineno <= a.end_lineno for a in ast.walk(fn)))
        if not gets:
            raise KeyError('no `tasks.get(...)` call in the consumer: the contract is bound to the local name `tasks` of the hand-off queue')
        self.main_get_line = gets[0]
        st.ghost['src_exhausted'] = z3.Bool('src_exhausted')
        st.ghost['n_pulled'] = z3.Int('n_pulled')
        self.made = {}

        def mkq(e, s, a, k, n):
            q = QueueReader(e, 'q', maxsize=a[0] if a else None)
            s = s.fork()
            q.init(s)
            self.made.setdefault('q', q)          # the first queue created is the consumer's `tasks`
            self.made.setdefault('queues', []).append(q)
            return [('ok', s, q)]

        def mkev(e, s, a, k, n):
            ev = Event(e, 'to_stop')
            s = s.fork()
            ev.init(s)
            ev.exact = True
            self.made['ev'] = ev
            return [('ok', s, ev)]
        ex.globals['SingleLane'] = Fn(mkq, name='SingleLane')
        ex.globals['threading'] = Module('threading')
        ex.globals['threading.Event'] = Fn(mkev, name='threading.Event')
        ex.globals['Thread'] = ThreadCtor()
        ex.globals['asyncio'] = Module('asyncio')
        ex.sym_models['fut'] = FutureSym('BaseException')
        ex.sym_models['t'] = FutureSym('BaseException')
        return st

    # this role is the only one that sets to_stop: its own knowledge of the flag is exact
    def stop_set(self, s):
        ev = self.made.get('ev')
        return ev.get(s, 'flag') if ev is not None else z3.BoolVal(False)

    # -- rely on the feeder (its guarantee), assumed at every get
    def on_get(self, ex, st, q, k, z, node):
        ex.oblige(st, f'line {node.lineno}: no get after the terminal item was received (it would block forever)', z3.Not(st.ghost['terminal_got']))
        outs = []
        f = fresh('f')
        is_main = node.lineno == self.main_get_line
        s1 = st.fork().assume(self.P.G_pair(k, z, f), *V.cls_facts(z))
        outs.append(s1)
        s2 = st.fork().assume(Proto.G_none(k, z, st.ghost['src_exhausted'], st.ghost['n_pulled'], self.stop_set(st)))
        outs.append(s2)
        s3 = st.fork().assume(Proto.G_exc(k, z), *V.cls_facts(z))
        outs.append(s3)
        for s in (s2, s3):
            s.ghost['terminal_got'] = z3.BoolVal(True)
            s.ghost['terminal_index'] = k
        if is_main:
            s1.ghost['main.fut'] = f
            for s in outs:
                s.ghost['main.index'] = k
            s2.ghost['main.terminal'] = z3.BoolVal(True)
            s3.ghost['main.terminal'] = z3.BoolVal(True)
        return outs

    def on_empty(self, ex, st, q, b, node):
        # once the terminal item has been received nothing is left (terminal is last)
        st.assume(z3.Implies(st.ghost['terminal_got'], b))

    # -- spawn binding: the feeder thread runs `feed` on exactly the objects this function uses
    def on_thread_start(self, ex, st, t, node):
        tgt = t.target
        args = unbox_handle(ex, t.args)
        kw = t.kwargs
        ok = isinstance(tgt, Closure) and getattr(tgt.node, 'name', '') == 'feed'
        from pyvc.core import DictVal
        ok = ok and isinstance(args, PyTuple) and len(args.items) == 2 and isinstance(kw, DictVal)
        conds = [z3.BoolVal(bool(ok))]
        if ok:
            conds += [box(ex, args.items[0]) == self.instream, z3.BoolVal(unbox_handle(ex, args.items[1]) is self.P.func),
                      z3.BoolVal(unbox_handle(ex, kw.items.get('to_stop')) is self.made.get('ev')),
                      z3.BoolVal(unbox_handle(ex, kw.items.get('q', kw.items.get('tasks'))) is self.made.get('q')
                                 and unbox_handle(ex, st.env['tasks']) is self.made.get('q') and len(self.made.get('queues', [])) == 1),
                      z3.BoolVal((unbox_handle(ex, kw.items.get('preprocessor')) is self.P.pre) if self.with_pre else
                                 z3.is_true(z3.simplify(box(ex, kw.items.get('preprocessor')) == NONE))),
                      z3.BoolVal(kw.pack is self.P.kw and set(kw.items) == {'to_stop', 'q' if 'q' in kw.items else 'tasks', 'preprocessor'})]
        ex.oblige(st, f'line {node.lineno}: spawn binding: the feeder is `feed(instream, func, to_stop=<this flag>, q=<this queue>, preprocessor=..., **kwargs)`', z3.And(conds))
        q = self.made.get('q')
        ex.oblige(st, f'line {node.lineno}: [C08] the hand-off queue is bounded by capacity + 1',
                  as_int(ex, st, q.maxsize) == self.capacity + 1 if (q is not None and q.maxsize is not None) else z3.BoolVal(False))

    def omap(self, x, y):
        return z3.If(self.return_x, V.tup(V.seq_of([x, y])), y)

    def on_yield(self, ex, st, val, node):
        q = self.made['q']
        k = q.nget(st) - 1                  # index of the item being answered
        n = st.ghost['nyield']
        # the item at index k is (src_at(k), f) with f per the feeder guarantee; the output must be omap(x_k, outcome(f))
        f = st.env['fut'] if 'fut' in st.env else st.env['t']        # the local holding the future of the item being answered (sync: fut, async: t); KeyError = binding error
        y_ok = z3.And(fut_ok(f), val == self.omap(src_at(k), fut_val(f)))
        y_exc = z3.And(z3.Not(fut_ok(f)), self.return_exc, V.isinst(fut_exc(f), 'Exception'), val == self.omap(src_at(k), fut_exc(f)))
        ex.oblige(st, f'line {node.lineno}: output #k is produced exactly once, in input order (k == number of outputs so far)', n == k)
        ex.oblige(st, f'line {node.lineno}: output #k is the outcome of element #k\'s own future (its exception object if return_exceptions; paired with its own input if return_x)',
                  z3.And(self.P.fut_spec(src_at(k), f), z3.Or(y_ok, y_exc)))
        st.ghost['nyield'] = n + 1

    @property
    def loops(self):
        def main(s, ex):
            q = self.made['q']
            th = [o for o in ex.objs.values() if isinstance(o, ThreadObj)]
            return z3.And(q.nget(s) == s.ghost['nyield'], z3.Not(s.ghost['terminal_got']), z3.Not(s.ghost['main.terminal']), z3.Not(self.stop_set(s)),
                          s.ghost['cancelled'] == V.EMPTY, *[z3.And(t.get(s, 'started'), z3.Not(t.get(s, 'joined'))) for t in th])

        def drain(s, ex):
            # the final drain only takes further items off the queue and cancels their futures
            return z3.BoolVal(True)
        return {0: LoopSpec(inv=main, keep=('tasks', 'to_stop', 'feeder')),
                1: LoopSpec(inv=drain, keep=('tasks', 'to_stop', 'feeder'),
                            keep_ghost=('nyield', 'src_exhausted', 'n_pulled', 'main.index', 'main.terminal', 'main.fut'))}

    def setup_thread_pred(self):
        pass

    def post(self, ex, outs):
        for k, s, p in outs:
            th = [o for o in ex.objs.values() if isinstance(o, ThreadObj)]
            joined = z3.And([z3.And(t.get(s, 'started'), t.get(s, 'joined')) for t in th]) if th else z3.BoolVal(False)
            ex.oblige(s, f'exit({k}): the feeder thread was started and has been joined [C05: no helper thread left]', joined)
            idx = s.ghost['main.index']
            if k in ('normal', 'return'):
                ex.oblige(s, 'exit(exhausted): one output per source element: #outputs == terminal index == number of elements pulled, and the source is exhausted',
                          z3.And(s.ghost['main.terminal'], s.ghost['nyield'] == idx, s.ghost['src_exhausted'],
                                 s.ghost['n_pulled'] == s.ghost['nyield']))
            elif k == 'raise':
                ex.oblige(s, 'exit(raise): the stop flag is set so the feeder ends [C05]', self.stop_set(s))
                fcur = s.ghost['main.fut']
                from_feeder = z3.And(s.ghost['main.terminal'], p == FAIL, s.ghost['nyield'] == idx)
                from_future = z3.And(z3.Not(s.ghost['main.terminal']), s.ghost['nyield'] == idx, z3.Not(fut_ok(fcur)), p == fut_exc(fcur),
                                     z3.Or(z3.Not(self.return_exc), z3.Not(V.isinst(p, 'Exception'))))
                stopped = V.isinst(p, 'GeneratorExit')
                ex.oblige(s, 'exit(raise): the first failure in stream order, raised exactly once after all earlier outputs (feeder\'s failure at the terminal index, or element #k\'s own exception), or the consumer stopped',
                          z3.Or(from_feeder, from_future, stopped))


class ConsumerUnitNoPre(ConsumerUnit):
    with_pre = False


ConsumerUnit.canaries = (
    ('pairs output with the result instead of the input', 'yield x, y', 'yield y, x', "own future"),
    ('exception swallowed instead of raised', "                if return_exceptions:\n                    # TODO: think about when `e` is a \"remote exception\".\n                    y = e\n                else:\n                    raise",
     "                y = e", "own future"),
    ('feeder not joined', '        feeder.join()', '        pass', 'has been joined'),
    ('stop flag not set on early exit', '        to_stop.set()\n        raise', '        raise', 'stop flag is set'),
    ('queue not bounded by capacity', 'tasks = SingleLane(capacity + 1)', 'tasks = SingleLane()', ''),
    ('feeder bound to another queue', "'q': tasks,", "'q': SingleLane(capacity + 1),", 'spawn binding'),
)
