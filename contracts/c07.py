"""C07 — an abandoned request (timeout, dropped stream) never harms the server."""
from contracts.server import UNITS_C07, ASSUMPTIONS
from contracts.fifo import ConsumerUnit, ConsumerUnitNoPre
# "every other pending or later request is still answered ... and the server still shuts down normally" also rests on: the enqueue side (a waiter is woken by
# the notification the late result still produces), the async stream/call entry points (which abandon by cancelling), and the exit paths (which join the helper threads)
from contracts.server import EnqueueUnit, AEnqueueUnit, NotifyUnit, UNITS_ENTRY
from contracts.c11 import ServerExit, ServerExitThreadQ, AServerExit, OnboardUnit
UNITS = list(UNITS_C07) + [ConsumerUnit, ConsumerUnitNoPre, EnqueueUnit, AEnqueueUnit, NotifyUnit] + list(UNITS_ENTRY) + [ServerExit, ServerExitThreadQ, AServerExit, OnboardUnit]
SCENARIOS = [('', 'replay/scenarios/c07_cancel_window.py')]
