"""C07 — an abandoned request (timeout, dropped stream) never harms the server."""
from contracts.server import UNITS_C07, ASSUMPTIONS
from contracts.fifo import ConsumerUnit, ConsumerUnitNoPre
UNITS = list(UNITS_C07) + [ConsumerUnit, ConsumerUnitNoPre]
SCENARIOS = [('', 'replay/scenarios/c07_cancel_window.py')]
