"""mpserver.Worker: input collection, batching, pairing of request ids with outputs (C02, C04, C09).

History functions of the index: in_uid(k), in_x(k) = the k-th item this worker takes from q_in; Yat(j) = the j-th value
handed to Worker.stream (an input, [input], or a batch), req(j) = the input index it came from; the side queue q_uid(s)
carries, as its j-th item, the uid (resp. the list of uids) of exactly that value (proved in get_input at every yield),
Worker.stream yields as its j-th output the outcome of call(Yat(j)) (proved for the default branch; C01 for the Parmapper
branch), so the j-th output is put on q_out under the uid of the request whose input it was computed from."""
import ast
import z3

from pyvc import vals as V
from pyvc.vals import Val, SeqV, NONE, fresh, PyTuple
from pyvc.unit import Unit, LoopSpec, LemmaUnit
from pyvc.models import (Rec, Fn, Nop, UFunc, Source, SpecFn, QueueReader, QueueWriter, TimedQueue, GhostClock, Event, Lock, ThreadCtor, ThreadObj, seqof)
from pyvc.core import St, Module, box, Unsupported, Obj, unbox_handle, ExcClass, Closure, as_seq, Callable_

F = 'mpserver/_worker.py'
in_uid = z3.Function('in_uid', z3.IntSort(), Val)
in_x = z3.Function('in_x', z3.IntSort(), Val)
Yat = z3.Function('Y_at', z3.IntSort(), Val)
req = z3.Function('req_of', z3.IntSort(), z3.IntSort())
remote = z3.Function('RemoteException', Val, Val)          # RemoteException(e): own contract C15
remote_exc_of = z3.Function('RemoteException_exc', Val, Val)

ASSUMPTIONS = (
    'user code: Worker.call / preprocess are uninterpreted functions of their argument (per-call outcome fixed), terminate, and a batched call returns one result per input',
    'queues: each item put on a (multiprocessing) queue is received by exactly one reader, FIFO per writer; queue.SimpleQueue between two threads of one worker is FIFO',
    'RemoteException(e) wraps e (C15); isinstance(x, RemoteException) is decidable from the value',
    'a BaseException (non-Exception) raised by user preprocess/call kills the worker: outside the property\'s fault model',
)


def remote_facts(v):
    """RemoteException objects are not exceptions (plain class)"""
    return [z3.Not(V.isinst(v, 'BaseException'))] if False else []


def mk_remote(ex):
    def f(e, s, a, k, n):
        v = remote(box(e, a[0]))
        s = s.fork().assume(V.ucls(v) == V.K['RemoteException'], remote_exc_of(v) == box(e, a[0]), *V.cls_facts(v))
        return [('ok', s, v)]
    return Fn(f, name='RemoteException')


def is_remote_exception_model():
    """is_remote_exception(e): True only for an EXCEPTION whose cause is a remote traceback (what a RemoteException unpickles to); never for the RemoteException wrapper itself"""
    came_from_remote = z3.Function('has_remote_traceback_cause', Val, z3.BoolSort())
    return Fn(lambda e, s, a, k, n: [('ok', s, z3.And(V.isinst(box(e, a[0]), 'BaseException'), came_from_remote(box(e, a[0]))))], name='is_remote_exception')


# ================================================================ Worker.stream (default branch)
class StreamUnit(Unit):
    prop = 'C02'
    file = F
    qual = 'Worker.stream'
    consumer_may_stop = False
    unreachable_ok = ('yield from Parmapper(',)        # in-worker thread pool branch: C01 contract with return_exceptions=True
    canaries = (('exception raised instead of yielded', '                except Exception as e:\n                    y = e', '                except Exception as e:\n                    raise', 'outcome of its own call'),
                ('result of the previous element yielded on failure', '                except Exception as e:\n                    y = e\n                yield y', '                except Exception as e:\n                    pass\n                yield y', ''))

    def setup(self, ex):
        st = St()
        self.call = UFunc('call', 1, raises='Exception', with_kw=False)
        self.src = Source(ex, 'xx')
        self.src.init(st)
        st.env['self'] = Rec(ex, 'self', immutable=True, methods={'call': self.call}).init(st, num_stream_threads=z3.IntVal(0))
        st.env['xx'] = self.src
        st.ghost['out'] = V.EMPTY
        self.res = SpecFn('smap_res', lambda acc, x: z3.Concat(acc, z3.Unit(z3.If(self.call.ok(x), self.call.f(x), self.call.exc(x)))))
        self.src.fns = (self.res,)
        st.assume(*self.res.base_facts())
        return st

    @property
    def loops(self):
        return {0: LoopSpec(inv=lambda s, ex: z3.And(z3.Not(self.src.done(s)), z3.Not(self.src.failed(s)), s.ghost['out'] == self.res(self.src.seen(s)),
                                                      z3.Length(s.ghost['out']) == z3.Length(self.src.seen(s))), split_first=True,
                            first_cond=lambda s, ex: z3.Length(self.src.seen(s)) == 0)}

    def after_yield(self, ex, st, val, node):
        seen = self.src.seen(st)
        x = V.last(seen)
        ex.oblige(st, f'line {node.lineno}: the j-th output is the outcome of its own call: call(x_j), or the exception object call(x_j) raised; outputs in input order, look-ahead <= 1',
                  z3.And(z3.Length(st.ghost['out']) == z3.Length(seen), val == z3.If(self.call.ok(x), self.call.f(x), self.call.exc(x))))

    def post(self, ex, outs):
        for k, s, p in outs:
            if k in ('normal', 'return'):
                ex.oblige(s, 'exit: one output per input, in order', z3.And(s.ghost['out'] == self.res(self.src.seen(s)), self.src.done(s)))
            else:
                ex.oblige(s, 'exit: a failing call never ends the stream (its exception is yielded as a value)', False)


# ================================================================ _start_single
class SingleGetInput(Unit):
    prop = 'C02'
    file = F
    qual = 'Worker._start_single.<locals>.get_input'
    has_pre = True
    consumer_may_stop = False
    expected_exits = ('normal',)
    canaries = (
        ('uid queued before the element is known to be accepted', '                q_uid.put(uid)\n                if batched:', '                if batched:', 'queued'),
        ('rejected element still handed to call', '                    q_out.put((uid, x))\n                    continue', '                    q_out.put((uid, x))', ''),
        ('error short-circuited under another uid', '                    q_out.put((uid, x))\n                    continue', '                    q_out.put((0, x))\n                    continue', 'own uid'),
        ('end marker not re-broadcast', '                    q_in.put(z)  # broadcast to one fellow worker\n', '', 're-broadcast'),
    )

    def __init__(self):
        if not self.has_pre:
            self.variant = 'no-preprocess'
        super().__init__()

    def setup(self, ex):
        st = St()
        self.pre = UFunc('preprocess', 1, raises='Exception', with_kw=False)
        self.batched = z3.Bool('batched')
        me = Rec(ex, 'self', immutable=True)
        me.init(st, batch_size=z3.If(self.batched, z3.IntVal(1), z3.IntVal(0)))
        if self.has_pre:
            me.set(st, 'preprocess', self.pre)
        st.cells['self'] = me
        self.q_in = QueueReader(ex, 'q_in')
        self.q_in.init(st)
        self.q_out = QueueWriter(ex, 'q_out')
        self.q_out.init(st)
        self.q_uid = QueueWriter(ex, 'q_uid')
        self.q_uid.init(st)
        self.q_in.m_put = self.rebroadcast
        st.env.update(q_in=self.q_in, q_out=self.q_out, q_uid=self.q_uid)
        st.ghost['nyield'] = z3.IntVal(0)
        st.ghost['cur'] = z3.IntVal(-1)
        st.ghost['short_cur'] = z3.IntVal(-1)
        st.ghost['none_got'] = z3.BoolVal(False)
        st.ghost['rebroadcast'] = z3.IntVal(0)
        st.ghost['none_out'] = z3.IntVal(0)
        st.ghost['shorted'] = z3.IntVal(0)
        ex.globals['RemoteException'] = ExcClass('RemoteException')
        ex.globals['is_remote_exception'] = is_remote_exception_model()
        self.mk_remote = mk_remote(ex)
        return st

    def on_call(self, ex, st, e, src):
        if src == 'RemoteException':
            return ex.bind(ex.evargs(e, st), lambda s, ak: self.mk_remote.invoke(ex, s, ak[0], ak[1], e))
        return None

    def rebroadcast(self, ex, st, args, kwargs, node):
        st = st.fork()
        ex.oblige(st, f'line {node.lineno}: only the end marker is put back on the input queue', box(ex, args[0]) == NONE)
        st.ghost['rebroadcast'] = st.ghost['rebroadcast'] + 1
        return [('ok', st, NONE)]

    def on_get(self, ex, st, q, k, z, node):
        ex.oblige(st, f'line {node.lineno}: nothing is read after the end marker', z3.Not(st.ghost['none_got']))
        s1 = st.fork().assume(z == NONE)
        s1.ghost['none_got'] = z3.BoolVal(True)
        s2 = st.fork().assume(z == V.tup(V.seq_of([in_uid(k), in_x(k)])), *V.cls_facts(in_x(k)))
        s2.ghost['cur'] = k
        return [s1, s2]

    def on_put(self, ex, st, q, k, item, node):
        if q is self.q_uid:
            ex.oblige(st, f'line {node.lineno}: [C02] exactly one uid per yielded input, queued before the yield, and it is the uid of the request being handled',
                      z3.And(k == st.ghost['nyield'], box(ex, item) == in_uid(st.ghost['cur'])))
            return
        z = box(ex, item)
        item_u = unbox_handle(ex, item)
        if not isinstance(item_u, PyTuple):
            # the end marker being forwarded (whatever else would be a failed obligation)
            ex.oblige(st, f'line {node.lineno}: a non-tuple put on the output queue is the end marker, after it was read', z3.And(z == NONE, st.ghost['none_got']))
            st.ghost['none_out'] = st.ghost['none_out'] + 1
            return
        cur = st.ghost['cur']
        x = in_x(cur)
        ok = len(item_u.items) == 2
        err = box(ex, item_u.items[1]) if ok else NONE
        was_exc = V.isinst(x, 'Exception')
        was_remote = V.isinst(x, 'RemoteException')
        if self.has_pre:
            px = self.pre.f(x)
            st.assume(*V.cls_facts(px))
            pre_case = z3.If(z3.Not(self.pre.ok(x)), err == remote(self.pre.exc(x)),
                             # preprocess RETURNED an exception value: treated like a raised one
                             z3.If(V.isinst(px, 'RemoteException'), err == px, z3.And(V.isinst(px, 'Exception'), err == remote(px))))
        else:
            pre_case = z3.BoolVal(False)
        want = z3.If(was_remote, err == x, z3.If(was_exc, err == remote(x), pre_case))
        ex.oblige(st, f'line {node.lineno}: [C04] a short-circuited error goes to the output queue under its own uid: the incoming exception (wrapped) or the preprocess error of THIS element, and only then',
                  z3.And(z3.BoolVal(ok), box(ex, item_u.items[0]) == in_uid(cur), want) if ok else z3.BoolVal(False))
        st.ghost['shorted'] = st.ghost['shorted'] + 1
        st.ghost['short_cur'] = cur

    def on_yield(self, ex, st, val, node):
        cur = st.ghost['cur']
        j = st.ghost['nyield']
        x = in_x(cur)
        px = self.pre.f(x) if self.has_pre else x
        okp = self.pre.ok(x) if self.has_pre else z3.BoolVal(True)
        want = z3.If(self.batched, V.lst(z3.Unit(px)), px)
        ex.oblige(st, f'line {node.lineno}: [C09] only a genuine input is handed to call: not an exception value (neither incoming nor returned by preprocess), preprocess succeeded, as [x] when batch_size == 1 and as x when 0; its uid was queued',
                  z3.And(z3.Not(V.isinst(x, 'Exception')), z3.Not(V.isinst(x, 'RemoteException')), okp, z3.Not(V.isinst(px, 'Exception')), z3.Not(V.isinst(px, 'RemoteException')),
                         val == want, self.q_uid.nput(st) == j + 1,
                         st.ghost.get('short_cur', z3.IntVal(-1)) != cur))
        st.assume(Yat(j) == val, req(j) == cur)            # definitions of the history functions at the unique j-th yield
        st.ghost['nyield'] = j + 1

    @property
    def loops(self):
        return {0: LoopSpec(inv=lambda s, ex: z3.And(z3.Not(s.ghost['none_got']), self.q_uid.nput(s) == s.ghost['nyield'], s.ghost['rebroadcast'] == 0, s.ghost['none_out'] == 0,
                                                      self.q_out.nput(s) == s.ghost['shorted'], self.q_in.nget(s) == s.ghost['nyield'] + s.ghost['shorted'],
                                                      s.ghost['short_cur'] < self.q_in.nget(s)),
                            keep=('q_in', 'q_out', 'q_uid', 'preprocess', 'batched'), split_first=True, first_cond=lambda s, ex: self.q_in.nget(s) == 0)}

    def post(self, ex, outs):
        for k, s, p in outs:
            if k in ('normal', 'return'):
                ex.oblige(s, 'exit: only on the end marker, which is re-broadcast once to the input queue and forwarded once to the output queue [C11]; every input taken was either yielded or short-circuited (exactly one)',
                          z3.And(s.ghost['none_got'], s.ghost['rebroadcast'] == 1, s.ghost['none_out'] == 1, self.q_in.nget(s) == s.ghost['nyield'] + s.ghost['shorted'] + 1))
            else:
                ex.oblige(s, 'exit: no Exception escapes (a failing preprocess fails its own request only)', z3.Not(V.isinst(p, 'Exception')))


class SingleGetInputNoPre(SingleGetInput):
    has_pre = False
    canaries = ()


class GenModel(Obj):
    """self.stream(get_input(...)) seen by the main loop: its j-th output is the outcome of call(Yat(j)) (Worker.stream contract),
    produced only after get_input has yielded Yat(j) (and queued its uid) -- causality."""

    def __init__(self, ex, unit):
        super().__init__(ex, 'stream(get_input(...))')
        self.u = unit

    def havoc(self, ex, st):
        pass

    def iter_start(self, ex, st, node):
        return [('ok', st, self)]

    def pull(self, ex, st, node):
        j = st.ghost['nout']
        s1 = st.fork()
        s1.ghost['ended'] = z3.BoolVal(True)
        s2 = st.fork()
        y = fresh('y')
        c = self.u.call
        s2.assume(y == z3.If(c.ok(Yat(j)), c.f(Yat(j)), c.exc(Yat(j))), z3.Implies(z3.Not(c.ok(Yat(j))), z3.And(V.isinst(y, 'Exception'), *V.cls_facts(y))),
                  z3.Implies(c.ok(Yat(j)), z3.Not(V.isinst(y, 'Exception'))), *V.cls_facts(y))
        if getattr(self.u, 'batched', None) is not None:
            # user precondition: a batched call returns one result per input (here: a one-element batch)
            s2.assume(z3.Implies(z3.And(self.u.batched, c.ok(Yat(j))), z3.And(z3.Or(V.is_lst(y), V.is_tup(y)), z3.Length(seqof(y)) == 1)))
        s2.ghost['nout'] = j + 1
        return [('stop', s1, None), ('item', s2, y)]


class SingleMain(Unit):
    prop = 'C02'
    file = F
    qual = 'Worker._start_single'
    assumed_contracts = ('Worker.stream: unit C02:Worker.stream', 'get_input: unit C02:Worker._start_single.<locals>.get_input')
    canaries = (
        ('result unwrapped twice', '                    y = y[0]', '                    y = y[0][0]', 'own result'),
        ('exception forwarded raw (no traceback text)', '                y = RemoteException(y)', '                pass', 'own result'),
    )

    def setup(self, ex):
        st = St()
        self.call = UFunc('call', 1, raises='Exception', with_kw=False)
        self.batched = z3.Bool('batched')
        self.gen = GenModel(ex, self)
        self.q_uid = QueueReader(ex, 'q_uid')
        self.q_uid.init(st)
        self.q_out = QueueWriter(ex, 'q_out')
        self.q_out.init(st)

        def stream(e, s, a, k, n):
            g = unbox_handle(e, a[0])
            e.oblige(s, f'line {n.lineno}: Worker.stream consumes the generator built by get_input(q_in, q_out, q_uid) on this worker\'s queues', z3.BoolVal(g is self.gi))
            return [('ok', s, self.gen)]
        self.gi = Rec(ex, 'get_input(...)')
        me = Rec(ex, 'self', immutable=True, methods={'stream': Fn(stream)})
        me.init(st, batch_size=z3.If(self.batched, z3.IntVal(1), z3.IntVal(0)))
        st.env['self'] = me
        self.q_in, self.q_out_obj = Rec(ex, 'q_in'), self.q_out
        st.env.update(q_in=self.q_in, q_out=self.q_out)
        ex.globals['queue.SimpleQueue'] = Fn(lambda e, s, a, k, n: [('ok', s, self.q_uid)])
        self.mk_remote = mk_remote(ex)
        ex.globals['RemoteException'] = self.mk_remote
        ex.globals['is_remote_exception'] = is_remote_exception_model()
        st.ghost['nout'] = z3.IntVal(0)
        st.ghost['ended'] = z3.BoolVal(False)
        return st

    def on_call(self, ex, st, e, src):
        if src == 'get_input':
            def f(s, ak):
                a = [unbox_handle(ex, v) for v in ak[0]]
                ex.oblige(s, f'line {e.lineno}: get_input is bound to this worker\'s q_in, q_out and the uid side queue', z3.BoolVal(len(a) == 3 and a[0] is self.q_in and a[1] is self.q_out and a[2] is self.q_uid))
                return [('ok', s, self.gi)]
            return ex.bind(ex.evargs(e, st), f)
        return None

    def on_get(self, ex, st, q, k, z, node):
        # the j-th uid on the side queue is the uid of the request whose input was the j-th value handed to stream (get_input contract)
        s = st.fork().assume(z == in_uid(req(k)))
        return [s]

    def on_put(self, ex, st, q, k, item, node):
        j = st.ghost['nout'] - 1
        c = self.call
        yj = Yat(j)
        item_u = unbox_handle(ex, item)
        ok = isinstance(item_u, PyTuple) and len(item_u.items) == 2
        val = box(ex, item_u.items[1]) if ok else NONE
        good = z3.If(self.batched, z3.And(V.is_lst(c.f(yj)) if False else z3.BoolVal(True), val == seqof(c.f(yj))[0]), val == c.f(yj))
        ex.oblige(st, f'line {node.lineno}: [C02/C04] output #j is put under the uid of request req(j), and it is that request\'s own result (call of its own input), or its own exception wrapped in RemoteException; one output per input, in order',
                  z3.And(z3.BoolVal(ok), k == j, self.q_uid.nget(st) == j + 1, box(ex, item_u.items[0]) == in_uid(req(j)),
                         z3.If(c.ok(yj), good, val == remote(c.exc(yj)))) if ok else z3.BoolVal(False))

    @property
    def loops(self):
        return {0: LoopSpec(inv=lambda s, ex: z3.And(s.ghost['nout'] == self.q_out.nput(s), self.q_uid.nget(s) == s.ghost['nout'], z3.Not(s.ghost['ended'])),
                            keep=('q_uid', 'batched', 'get_input', 'q_in', 'q_out'))}

    def post(self, ex, outs):
        for k, s, p in outs:
            if k in ('normal', 'return'):
                ex.oblige(s, 'exit: every output of stream was forwarded, each under one uid taken from the side queue', z3.And(s.ghost['nout'] == self.q_out.nput(s), s.ghost['ended']))
            else:
                ex.oblige(s, 'exit: no Exception escapes the worker loop (a failing request fails alone)', z3.Not(V.isinst(p, 'Exception')))


UNITS_SINGLE = [StreamUnit, SingleGetInput, SingleGetInputNoPre, SingleMain]


# ================================================================ batching (C09)
class GetInputBatch(Unit):
    """_get_input_batch: first item blocks, then deadline-bounded gets up to batch_size (ghost clock as in C19)."""
    prop = 'C09'
    file = F
    qual = 'Worker._get_input_batch'
    expected_exits = ('normal',)
    canaries = (
        ('batch of b+1', 'while n < batchsize:', 'while n <= batchsize:', '1..batch_size'),
        ('end marker inside a batch', '                buffer.put(z)\n                break', '                out.append(z)\n                break', 'genuine'),
        ('end marker swallowed', '                buffer.put(z)\n                break', '                break', 'put back'),
        ('deadline recomputed per element', '            out.append(z)\n            n += 1', '            out.append(z)\n            n += 1\n            deadline = perf_counter() + extra_timeout', 'invariant preserved'),
        ('collector not told', '        self._batch_get_called.set()', '        pass', 'collector is told'),
    )

    def setup(self, ex):
        st = St()
        self.bs = z3.Int('batch_size')
        self.w = z3.Real('batch_wait_time')
        st.assume(self.bs >= 2, self.w >= 0)
        self.nn = SpecFn('no_none', lambda acc, x: z3.And(acc, x != NONE), result_sort=z3.BoolSort(), empty=z3.BoolVal(True))
        st.assume(*self.nn.base_facts())
        self.q = TimedQueue(ex, 'buf', fns=(self.nn,))
        self.q.init(st)
        st.ghost['putbacks'] = z3.IntVal(0)
        st.ghost['putback_none'] = z3.BoolVal(True)

        def put(e, s, a, k, n):
            s = s.fork()
            s.ghost['putbacks'] = s.ghost['putbacks'] + 1
            s.ghost['putback_none'] = z3.And(s.ghost['putback_none'], box(e, a[0]) == NONE)
            return [('ok', s, NONE)]
        self.q.m_put = put
        self.called = Event(ex, '_batch_get_called')
        self.called.init(st)
        st.env['self'] = Rec(ex, 'self', immutable=True).init(st, batch_wait_time=self.w, batch_size=self.bs, _batch_buffer=self.q, _batch_get_called=self.called)
        ex.globals['perf_counter'] = GhostClock()
        ex.globals['Empty'] = ExcClass('queue.Empty')
        self.k0 = z3.IntVal(0)
        return st

    @property
    def loops(self):
        def inv(s, ex):
            taken, times = self.q.taken(s), self.q.times(s)
            n, out = s.env['n'], s.env['out']
            return z3.And(s.env['batchsize'] == self.bs, s.env['extra_timeout'] == self.w, out == taken, n == z3.Length(out), n >= 1, n <= self.bs,
                          z3.Length(times) == z3.Length(taken), s.env['deadline'] == times[0] + self.w, s.ghost['clock'] <= s.env['deadline'], s.ghost['clock'] >= times[0],
                          s.ghost['putbacks'] == 0, s.ghost['putback_none'], self.nonone(s, out))
        return {0: LoopSpec(inv=inv, keep=('buffer',))}

    def nonone(self, s, seq):
        f = self.nn
        return f(seq)


    def post(self, ex, outs):
        for k, s, p in outs:
            if k == 'raise':
                ex.oblige(s, 'exit: does not raise', False)
                continue
            taken, times = self.q.taken(s), self.q.times(s)
            pv = box(ex, p)
            is_end = z3.And(pv == NONE, z3.Length(taken) == 1, taken[0] == NONE)
            out = V.elems(pv)
            n = z3.Length(out)
            st2 = s.fork()
            batch = z3.And(V.is_lst(pv), n >= 1, n <= self.bs, z3.PrefixOf(out, taken), self.nn(out), z3.Length(taken) - n <= 1,
                           s.ghost['clock'] <= times[0] + self.w,
                           z3.Implies(z3.Length(taken) == n + 1, z3.And(V.last(taken) == NONE, s.ghost['putbacks'] == 1, s.ghost['putback_none'])),
                           z3.Implies(z3.Length(taken) == n, s.ghost['putbacks'] == 0),
                           z3.Implies(n < self.bs, z3.Or(z3.And(s.ghost['buf.last_empty'], s.ghost['clock'] == times[0] + self.w), z3.Length(taken) == n + 1)),
                           self.called.get(s, 'flag'))
            ex.oblige(st2, 'exit: returns the end marker, or a batch of 1..batch_size consecutive genuine items (no end marker inside; one read ahead is put back), released no later than batch_wait_time after its first item; a partial batch only at the deadline or the end marker; the collector is told',
                      z3.Or(is_end, batch))


class BatchGetInput(Unit):
    prop = 'C09'
    file = F
    qual = 'Worker._start_batch.<locals>.get_input'
    consumer_may_stop = False
    expected_exits = ('normal',)
    canaries = (('values queued instead of uids', '                q_uids.put(us)', '                q_uids.put(batch)', 'uids of exactly that batch'),
                ('end marker not forwarded', '                    q_out.put(batch)\n', '', 'forwarded'))

    def setup(self, ex):
        st = St()
        self.batchat = z3.Function('batch_at', z3.IntSort(), Val)       # j-th result of _get_input_batch (a list of (uid, x) pairs)

        def gib(e, s, a, k, n):
            j = s.ghost['nbatch']
            s1 = s.fork()
            s1.ghost['none_got'] = z3.BoolVal(True)
            s2 = s.fork()
            b = fresh('batch', SeqV)
            s2.assume(V.lst(b) == self.batchat(j), z3.Length(b) >= 1)
            s2.ghost['nbatch'] = j + 1
            s2.ghost['cur_batch'] = b
            return [('ok', s1, NONE), ('ok', s2, b)]
        me = Rec(ex, 'self', immutable=True, methods={'_get_input_batch': Fn(gib, name='_get_input_batch (contract: unit C09:Worker._get_input_batch)')})
        st.cells['self'] = me
        self.q_in = Rec(ex, 'q_in', methods={'put': Fn(self.count('rebroadcast'))})
        self.q_out = Rec(ex, 'q_out', methods={'put': Fn(self.count('none_out'))})
        self.q_uids = QueueWriter(ex, 'q_uids')
        self.q_uids.init(st)
        st.env.update(q_in=self.q_in, q_out=self.q_out, q_uids=self.q_uids)
        for g in ('nbatch', 'nyield', 'rebroadcast', 'none_out'):
            st.ghost[g] = z3.IntVal(0)
        st.ghost['none_got'] = z3.BoolVal(False)
        st.ghost['cur_batch'] = V.EMPTY
        return st

    def count(self, name):
        def f(e, s, a, k, n):
            s = s.fork()
            e.oblige(s, f'line {n.lineno}: only the end marker is re-broadcast / forwarded here', z3.And(box(e, a[0]) == NONE, s.ghost['none_got']))
            s.ghost[name] = s.ghost[name] + 1
            return [('ok', s, NONE)]
        return f

    def on_comprehension(self, ex, st, e):
        return None

    def on_put(self, ex, st, q, k, item, node):
        b = st.ghost['cur_batch']
        us = as_seq(ex, st, item)
        projs = st.ghost.get('#proj', [])
        ok = any(r.eq(us) and src.eq(b) and idx == 0 for r, src, idx in projs)
        ex.oblige(st, f'line {node.lineno}: [C02] the j-th item of the uid side queue is the list of uids of exactly that batch (projection 0 of its (uid, x) pairs, same order), queued before the batch is yielded',
                  z3.And(z3.BoolVal(bool(ok)), k == st.ghost['nyield']))

    def on_yield(self, ex, st, val, node):
        b = st.ghost['cur_batch']
        projs = st.ghost.get('#proj', [])
        vs = V.elems(val)
        ok = any(z3.simplify(V.lst(r) == val).eq(z3.BoolVal(True)) or V.lst(r).eq(val) for r, src, idx in projs if src.eq(b) and idx == 1)
        ex.oblige(st, f'line {node.lineno}: [C09] the value handed to call is the list of inputs of that batch (projection 1, same order, same length 1..batch_size), after its uids were queued',
                  z3.And(z3.BoolVal(bool(ok)), self.q_uids.nput(st) == st.ghost['nyield'] + 1))
        st.ghost['nyield'] = st.ghost['nyield'] + 1

    @property
    def loops(self):
        return {0: LoopSpec(inv=lambda s, ex: z3.And(z3.Not(s.ghost['none_got']), s.ghost['nyield'] == s.ghost['nbatch'], self.q_uids.nput(s) == s.ghost['nyield'],
                                                      s.ghost['rebroadcast'] == 0, s.ghost['none_out'] == 0), keep=('q_in', 'q_out', 'q_uids'))}

    def post(self, ex, outs):
        for k, s, p in outs:
            if k in ('normal', 'return'):
                ex.oblige(s, 'exit: only on the end marker, re-broadcast once and forwarded once [C11]; every batch obtained was yielded',
                          z3.And(s.ghost['none_got'], s.ghost['rebroadcast'] == 1, s.ghost['none_out'] == 1, s.ghost['nyield'] == s.ghost['nbatch']))
            else:
                ex.oblige(s, 'exit: does not raise', False)


class BatchMain(Unit):
    prop = 'C09'
    file = F
    qual = 'Worker._start_batch'
    ignore_stmts = (r'if batch_size_log_cadence and n_batches == 0:.*', r'if batch_size_log_cadence:.*', r'if batch_size_log_cadence and n_batches:.*')
    inlined_defs = ()
    assumed_contracts = ('Worker.stream: unit C02:Worker.stream', 'get_input: unit C09:Worker._start_batch.<locals>.get_input')
    canaries = (('uid and result swapped', 'for z in zip(uids, yy):', 'for z in zip(yy, uids):', ''),
                ('a failing batch reported under one uid only', '                        q_out.put((u, err))', '                        q_out.put((uids[0], err))', ''),
                ('collector thread not joined', '            collector_thread.join()', '            pass', 'joined'))

    def setup(self, ex):
        st = St()
        self.call = UFunc('call', 1, raises='Exception', with_kw=False)
        self.Uat = z3.Function('uids_at', z3.IntSort(), SeqV)           # j-th item of the uid side queue
        self.q_uids = QueueReader(ex, 'q_uids')
        self.q_uids.init(st)
        self.q_out = QueueWriter(ex, 'q_out')
        self.q_out.init(st)
        self.gen = GenModel(ex, self)
        self.batched = None
        self.gi = Rec(ex, 'get_input(...)')

        def stream(e, s, a, k, n):
            e.oblige(s, f'line {n.lineno}: Worker.stream consumes get_input(q_in, q_out, q_uids)', z3.BoolVal(unbox_handle(e, a[0]) is self.gi))
            return [('ok', s, self.gen)]
        self.bs = z3.Int('batch_size')
        st.assume(self.bs >= 2)
        self.build = Fn(lambda e, s, a, k, n: [('ok', s, NONE)], name='_build_input_batches')
        me = Rec(ex, 'self', methods={'stream': Fn(stream), '_build_input_batches': self.build})
        me.init(st, batch_size=self.bs, batch_size_log_cadence=z3.IntVal(0), name=z3.String('name'))
        self.me = me
        st.env['self'] = me
        self.q_in = Rec(ex, 'q_in')
        st.env.update(q_in=self.q_in, q_out=self.q_out)
        ex.globals['queue.SimpleQueue'] = Fn(lambda e, s, a, k, n: [('ok', s, self.q_uids)])
        ex.globals['RemoteException'] = mk_remote(ex)
        ex.globals['is_remote_exception'] = is_remote_exception_model()
        ex.globals['Thread'] = ThreadCtor()
        ex.globals['SingleLane'] = Fn(lambda e, s, a, k, n: [('ok', s, Rec(e, 'SingleLane', immutable=True).init(s, maxsize=a[0]))])
        ex.globals['threading.Event'] = Fn(lambda e, s, a, k, n: (lambda ev: [('ok', ev.init(s.fork()) or s, ev)])(Event(e, 'called')))
        st.ghost['nout'] = z3.IntVal(0)
        st.ghost['ended'] = z3.BoolVal(False)
        st.ghost['cur_uids'] = V.EMPTY
        st.ghost['cur_j'] = z3.IntVal(-1)
        st.ghost['emitted'] = z3.IntVal(0)
        return st

    def on_call(self, ex, st, e, src):
        if src == 'get_input':
            def f(s, ak):
                a = [unbox_handle(ex, v) for v in ak[0]]
                ex.oblige(s, f'line {e.lineno}: get_input is bound to this worker\'s queues', z3.BoolVal(len(a) == 3 and a[0] is self.q_in and a[1] is self.q_out and a[2] is self.q_uids))
                return [('ok', s, self.gi)]
            return ex.bind(ex.evargs(e, st), f)
        if src == 'threading.Event':
            ev = Event(ex, 'called')
            st = st.fork()
            ev.init(st)
            return [('ok', st, ev)]
        return None

    def on_thread_start(self, ex, st, t, node):
        ex.oblige(st, f'line {node.lineno}: the collector thread runs self._build_input_batches(q_in, q_out)', z3.BoolVal(t.target is self.build))

    def on_get(self, ex, st, q, k, z, node):
        s = st.fork()
        us = self.Uat(k)
        s.assume(z == V.lst(us))
        s.ghost['cur_uids'] = us
        s.ghost['cur_j'] = k
        s.ghost['emitted'] = z3.IntVal(0)
        # get_input contract + user precondition: the batch Yat(k) has exactly these uids, one result per input
        c = self.call
        s.assume(z3.Length(us) >= 1, z3.Implies(c.ok(Yat(k)), z3.And(z3.Or(V.is_lst(c.f(Yat(k))), V.is_tup(c.f(Yat(k)))), z3.Length(seqof(c.f(Yat(k)))) == z3.Length(us))))
        return [s]

    def on_put(self, ex, st, q, k, item, node):
        j = st.ghost['cur_j']
        us = st.ghost['cur_uids']
        c = self.call
        yj = Yat(j)
        item_u = unbox_handle(ex, item)
        i = st.ghost['emitted']
        if isinstance(item_u, PyTuple) and len(item_u.items) == 2:
            u, v = box(ex, item_u.items[0]), box(ex, item_u.items[1])
        else:
            z = box(ex, item)
            u, v = seqof(z)[0], seqof(z)[1]
        good = z3.And(c.ok(yj), v == seqof(c.f(yj))[i])
        bad = z3.And(z3.Not(c.ok(yj)), v == remote(c.exc(yj)))
        ex.oblige(st, f'line {node.lineno}: [C02/C04] the i-th output of batch j goes to the i-th uid of THAT batch: its own result, or -- when the batched call failed -- the batch\'s error; exactly the members of that batch',
                  z3.And(j == st.ghost['nout'] - 1, i >= 0, i < z3.Length(us), u == us[i], z3.Or(good, bad)))
        st.ghost['emitted'] = i + 1

    @property
    def loops(self):
        def main(s, ex):
            return z3.And(self.q_uids.nget(s) == s.ghost['nout'], z3.Not(s.ghost['ended']),
                          *[z3.And(t.get(s, 'started'), z3.Not(t.get(s, 'joined'))) for t in ex.objs.values() if isinstance(t, ThreadObj)])

        def per_uid(s, ex):
            it = [v for k2, v in s.ghost.items() if k2.startswith('#i') or k2.startswith('#zip')]
            return z3.And(s.ghost['emitted'] == it[-1] if it else z3.BoolVal(True), s.ghost['cur_j'] == s.ghost['nout'] - 1)
        kg = ('nout', 'ended', 'cur_uids', 'cur_j', 'q_uids.nget')
        return {0: LoopSpec(inv=main, keep=('q_uids', 'collector_thread', 'get_input', 'print_batching_info', 'q_in', 'q_out', 'batch_size_log_cadence', 'n_batches')),
                1: LoopSpec(inv=per_uid, keep_ghost=kg, keep=('uids', 'err', 'yy', 'q_uids', 'collector_thread')),
                2: LoopSpec(inv=per_uid, keep_ghost=kg, keep=('uids', 'yy', 'q_uids', 'collector_thread'))}

    def post(self, ex, outs):
        for k, s, p in outs:
            th = [t for t in ex.objs.values() if isinstance(t, ThreadObj)]
            ex.oblige(s, f'exit({k}): the collector thread was started and has been joined [C11]', z3.And(z3.BoolVal(len(th) == 1), *[z3.And(t.get(s, 'started'), t.get(s, 'joined')) for t in th]))
            buf = self.me.get(s, '_batch_buffer') if self.me.has(s, '_batch_buffer') else None
            ex.oblige(s, f'exit({k}): the batch buffer is a SingleLane of batch_size + 10', box(ex, buf.get(s, 'maxsize')) == V.intv(self.bs + 10) if isinstance(buf, Rec) else z3.BoolVal(False))
            if k == 'raise':
                ex.oblige(s, 'exit: no Exception escapes the worker loop', z3.Not(V.isinst(p, 'Exception')))


UNITS_BATCH = [GetInputBatch, BatchGetInput, BatchMain]


# ================================================================ _build_input_batches (collector thread)
class BufModel(QueueWriter):
    """self._batch_buffer (SingleLane) seen by the collector: put (writer), full()/qsize() (volatile), and its `_not_full` condition."""

    def __init__(self, ex, unit):
        super().__init__(ex, 'buf')
        self.u = unit
        from pyvc.models import Condition
        self.mutex = Lock(ex, 'buf_mutex')
        self.not_full = Condition(ex, self.mutex, 'buffer._not_full')

    def getattr(self, ex, st, name, node):
        if name == '_not_full':
            return [('ok', st, self.not_full)]
        return super().getattr(ex, st, name, node)

    def m_full(self, ex, st, args, kwargs, node):
        st = st.fork()
        b = fresh('full', z3.BoolSort())
        st.ghost['full_tested_under_mutex'] = self.mutex.held(st) >= 1
        return [('ok', st, b)]


class BuildBatches(Unit):
    prop = 'C09'
    file = F
    qual = 'Worker._build_input_batches'
    has_pre = True
    expected_exits = ('normal',)
    canaries = (
        ('pinned-tree defect: predicate tested outside the lock, wait without re-check', '            with buffer._not_full:\n                while buffer.full():',
         '            if buffer.full():\n                with buffer._not_full:', 'no lost wake-up'),
        ('exception value put into the batch buffer', '                        elif isinstance(x, RemoteException):\n                            q_out.put((uid, x))\n                        else:',
         '                        else:', 'genuine'),
        ('element rejected by preprocess still batched', '                                except Exception as e:\n                                    x = e', '                                except Exception as e:\n                                    pass', ''),
        ('error short-circuited under another uid', 'q_out.put((uid, RemoteException(x)))', 'q_out.put((0, RemoteException(x)))', 'own uid'),
        ('read lock leaked on exit', '                            q_in.put(z)  # broadcast to fellow workers.\n', '                            q_in.put(z)  # broadcast to fellow workers.\n                            q_in._rlock.acquire()\n', 'read lock'),
        ('pre-fix defect: the collector thread forwards the end marker ahead of the results still being computed', '                            q_in.put(z)  # broadcast to fellow workers.\n', '                            q_in.put(z)  # broadcast to fellow workers.\n                            q_out.put(z)\n', 'does not forward the end marker'),
        ('element dropped when more input is waiting', '                        if not q_in.empty() and buffer.qsize() < batchsize:\n                            z = q_in.get()',
         '                        if not q_in.empty() and buffer.qsize() < batchsize:\n                            z = q_in.get()\n                            z = q_in.get()', ''),
    )

    def __init__(self):
        if not self.has_pre:
            self.variant = 'no-preprocess'
        super().__init__()

    def setup(self, ex):
        st = St()
        self.pre = UFunc('preprocess', 1, raises='Exception', with_kw=False)
        self.bs = z3.Int('batch_size')
        st.assume(self.bs >= 2)
        self.buf = BufModel(ex, self)
        self.buf.init(st)
        self.buf.mutex.init(st)
        self.buf.not_full.init(st)
        self.called = Event(ex, '_batch_get_called', clearable=True)
        self.called.init(st)
        me = Rec(ex, 'self', immutable=True).init(st, _batch_buffer=self.buf, batch_size=self.bs, _batch_get_called=self.called)
        if self.has_pre:
            me.set(st, 'preprocess', self.pre)
        st.env['self'] = me
        self.rlock = Lock(ex, 'q_in._rlock', reentrant=True).init(st)
        self.q_in = QueueReader(ex, 'q_in')
        self.q_in.init(st)
        self.q_in.m_put = self.rebroadcast
        orig_getattr = self.q_in.getattr

        def ga(ex2, st2, name, node):
            if name == '_rlock':
                return [('ok', st2, self.rlock)]
            return orig_getattr(ex2, st2, name, node)
        self.q_in.getattr = ga
        self.q_out = QueueWriter(ex, 'q_out')
        self.q_out.init(st)
        st.env.update(q_in=self.q_in, q_out=self.q_out)
        for g in ('dispatched', 'shorted', 'rebroadcast', 'none_out', 'none_buf'):
            st.ghost[g] = z3.IntVal(0)
        st.ghost['pend_none'] = z3.BoolVal(False)
        st.ghost['cur'] = z3.IntVal(-1)
        st.ghost['events'] = ()
        st.ghost['full_tested_under_mutex'] = z3.BoolVal(False)
        ex.globals['RemoteException'] = ExcClass('RemoteException')
        ex.globals['is_remote_exception'] = is_remote_exception_model()
        self.mk_remote = mk_remote(ex)
        return st

    def on_call(self, ex, st, e, src):
        if src == 'RemoteException':
            return ex.bind(ex.evargs(e, st), lambda s, ak: self.mk_remote.invoke(ex, s, ak[0], ak[1], e))
        return None

    def on_wait(self, ex, st, cond, notified, node):
        ex.oblige(st, f'line {node.lineno}: no lost wake-up: the predicate buffer.full() was tested under the condition\'s own lock in the same hold that waits (and is re-tested after the wake-up: loop)',
                  st.ghost['full_tested_under_mutex'])
        st.ghost['full_tested_under_mutex'] = z3.BoolVal(False)

    def rebroadcast(self, ex, st, args, kwargs, node):
        st = st.fork()
        ex.oblige(st, f'line {node.lineno}: only the end marker is put back on the input queue, after it was put on the batch buffer', z3.And(box(ex, args[0]) == NONE, st.ghost['none_buf'] == 1))
        st.ghost['rebroadcast'] = st.ghost['rebroadcast'] + 1
        return [('ok', st, NONE)]

    def on_get(self, ex, st, q, k, z, node):
        ex.oblige(st, f'line {node.lineno}: the shared input queue is read only while holding its read lock, and nothing is read after the end marker', z3.And(self.rlock.held(st) >= 1, st.ghost['none_buf'] == 0))
        ex.oblige(st, f'line {node.lineno}: the previously taken item has been dispatched before the next one is taken (nothing is dropped)', st.ghost['dispatched'] == k)
        s1 = st.fork().assume(z == NONE)
        s1.ghost['pend_none'] = z3.BoolVal(True)
        s2 = st.fork().assume(z == V.tup(V.seq_of([in_uid(k), in_x(k)])), *V.cls_facts(in_x(k)))
        s2.ghost['pend_none'] = z3.BoolVal(False)
        s2.ghost['cur'] = k
        return [s1, s2]

    def on_empty(self, ex, st, q, b, node):
        pass

    def on_put(self, ex, st, q, k, item, node):
        cur = st.ghost['cur']
        x = in_x(cur)
        item_u = unbox_handle(ex, item)
        was_exc, was_remote = V.isinst(x, 'Exception'), V.isinst(x, 'RemoteException')
        if self.has_pre:
            px = self.pre.f(x)
            st.assume(*V.cls_facts(px))
            okp = self.pre.ok(x)
            px_bad = z3.Or(V.isinst(px, 'Exception'), V.isinst(px, 'RemoteException'))
        else:
            px, okp, px_bad = x, z3.BoolVal(True), z3.BoolVal(False)
        if not isinstance(item_u, PyTuple):
            z = box(ex, item)
            if q is self.buf:
                ex.oblige(st, f'line {node.lineno}: [C09] the only non-request item put on the batch buffer is the single end marker, when it was read', z3.And(z == NONE, st.ghost['pend_none'], st.ghost['none_buf'] == 0))
                st.ghost['none_buf'] = st.ghost['none_buf'] + 1
                st.ghost['dispatched'] = st.ghost['dispatched'] + 1
            else:
                ex.oblige(st, f'line {node.lineno}: the end marker is forwarded to the output queue after it was put on the buffer and re-broadcast', z3.And(z == NONE, st.ghost['none_buf'] == 1, st.ghost['rebroadcast'] == 1))
                st.ghost['none_out'] = st.ghost['none_out'] + 1
            return
        ok = len(item_u.items) == 2
        u, v = (box(ex, item_u.items[0]), box(ex, item_u.items[1])) if ok else (NONE, NONE)
        if q is self.buf:
            ex.oblige(st, f'line {node.lineno}: [C09] everything put on the batch buffer is a genuine input (uid, x): x is not an exception value, preprocess succeeded and did not return one, under its own uid, in input order',
                      z3.And(z3.BoolVal(ok), z3.Not(st.ghost['pend_none']), u == in_uid(cur), z3.Not(was_exc), z3.Not(was_remote), okp, z3.Not(px_bad), v == px, st.ghost['dispatched'] == cur))
        else:
            if self.has_pre:
                pre_case = z3.If(z3.Not(okp), v == remote(self.pre.exc(x)), z3.If(V.isinst(px, 'RemoteException'), v == px, z3.And(V.isinst(px, 'Exception'), v == remote(px))))
            else:
                pre_case = z3.BoolVal(False)
            want = z3.If(was_remote, v == x, z3.If(was_exc, v == remote(x), pre_case))
            ex.oblige(st, f'line {node.lineno}: [C04] an exception value / a preprocess failure is short-circuited to the output queue under its own uid and never reaches the buffer',
                      z3.And(z3.BoolVal(ok), z3.Not(st.ghost['pend_none']), u == in_uid(cur), want, st.ghost['dispatched'] == cur))
            st.ghost['shorted'] = st.ghost['shorted'] + 1
        st.ghost['dispatched'] = st.ghost['dispatched'] + 1

    @property
    def loops(self):
        base = lambda s: z3.And(s.ghost['none_buf'] == 0, s.ghost['rebroadcast'] == 0, s.ghost['none_out'] == 0, s.ghost['dispatched'] == self.buf.nput(s) + self.q_out.nput(s))
        keep = ('buffer', 'batchsize', 'preprocess', 'q_in', 'q_out')

        def pending(s, ex):
            z = s.env['z']
            cur = s.ghost['cur']
            return z3.And(base(s), self.rlock.held(s) == 1, self.buf.mutex.held(s) == 0, self.q_in.nget(s) == s.ghost['dispatched'] + 1, z3.Or(s.ghost['pend_none'], cur == s.ghost['dispatched']),
                          z == z3.If(s.ghost['pend_none'], NONE, V.tup(V.seq_of([in_uid(cur), in_x(cur)]))), s.env['batchsize'] == self.bs)
        return {0: LoopSpec(inv=lambda s, ex: z3.And(base(s), self.rlock.held(s) == 0, self.buf.mutex.held(s) == 0, self.q_in.nget(s) == s.ghost['dispatched']), keep=keep),
                1: LoopSpec(inv=lambda s, ex: z3.And(base(s), self.rlock.held(s) == 0, self.buf.mutex.held(s) == 1, self.q_in.nget(s) == s.ghost['dispatched']), keep=keep),
                2: LoopSpec(inv=lambda s, ex: z3.And(base(s), self.rlock.held(s) == 1, self.buf.mutex.held(s) == 0, self.q_in.nget(s) == s.ghost['dispatched']), keep=keep),
                3: LoopSpec(inv=pending, keep=keep)}

    def post(self, ex, outs):
        for k, s, p in outs:
            if k in ('normal', 'return'):
                ex.oblige(s, 'exit: only on the end marker: put once on the buffer, re-broadcast once (in that order); every item taken was dispatched exactly once; the shared read lock and the buffer mutex are released',
                          z3.And(s.ghost['none_buf'] == 1, s.ghost['rebroadcast'] == 1, s.ghost['dispatched'] == self.q_in.nget(s),
                                 self.rlock.held(s) == 0, self.buf.mutex.held(s) == 0))
                ex.oblige(s, 'exit: [C11] the collector THREAD does not forward the end marker to the output queue: the main loop does, when it takes the marker out of the buffer, i.e. BEHIND the results of '
                             'the batches collected before it (a marker sent from here overtakes them: the reader stops at it, and results then written to an unread pipe-backed queue block the worker for good)',
                          s.ghost['none_out'] == 0)
            else:
                ex.oblige(s, 'exit: no Exception escapes the collector thread', z3.Not(V.isinst(p, 'Exception')))


class BuildBatchesNoPre(BuildBatches):
    has_pre = False
    canaries = ()



class WorkerInit(Unit):
    """Worker.__init__: the batching parameters the rest of the worker runs on.  batch_size None -> 0; batch_wait_time: the caller's value, exactly --
    0 stays 0 ("release at once") -- and only None gets a default (0 without batching, 0.01 with); a positive wait without batching is refused."""
    prop = 'C09'
    file = F
    qual = 'Worker.__init__'
    assert_mode = 'raise'
    numeric_vals_are_ints = False
    ignore_stmts = (r"self\.name = f.*",)
    unreachable_ok = ('cpu_affinity = [cpu_affinity]', 'cpu_affinity = sorted(set(cpu_affinity))', 'os.sched_setaffinity(0, cpu_affinity)', 'if isinstance(cpu_affinity, int):')
    canaries = (('an explicit wait of 0 is taken for "not given"', '            if batch_wait_time is None:\n                batch_wait_time = 0.01', '            if not batch_wait_time:\n                batch_wait_time = 0.01', ''),
                ('batch size not stored', '        self.batch_size = batch_size\n', '        self.batch_size = 0\n', ''),
                ('hook captured at construction', '        self.batch_size = batch_size\n', "        self.batch_size = batch_size\n        self._preprocess = getattr(self, 'preprocess', None)\n", 'does not look'))

    def setup(self, ex):
        st = St()
        def read_hook(e, s):
            s = s.fork()
            s.ghost['hook_read'] = True
            return [('ok', s, z3.Const('the_preprocess_hook_at_construction', Val))]
        self.me = Rec(ex, 'self', volatile={'preprocess': read_hook})
        st.ghost['hook_read'] = False
        self.bs_none, self.wt_none = z3.Bool('batch_size_is_None'), z3.Bool('batch_wait_time_is_None')
        self.bs, self.wt = z3.Int('batch_size'), z3.Real('batch_wait_time')
        st.assume(self.bs >= 0, self.wt >= 0)
        st.env.update(self=self.me, worker_index=z3.Const('worker_index', Val), cpu_affinity=NONE)
        # two-valued parameters: None or a number (four combinations explored as separate paths)
        self.combos = None
        return st

    def run(self, override=None):
        # explore the four None / number combinations of the two parameters
        results = None
        for bs_none in (True, False):
            for wt_none in (True, False):
                self._combo = (bs_none, wt_none)
                r = Unit.run(self, override)
                if results is None:
                    results = r
                else:
                    results['obligations'] += r['obligations']
                    for k, v in r['covers'].items():
                        results['covers'].setdefault(k, []).extend(v)
                    results['paths'] += r['paths']
                    results['reached_lines'] = sorted(set(results.get('reached_lines', [])) | set(r.get('reached_lines', [])))
                    if r['status'] != 'ok':
                        results['status'], results['error'] = r['status'], r['error']
        return results

    def post(self, ex, outs):
        bs_none, wt_none = self._combo
        bs = z3.IntVal(0) if bs_none else self.bs
        for k, s, p in outs:
            if k in ('normal', 'return'):
                got_bs, got_wt = self.me.get(s, 'batch_size'), self.me.get(s, 'batch_wait_time')
                ex.oblige(s, 'exit: [C09] the base constructor does not look the `preprocess` hook up: a subclass may define it as a method OR assign it as an attribute after super().__init__() '
                             '(documented), so it is read when the worker loop starts (units get_input / _build_input_batches)', z3.BoolVal(not s.ghost['hook_read']))
                want_wt = (z3.If(bs <= 1, z3.RealVal(0), z3.RealVal('0.01')) if wt_none else self.wt)
                from pyvc.core import as_num
                ex.oblige(s, 'exit: batch_size is the caller\'s (None -> 0); batch_wait_time is the caller\'s value exactly (0 stays 0); only None gets the default: 0 without batching, 0.01 with',
                          z3.And(as_num(ex, s, got_bs) == bs, as_num(ex, s, got_wt) == want_wt, z3.Implies(bs <= 1, as_num(ex, s, got_wt) == 0)))
            else:
                ex.oblige(s, 'exit(raise): only a positive batch_wait_time without batching is refused (AssertionError)', z3.And(V.isinst(p, 'AssertionError'), z3.BoolVal(not wt_none), bs <= 1, self.wt != 0))

    def setup_env(self, st):
        pass


_orig_winit_setup = WorkerInit.setup


def _winit_setup(self, ex):
    st = _orig_winit_setup(self, ex)
    bs_none, wt_none = self._combo
    st.env['batch_size'] = NONE if bs_none else self.bs
    st.env['batch_wait_time'] = NONE if wt_none else self.wt
    return st


WorkerInit.setup = _winit_setup


class WorkerStart(Unit):
    """Worker.start: batch_size > 1 runs the batched loop, otherwise the single-element loop -- exactly one of them, on the given queues; a loop that dies
    (any BaseException) re-broadcasts the end marker to a fellow worker and sends it downstream before cleanup (so the servlet can still stop), and
    re-raises everything but KeyboardInterrupt; cleanup runs exactly once on every path."""
    prop = 'C09'
    file = F
    qual = 'Worker.start'
    numeric_vals_are_ints = True
    ignore_calls = ('print',)
    canaries = (('batch_size 1 sent to the batched loop', 'if self.batch_size > 1:', 'if self.batch_size >= 1:', ''),
                ('a dying worker does not pass the end marker on', '        except BaseException as e:\n            q_in.put(None)\n            q_out.put(None)', '        except BaseException as e:\n            q_out.put(None)', ''),
                ('loops run on swapped queues', 'self._start_single(q_in=q_in, q_out=q_out)', 'self._start_single(q_in=q_out, q_out=q_in)', ''))

    def setup(self, ex):
        st = St()
        self.bs = z3.Int('batch_size')
        st.assume(self.bs >= 0)
        st.ghost['log'] = ()
        self.qin, self.qout = Rec(ex, 'q_in', immutable=True, methods={'put': Fn(self.put('q_in'))}), Rec(ex, 'q_out', immutable=True, methods={'put': Fn(self.put('q_out'))})
        self.loop_exc = z3.Const('loop_exception', Val)
        st.assume(V.isinst(self.loop_exc, 'BaseException'), *V.cls_facts(self.loop_exc))

        def loop(name):
            def f(e, s, a, k, n):
                s = s.fork()
                s.ghost['log'] = s.ghost['log'] + ((name, unbox_handle(e, k.get('q_in')), unbox_handle(e, k.get('q_out')), len(a)),)
                return [('ok', s, NONE), ('raise', s.fork(), self.loop_exc)]
            return Fn(f)

        def cleanup(e, s, a, k, n):
            s = s.fork()
            s.ghost['log'] = s.ghost['log'] + (('cleanup', [box(e, x) for x in a]),)
            return [('ok', s, NONE)]
        me = Rec(ex, 'self', immutable=True, methods={'_start_batch': loop('batch'), '_start_single': loop('single'), 'cleanup': Fn(cleanup)}).init(st, batch_size=self.bs, name=z3.StringVal('w'))
        st.env.update(self=me, q_in=self.qin, q_out=self.qout)
        return st

    def put(self, qname):
        def f(e, s, a, k, n):
            s = s.fork()
            s.ghost['log'] = s.ghost['log'] + (('put', qname, box(e, a[0])),)
            return [('ok', s, NONE)]
        return f

    def post(self, ex, outs):
        for k, s, p in outs:
            log = s.ghost['log']
            loops = [x for x in log if x[0] in ('batch', 'single')]
            cleanups = [x for x in log if x[0] == 'cleanup']
            puts = [x for x in log if x[0] == 'put']
            ok = len(loops) == 1 and loops[0][1] is self.qin and loops[0][2] is self.qout and loops[0][3] == 0 and len(cleanups) == 1 and log.index(loops[0]) == 0 and log[-1] is cleanups[0]
            which = z3.BoolVal(ok and loops[0][0] == 'batch') == (self.bs > 1) if ok else z3.BoolVal(False)
            failed = len(puts) > 0 or (cleanups and len(cleanups[0][1]) == 1)
            if not failed:
                ex.oblige(s, 'exit: exactly one processing loop ran, on the given queues: the batched one iff batch_size > 1; it ended normally; cleanup() once, last',
                          z3.And(which, z3.BoolVal(ok and k in ('normal', 'return') and not puts and len(cleanups[0][1]) == 0)))
            else:
                marker = len(puts) == 2 and puts[0][1] == 'q_in' and puts[1][1] == 'q_out'
                ex.oblige(s, 'exit(loop died): the end marker is re-broadcast on the input queue and sent downstream, then cleanup(the exception) once; everything but KeyboardInterrupt is re-raised',
                          z3.And(which, z3.BoolVal(bool(ok and marker)), puts[0][2] == NONE if marker else z3.BoolVal(False), puts[1][2] == NONE if marker else z3.BoolVal(False),
                                 cleanups[0][1][0] == self.loop_exc if ok and len(cleanups[0][1]) == 1 else z3.BoolVal(False),
                                 z3.If(V.isinst(self.loop_exc, 'KeyboardInterrupt'), z3.BoolVal(k in ('normal', 'return')), z3.And(z3.BoolVal(k == 'raise'), p == self.loop_exc if k == 'raise' else z3.BoolVal(False)))))

class SimpleQueueInit(Unit):
    """_SimpleProcessQueue.__init__ / _SimpleThreadQueue.__init__: the queue's read lock `_rlock` is RE-ENTRANT (the batch collector holds it across several
    q_in.get() calls, and get() takes it again: with a plain Lock the collector would deadlock on its first get), made AFTER the base constructor (which installs a
    plain lock) and -- for the process queue -- from the same context as the queue (default MP_SPAWN_CTX)."""
    prop = 'C09'
    file = F
    qual = '_SimpleProcessQueue.__init__'
    process = True
    canaries = (('plain (non re-entrant) read lock', 'self._rlock = ctx.RLock()', 'self._rlock = ctx.Lock()', ''),
                ('re-entrant lock overwritten by the base constructor', '        super().__init__(ctx=ctx)\n        # Replace Lock by RLock to facilitate batching via greedy `get_many`.\n        self._rlock = ctx.RLock()',
                 '        self._rlock = ctx.RLock()\n        super().__init__(ctx=ctx)', ''))

    def setup(self, ex):
        st = St()
        self.me = Rec(ex, 'self')
        st.ghost['ev'] = ()
        self.given = z3.Bool('ctx_given')
        unit = self

        class Ctx(Rec):
            pass

        def mk(kind, owner):
            def f(e, s, a, k, n):
                s = s.fork()
                lock = Rec(e, kind, immutable=True)
                lock.kind, lock.owner = kind, owner
                s.ghost['ev'] = s.ghost['ev'] + (('lock', kind),)
                return [('ok', s, lock)]
            return Fn(f)
        self.caller_ctx = Rec(ex, 'caller ctx', immutable=True, methods={'RLock': mk('RLock', 'caller'), 'Lock': mk('Lock', 'caller')})
        self.spawn_ctx = Rec(ex, 'MP_SPAWN_CTX', immutable=True, methods={'RLock': mk('RLock', 'spawn'), 'Lock': mk('Lock', 'spawn')})
        ex.globals['MP_SPAWN_CTX'] = self.spawn_ctx
        ex.globals['threading'] = Module('threading')
        ex.globals['threading.RLock'] = mk('RLock', 'threading')
        ex.globals['threading.Lock'] = mk('Lock', 'threading')
        st.env['self'] = self.me
        return st

    def run(self, override=None):
        results = None
        for given in ((True, False) if self.process else (None,)):
            self._given = given
            r = Unit.run(self, override)
            if results is None:
                results = r
            else:
                results['obligations'] += r['obligations']
                for k, v in r['covers'].items():
                    results['covers'].setdefault(k, []).extend(v)
                results['paths'] += r['paths']
                results['reached_lines'] = sorted(set(results.get('reached_lines', [])) | set(r.get('reached_lines', [])))
                if r['status'] != 'ok':
                    results['status'], results['error'] = r['status'], r['error']
        return results

    def on_call(self, ex, st, e, src):
        if src == 'super().__init__':
            def f(s, ak):
                s = s.fork()
                s.ghost['ev'] = s.ghost['ev'] + (('base', tuple(ak[0]), dict(ak[1])),)
                base_lock = Rec(ex, 'Lock', immutable=True)
                base_lock.kind, base_lock.owner = 'Lock', 'base'
                self.me.set(s, '_rlock', base_lock)          # what the stdlib constructor installs
                return [('ok', s, NONE)]
            return ex.bind(ex.evargs(e, st), f)
        return None

    def post(self, ex, outs):
        for k, s, p in outs:
            base = [e_ for e_ in s.ghost['ev'] if e_[0] == 'base']
            lock = unbox_handle(ex, self.me.get(s, '_rlock')) if self.me.has(s, '_rlock') else None
            ok = k in ('normal', 'return') and len(base) == 1 and getattr(lock, 'kind', None) == 'RLock'
            if ok and self.process:
                want_ctx = self.caller_ctx if self._given else self.spawn_ctx
                ok = lock.owner == ('caller' if self._given else 'spawn') and unbox_handle(ex, base[0][2].get('ctx')) is want_ctx and not base[0][1]
            elif ok:
                ok = lock.owner == 'threading' and not base[0][1] and not base[0][2]
            ex.oblige(s, 'exit: base constructor called once' + (' with the context (the caller\'s, or MP_SPAWN_CTX)' if self.process else '') + '; afterwards self._rlock is a re-entrant lock'
                         + (' of that same context' if self.process else ''), z3.BoolVal(bool(ok)))

    def extra_env(self, st):
        pass


class SimpleProcessQueueInit(SimpleQueueInit):
    def setup(self, ex):
        st = super().setup(ex)
        st.env['ctx'] = self.caller_ctx if self._given else NONE
        return st


class SimpleThreadQueueInit(SimpleQueueInit):
    qual = '_SimpleThreadQueue.__init__'
    process = False
    canaries = (('plain (non re-entrant) read lock', 'self._rlock = threading.RLock()', 'self._rlock = threading.Lock()', ''),)


UNITS_BATCH = [SimpleProcessQueueInit, SimpleThreadQueueInit, WorkerInit, WorkerStart, GetInputBatch, BatchGetInput, BatchMain, BuildBatches, BuildBatchesNoPre]
