"""Axioms of the engine about the LIBRARY's own classes, checked against the real text on every run (appended to every property's units by check.py).

The value model abstracts a class by its most specific known ancestor in pyvc.vals.CLASS_TREE; for the classes the library itself defines, that tree is an
assumption about the code -- e.g. that StopRequested is a BaseException but not an Exception is what makes `except Exception` in user code and in the worker
loops let a stop request through.  This unit reads the class statements (AST; nothing is executed); if a declared base differs from the tree the unit -- and with it the check -- is UNDECIDED
(not a violation: the change may be harmless for the property, but the proofs were made under another hierarchy), and the runtime batteries decide."""
import ast, hashlib
import z3

from pyvc.unit import Unit, LemmaUnit, load_source, find_function
from pyvc.core import Obligation
from pyvc import vals as V

# (file, class name in the source, name in CLASS_TREE, base as written in the source)
LIBRARY_CLASSES = (
    ('_common.py', 'StopRequested', 'StopRequested', 'BaseException'),
    ('_common.py', 'TimeoutError', 'mp.TimeoutError', 'builtins.TimeoutError'),
    ('mpserver/_server.py', 'ServerBacklogFull', 'ServerBacklogFull', 'RuntimeError'),
    ('multiprocessing/remote_exception.py', 'EnsembleError', 'EnsembleError', 'RuntimeError'),
    ('multiprocessing/remote_exception.py', 'RemoteTraceback', 'RemoteTraceback', 'Exception'),
    ('multiprocessing/remote_exception.py', 'RemoteException', 'RemoteException', None),          # deliberately NOT an exception class
    ('threading/__init__.py', 'InvalidStateError', 'mp.InvalidStateError', 'RuntimeError'),
)


class ClassTree(Unit):
    prop = 'AX'
    file = '_common.py'
    qual = 'class hierarchy'

    def run(self, override=None):
        res = {'unit': self.name, 'status': 'ok', 'obligations': [], 'covers': {}, 'ignored': [], 'sha': None, 'error': None, 'paths': 1, 'lineno': 1, 'unreached': []}
        self.ex = None
        h = hashlib.sha256()
        for f, cname, tree_name, base in LIBRARY_CLASSES:
            try:
                src = load_source(f, None)
                cls = find_function(ast.parse(src), cname)
            except (KeyError, SyntaxError, FileNotFoundError) as e:
                res['status'], res['error'] = 'undecided', f'cannot read class {cname} in {f}: {e!r}'
                return res
            bases = [ast.unparse(b) for b in cls.bases]
            h.update((cname + ':' + ','.join(bases)).encode())
            parent = V.CLASS_TREE[tree_name]
            want = [] if base is None else [base]
            tree_ok = (parent == 'object') if base is None else (V.CLASS_ALIASES.get(base, base) == parent)
            if not (bases == want and tree_ok):
                # not a violation of any property by itself: the engine's axioms no longer describe the code, so nothing it proves can be trusted -> undecided
                # (the property's runtime batteries then run as the fallback)
                res['status'] = 'undecided'
                res['error'] = f'engine axiom out of date: {f}::{cname} is declared with base(s) {bases}, the value model assumes {want or "a plain class"} (parent {parent}): every proof involving this class has to be redone against the new hierarchy'
                return res
            ob = Obligation(f'class hierarchy: {f}::{cname} is declared with base(s) {want or "none (a plain class)"} -- the parent the value model assumes ({parent})', [],
                            z3.BoolVal(True), [cls.lineno], 'assert')
            ob.unit = self.name
            res['obligations'].append(ob)
        res['sha'] = h.hexdigest()
        return res


class SeqLemmas(LemmaUnit):
    """Lemmas of the sequence theory whose *instances* the engine hands to the solver as hints (pyvc.core.SeqIter.pull -> vals.prefix_extension), proved here on
    every run for an arbitrary sequence and index, so that no instance is an unchecked assumption.  They are theorems (they exclude no state); they are stated
    because z3's sequence solver derives them by itself only erratically inside a larger query: the loop-preservation query of `for x in buffer: yield x` took
    0.1 s .. > 60 s depending on build, random seed and machine load, and so did the lemma "prefix extension" asked as ONE query.

    So the lemma is proved in three steps that each solver build decides in milliseconds for every seed tried, plus a syntactic instantiation:
      L1 split        0 <= i < len(s)                  |-  s == s[:i] ++ [s[i]] ++ s[i+1:]
      L2 prefix len   0 <= i < len(s)                  |-  len(s[:i]) == i
      L3 compose      t == a ++ [x] ++ b, len(a) == j  |-  t[:j+1] == a ++ [x]            (t, a, x, b, j arbitrary *constants*: no extract term on the left)
      prefix extension = L3 at (t, a, x, b, j) := (s, s[:i], s[i], s[i+1:], i): its two hypotheses are then literally the conclusions of L1 and L2 and its conclusion is
      literally vals.prefix_extension(s, i) -- checked term by term (z3 AST identity) when the unit is built; a mismatch makes the unit, and with it the check,
      UNDECIDED (an engine matter, never a violation of a property)."""
    prop = 'AX'
    qual = 'lemma(seq)'
    isolated = True

    def lemmas(self):
        s, t, a, b = z3.Consts('lem_s lem_t lem_a lem_b', V.SeqV)
        i, j = z3.Ints('lem_i lem_j')
        x = z3.Const('lem_x', V.Val)
        n = z3.Length(s)
        in_range = [i >= 0, i < n]
        A, X, B = z3.SubSeq(s, 0, i), s[i], z3.SubSeq(s, i + 1, n - i - 1)
        l1 = s == z3.Concat(A, z3.Unit(X), B)
        l2 = z3.Length(A) == i
        l3_hyps = [t == z3.Concat(a, z3.Unit(x), b), z3.Length(a) == j]
        l3_goal = z3.SubSeq(t, 0, j + 1) == z3.Concat(a, z3.Unit(x))
        yield ('L1 split: s == s[:i] ++ [s[i]] ++ s[i+1:] for 0 <= i < len(s)', in_range, l1)
        yield ('L2 prefix length: len(s[:i]) == i for 0 <= i < len(s)', in_range, l2)
        yield ('L3 compose: t == a ++ [x] ++ b and len(a) == j imply t[:j+1] == a ++ [x]', l3_hyps, l3_goal)
        sub = ((t, s), (a, A), (x, X), (b, B), (j, i))
        inst_hyps = [z3.substitute(h, *sub) for h in l3_hyps]
        inst_goal = z3.substitute(l3_goal, *sub)
        assert inst_hyps[0].eq(l1) and inst_hyps[1].eq(l2), 'the hypotheses of L3 instantiated at (s, s[:i], s[i], s[i+1:], i) are not literally L1 and L2'
        assert inst_goal.eq(V.prefix_extension(s, i)), 'the conclusion of that instance is not literally the formula the engine assumes (vals.prefix_extension)'
        # the same three facts as hypotheses of one query is NOT asked of the solver: with the extract terms back in, it is as erratic as the direct question
        yield ('prefix extension: s[:i+1] == s[:i] ++ [s[i]] for 0 <= i < len(s) is L3 instantiated at (s, s[:i], s[i], s[i+1:], i), whose hypotheses are literally '
               'L1 and L2 (term identity checked at construction)', [], z3.BoolVal(True))


AXIOM_UNITS = [ClassTree, SeqLemmas]
