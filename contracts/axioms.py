"""Axioms of the engine about the LIBRARY's own classes, checked against the real text on every run (appended to every property's units by check.py).

The value model abstracts a class by its most specific known ancestor in pyvc.vals.CLASS_TREE; for the classes the library itself defines, that tree is an
assumption about the code -- e.g. that StopRequested is a BaseException but not an Exception is what makes `except Exception` in user code and in the worker
loops let a stop request through.  This unit reads the class statements (AST; nothing is executed); if a declared base differs from the tree the unit -- and with it the check -- is UNDECIDED
(not a violation: the change may be harmless for the property, but the proofs were made under another hierarchy), and the runtime batteries decide."""
import ast, hashlib
import z3

from pyvc.unit import Unit, load_source, find_function
from pyvc.core import Obligation
from pyvc import vals as V

# (file, class name in the source, name in CLASS_TREE, base as written in the source)
LIBRARY_CLASSES = (
    ('_common.py', 'StopRequested', 'StopRequested', 'BaseException'),
    ('_common.py', 'TimeoutError', 'mp.TimeoutError', 'builtins.TimeoutError'),
    ('mpserver/_server.py', 'ServerBacklogFull', 'ServerBacklogFull', 'RuntimeError'),
    ('multiprocessing/remote_exception.py', 'EnsembleError', 'EnsembleError', 'RuntimeError'),
    ('multiprocessing/remote_exception.py', 'RemoteTraceback', 'RemoteTraceback', 'Exception'),
    ('multiprocessing/remote_exception.py', 'RemoteException', 'RemoteException', None),          # deliberately NOT an exception class
    ('threading/__init__.py', 'InvalidStateError', 'mp.InvalidStateError', 'RuntimeError'),
)


class ClassTree(Unit):
    prop = 'AX'
    file = '_common.py'
    qual = 'class hierarchy'

    def run(self, override=None):
        res = {'unit': self.name, 'status': 'ok', 'obligations': [], 'covers': {}, 'ignored': [], 'sha': None, 'error': None, 'paths': 1, 'lineno': 1, 'unreached': []}
        self.ex = None
        h = hashlib.sha256()
        for f, cname, tree_name, base in LIBRARY_CLASSES:
            try:
                src = load_source(f, None)
                cls = find_function(ast.parse(src), cname)
            except (KeyError, SyntaxError, FileNotFoundError) as e:
                res['status'], res['error'] = 'undecided', f'cannot read class {cname} in {f}: {e!r}'
                return res
            bases = [ast.unparse(b) for b in cls.bases]
            h.update((cname + ':' + ','.join(bases)).encode())
            parent = V.CLASS_TREE[tree_name]
            want = [] if base is None else [base]
            tree_ok = (parent == 'object') if base is None else (V.CLASS_ALIASES.get(base, base) == parent)
            if not (bases == want and tree_ok):
                # not a violation of any property by itself: the engine's axioms no longer describe the code, so nothing it proves can be trusted -> undecided
                # (the property's runtime batteries then run as the fallback)
                res['status'] = 'undecided'
                res['error'] = f'engine axiom out of date: {f}::{cname} is declared with base(s) {bases}, the value model assumes {want or "a plain class"} (parent {parent}): every proof involving this class has to be redone against the new hierarchy'
                return res
            ob = Obligation(f'class hierarchy: {f}::{cname} is declared with base(s) {want or "none (a plain class)"} -- the parent the value model assumes ({parent})', [],
                            z3.BoolVal(True), [cls.lineno], 'assert')
            ob.unit = self.name
            res['obligations'].append(ob)
        res['sha'] = h.hexdigest()
        return res


AXIOM_UNITS = [ClassTree]
