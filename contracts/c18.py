"""C18 — socket and pipe transports deliver intact and to the right request.

Framing: record = header(request_id, len(payload_bytes), encoder) ++ payload_bytes.  write_record/read_record are proved to
produce / consume exactly that shape (payload consumed BY LENGTH, so its content is irrelevant); the inverse lemma uses
trusted string facts (header has no newline before its end; split() of the header gives back its three fields when the id
has no whitespace; int(str(n)) == n) and pickle fidelity.  Server: per connection, responses are written in request order,
each under its request's id with that request's own outcome.  Client: a response resolves exactly the future registered
under its id."""
import ast
import z3

from pyvc import vals as V
from pyvc.vals import Val, SeqV, NONE, fresh, PyTuple
from pyvc.unit import Unit, LoopSpec, LemmaUnit
from pyvc.models import Rec, Fn, Nop, UFunc, QueueReader, QueueWriter, SharedMap, Event, Absent
from pyvc.core import St, Module, box, Unsupported, Obj, unbox_handle, ExcClass, as_int, Closure

F = 'socket.py'
FP = 'pipe.py'
hdr = z3.Function('header', Val, z3.IntSort(), Val, Val)              # f'{request_id} {n} {encoder}\n'.encode()
enc = z3.Function('encode', Val, Val, Val)                             # encode(data, encoder) -> bytes
dec = z3.Function('decode', Val, Val, Val)
blen = z3.Function('len_bytes', Val, z3.IntSort())
h_id = z3.Function('header_id', Val, Val)                              # fields of a parsed header (trusted string lemmas)
h_n = z3.Function('header_len', Val, z3.IntSort())
h_enc = z3.Function('header_encoder', Val, Val)
remote = z3.Function('RemoteException', Val, Val)

ASSUMPTIONS = (
    'asyncio StreamReader/Writer: an in-order, lossless byte stream; readuntil(b"\\n") returns up to and including the first newline; readexactly(n) returns the next n bytes; a cancelled readuntil consumes nothing',
    'string lemmas: the header f"{id} {n} {enc}\\n" contains no newline before its end and, for an id without whitespace, splits back into (str(id), str(n), enc); int(str(n)) == n',
    'pickle round trip preserves the payload; len(bytes) is its exact length',
    'client: the response to a request cannot be processed by _keep_receiving before _keep_sending resumes from `await write_record` (asyncio resumes the drain waiter no later than the final send; DESIGN 2.8)',
    'handlers are uninterpreted async functions of (path, data); request ids (id(fut)) are unique among requests in flight because `active`/the pending queue hold the futures',
)
NOT_DECIDED = ('the OS socket layer, partial reads (inside the trusted StreamReader contract)', 'SocketClient.__enter__/__exit__ connection management', 'named-pipe transport: object delivery itself is the trusted multiprocessing.Connection over a FIFO (wiring and delegation are proved)')


class WriteRecord(Unit):
    prop = 'C18'
    file = F
    qual = 'write_record'
    canaries = (('length of the object instead of the encoded bytes', 'len(data_bytes)', 'len(data)', 'length of the encoded payload'),
                ('payload written before the header', "    writer.write(f'{request_id} {len(data_bytes)} {encoder}\\n'.encode())\n    writer.write(data_bytes)", "    writer.write(data_bytes)\n    writer.write(f'{request_id} {len(data_bytes)} {encoder}\\n'.encode())", ''),
                ('raw data written instead of the encoded bytes', '    writer.write(data_bytes)', '    writer.write(data)', ''))

    def setup(self, ex):
        st = St()
        self.rid, self.data, self.encoder = z3.Const('request_id', Val), z3.Const('data', Val), z3.Const('encoder', Val)
        st.ghost['written'] = V.EMPTY
        st.ghost['drained'] = z3.BoolVal(False)

        def write(e, s, a, k, n):
            s = s.fork()
            s.ghost['written'] = z3.Concat(s.ghost['written'], z3.Unit(box(e, a[0])))
            return [('ok', s, NONE)]

        def drain(e, s, a, k, n):
            s = s.fork()
            s.ghost['drained'] = z3.BoolVal(True)
            return [('ok', s, NONE)]
        st.env.update(writer=Rec(ex, 'writer', methods={'write': Fn(write), 'drain': Fn(drain)}), request_id=self.rid, data=self.data, encoder=self.encoder)
        ex.globals['encode'] = Fn(lambda e, s, a, k, n: [('ok', s, BytesVal(e, enc(box(e, a[0]), box(e, a[1]))))], name='encode')
        return st

    def on_fstring(self, ex, st, node):
        parts = [v for v in node.values if isinstance(v, ast.FormattedValue)]
        consts = [v.value for v in node.values if isinstance(v, ast.Constant)]
        if len(parts) == 3 and consts == [' ', ' ', '\n']:
            def f(s, a):
                return ex.bind(ex.ev(parts[1].value, s), lambda s2, n: ex.bind(ex.ev(parts[2].value, s2), lambda s3, c: [('ok', s3, HeaderStr(ex, hdr(box(ex, a), as_int(ex, s3, n), box(ex, c))))]))
            return ex.bind(ex.ev(parts[0].value, st), f)
        return None

    def post(self, ex, outs):
        for k, s, p in outs:
            if k in ('normal', 'return'):
                payload = enc(self.data, self.encoder)
                ex.oblige(s, 'exit: exactly header(request_id, length of the encoded payload, encoder) followed by the encoded payload, then drained',
                          z3.And(s.ghost['written'] == V.seq_of([hdr(self.rid, blen(payload), self.encoder), payload]), s.ghost['drained']))
            else:
                ex.oblige(s, 'exit: no exception of its own', False)


class BytesVal(Obj):
    """a bytes value by its abstract term; len() is the byte length"""

    def __init__(self, ex, term):
        super().__init__(ex, 'bytes')
        self.term = term

    def val(self):
        return self.term

    def havoc(self, ex, st):
        pass

    def length(self, ex, st, node):
        return [('ok', st, blen(self.term))]


class HeaderStr(Obj):
    def __init__(self, ex, term):
        super().__init__(ex, 'header-str')
        self.term = term

    def val(self):
        return self.term

    def havoc(self, ex, st):
        pass

    def m_encode(self, ex, st, args, kwargs, node):
        return [('ok', st, BytesVal(ex, self.term))]


class ReadRecord(Unit):
    prop = 'C18'
    file = F
    qual = 'read_record'
    canaries = (('payload read up to a newline instead of by length', 'data = await reader.readexactly(int(num_bytes))', "data = await reader.readuntil(b'\\n')", 'by length'),
                ('poll timeout also applied to the payload read (framing goes out of sync)', 'data = await reader.readexactly(int(num_bytes))', 'data = await asyncio.wait_for(reader.readexactly(int(num_bytes)), timeout)', 'by length'),
                ('decoder fixed to pickle', 'return request_id, decode(data, encoder)', "return request_id, decode(data, 'pickle')", ''))

    def setup(self, ex):
        st = St()
        self.h, self.payload = z3.Const('next_header_line', Val), z3.Const('next_payload', Val)
        st.ghost['reads'] = ()

        def readuntil(e, s, a, k, n):
            s = s.fork()
            s.ghost['reads'] = s.ghost['reads'] + (('until',),)
            return [('ok', s, HeaderLine(e, self.h))]

        def readexactly(e, s, a, k, n):
            s = s.fork()
            s.ghost['reads'] = s.ghost['reads'] + (('exactly', as_int(e, s, a[0])),)
            return [('ok', s, BytesVal(e, self.payload))]
        st.env.update(reader=Rec(ex, 'reader', methods={'readuntil': Fn(readuntil), 'readexactly': Fn(readexactly)}), timeout=z3.Const('timeout', Val))

        def wait_for(e, s, a, k, n):
            # asyncio.wait_for(awaitable, timeout): the awaited value, or TimeoutError (nothing consumed: trusted)
            s2 = s.fork()
            s2.ghost['reads'] = s2.ghost['reads'][:-1] + (('timed-out', s2.ghost['reads'][-1]),) if s2.ghost['reads'] else ()
            return [('ok', s, a[0]), e.raise_new(s2, 'TimeoutError')]
        ex.globals['asyncio.wait_for'] = Fn(wait_for, trusted='asyncio.wait_for returns the awaited result or raises TimeoutError')
        ex.globals['decode'] = Fn(lambda e, s, a, k, n: [('ok', s, dec(box(e, a[0]), box(e, a[1])))], name='decode')
        ex.globals['int'] = Fn(lambda e, s, a, k, n: [('ok', s, a[0].n if isinstance(a[0], NumStr) else as_int(e, s, a[0]))])
        return st

    def post(self, ex, outs):
        for k, s, p in outs:
            reads = s.ghost['reads']
            if k in ('normal', 'return'):
                p = unbox_handle(ex, p)
                ok = isinstance(p, PyTuple) and len(p.items) == 2 and len(reads) == 2 and reads[0] == ('until',) and reads[1][0] == 'exactly'
                ex.oblige(s, 'exit: one header line, then the payload consumed by length exactly as the header says (no timeout on it), decoded with the header\'s encoder; returns (id field, decoded payload)',
                          z3.And(z3.BoolVal(bool(ok)), reads[1][1] == h_n(self.h), box(ex, p.items[0]) == h_id(self.h), box(ex, p.items[1]) == dec(self.payload, h_enc(self.h))) if ok else z3.BoolVal(False))
            else:
                ex.oblige(s, 'exit(raise): only the poll timeout, and only while waiting for a header (nothing consumed): the stream stays in sync',
                          z3.And(V.isinst(p, 'TimeoutError'), z3.BoolVal(len(reads) == 1 and reads[0] == ('timed-out', ('until',)))))


class HeaderLine(Obj):
    """the bytes of a header line: data[:-1].decode().split() -> its three fields (trusted string lemmas)"""

    def __init__(self, ex, term):
        super().__init__(ex, 'header-line')
        self.term = term

    def val(self):
        return self.term

    def havoc(self, ex, st):
        pass

    def slice_obj(self, ex, st, lo, hi, node):
        return [('ok', st, self)]

    def m_decode(self, ex, st, args, kwargs, node):
        return [('ok', st, self)]

    def m_split(self, ex, st, args, kwargs, node):
        return [('ok', st, PyTuple([h_id(self.term), NumStr(h_n(self.term)), h_enc(self.term)]))]


class NumStr:
    def __init__(self, n):
        self.n = n


class FramingLemma(LemmaUnit):
    prop = 'C18'
    qual = 'lemma(framing)'

    def lemmas(self):
        rid, data, encoder, payload, h = z3.Consts('request_id data encoder payload header_line', Val)
        n = z3.Int('n')
        strid = z3.Function('str', Val, Val)
        # trusted string lemmas (for an id without whitespace) + pickle fidelity
        trusted = [h_id(hdr(rid, n, encoder)) == strid(rid), h_n(hdr(rid, n, encoder)) == n, h_enc(hdr(rid, n, encoder)) == encoder, dec(enc(data, encoder), encoder) == data]
        yield ('read_record(write_record(id, data) ++ rest) == ((str(id), data), rest): the reader sees the writer\'s header first (byte stream in order), consumes exactly len(payload) bytes, and decodes them with the same encoder',
               trusted + [payload == enc(data, encoder), n == blen(payload), h == hdr(rid, n, encoder)],
               z3.And(h_id(h) == strid(rid), h_n(h) == blen(payload), dec(payload, h_enc(h)) == data))


# ================================================================ server side of one connection
class ServerReceiving(Unit):
    prop = 'C18'
    file = F
    qual = 'SocketServer._handle_connection.<locals>._keep_receiving'
    expected_exits = ('normal',)
    canaries = (('task queued under another request id', 't = asyncio.create_task(f)\n                await reqs.put((req_id, t))', 't = asyncio.create_task(f)\n                await reqs.put((0, t))', 'own id'),
                ('handler called with the whole record', 'f = self.app.handle_request(path, data)', 'f = self.app.handle_request(path, (path, data))', 'own payload'))

    def setup(self, ex):
        st = St()
        self.rid = z3.Function('rid_at', z3.IntSort(), Val)
        self.path = z3.Function('path_at', z3.IntSort(), Val)
        self.payload = z3.Function('payload_at', z3.IntSort(), Val)
        self.handle = z3.Function('handle_request', Val, Val, Val)       # coroutine of the routed handler applied to the data
        self.task = z3.Function('task_of', Val, Val)
        st.ghost['nrec'] = z3.IntVal(0)
        self.reqs = QueueWriter(ex, 'reqs')
        self.reqs.init(st)
        self.shutdown = z3.Const('shutdown_path', Val)
        self.me = Rec(ex, 'self')
        def read_flag(e, s):
            b = fresh('to_shutdown', z3.BoolSort())
            s = s.fork()
            s.ghost['flag_seen'] = b          # what the last look at the shutdown flag answered
            return [('ok', s, b)]
        self.me.volatile['to_shutdown'] = read_flag     # shared with the other connections
        self.me.init(st, _shutdown_path=self.shutdown,
                     app=Rec(ex, 'app', immutable=True, methods={'handle_request': Fn(lambda e, s, a, k, n: [('ok', s, self.handle(box(e, a[0]), box(e, a[1])))])}))
        st.cells.update(self=self.me, reqs=self.reqs, reader=Rec(ex, 'reader'))

        def read_record(e, s, a, k, n):
            j = s.ghost['nrec']
            s1 = s.fork()
            s1.ghost['nrec'] = j + 1
            s1.ghost['cur'] = j
            rec = PyTuple([self.rid(j), PyTuple([self.path(j), self.payload(j)])])
            s2 = s.fork()
            s3 = s.fork()
            return [('ok', s1, rec), e.raise_new(s2, 'TimeoutError'), e.raise_new(s3, 'IncompleteReadError')]
        ex.globals['read_record'] = Fn(read_record, name='read_record (contract: unit read_record)')

        def create_task(e, s, a, k, n):
            return [('ok', s, self.task(box(e, a[0])))]
        ex.globals['asyncio.create_task'] = Fn(create_task)
        ex.globals['asyncio.TimeoutError'] = ExcClass('TimeoutError')
        st.ghost['cur'] = z3.IntVal(-1)
        loopobj = Rec(ex, 'loop', methods={'create_future': Fn(lambda e, s, a, k, n: [('ok', s, Rec(e, 'shutdown_fut', methods={'set_result': Nop()}))])})
        ex.globals['asyncio.get_running_loop'] = Fn(lambda e, s, a, k, n: [('ok', s, loopobj)])
        return st

    def on_put(self, ex, st, q, k, item, node):
        j = st.ghost['cur']
        item_u = unbox_handle(ex, item)
        ok = isinstance(item_u, PyTuple) and len(item_u.items) == 2
        t = unbox_handle(ex, item_u.items[1]) if ok else None
        if isinstance(t, Rec):
            ex.oblige(st, f'line {node.lineno}: the shutdown request is queued under its own id -- and ONLY a record addressed to the shutdown path is treated as one (every other record goes to its routed handler)',
                      z3.And(box(ex, item_u.items[0]) == self.rid(j), self.path(j) == self.shutdown))
            return
        ex.oblige(st, f'line {node.lineno}: a record addressed to the shutdown path is not dispatched to a handler', self.path(j) != self.shutdown)
        ex.oblige(st, f'line {node.lineno}: the k-th record of the connection is queued as the k-th (own id, task of the routed handler on its own payload): responses will be written in request order',
                  z3.And(z3.BoolVal(ok), k == j, box(ex, item_u.items[0]) == self.rid(j), box(ex, item_u.items[1]) == self.task(self.handle(self.path(j), self.payload(j)))) if ok else z3.BoolVal(False))

    @property
    def loops(self):
        return {0: LoopSpec(inv=lambda s, ex: z3.And(self.reqs.nput(s) == s.ghost['nrec'], box(ex, self.me.get(s, '_shutdown_path')) == self.shutdown), keep=('loop',), keep_ghost=())}

    def post(self, ex, outs):
        for k, s, p in outs:
            if k == 'raise':
                ex.oblige(s, 'exit(raise): only the connection being closed by the client (IncompleteReadError)', V.isinst(p, 'IncompleteReadError'))


class ServerResponding(Unit):
    prop = 'C18'
    file = F
    qual = 'SocketServer._handle_connection.<locals>._keep_responding'
    canaries = (('response written under the previous request id', '                await write_record(writer, req_id, z, encoder=self._encoder)', '                await write_record(writer, prev_id if prev_id is not None else req_id, z, encoder=self._encoder)\n                prev_id = req_id', ''),
                ('handler exception dropped (no response)', '                except Exception as e:\n                    z = RemoteException(e)', '                except Exception as e:\n                    continue', 'every request'),
                ('awaiting the handler inside the polling try (a handler TimeoutError is mistaken for the poll timeout)', '                try:\n                    z = await t\n                except Exception as e:\n                    z = RemoteException(e)',
                 '                try:\n                    z = await asyncio.wait_for(t, 0.1)\n                except Exception as e:\n                    z = RemoteException(e)', ''))

    def setup(self, ex):
        st = St()
        self.rid = z3.Function('rid_at', z3.IntSort(), Val)
        self.tk = z3.Function('task_at', z3.IntSort(), Val)
        from pyvc.models import fut_ok, fut_val, fut_exc
        self.reqs = QueueReader(ex, 'reqs')
        self.reqs.init(st)
        st.ghost['nwritten'] = z3.IntVal(0)
        self.encoder = z3.Const('encoder', Val)
        self.me = Rec(ex, 'self', immutable=True).init(st, to_shutdown=fresh('to_shutdown', z3.BoolSort()), _encoder=self.encoder)
        def read_flag(e, s):
            b = fresh('to_shutdown', z3.BoolSort())
            s = s.fork()
            s.ghost['flag_seen'] = b          # what the last look at the shutdown flag answered
            return [('ok', s, b)]
        self.me.volatile['to_shutdown'] = read_flag
        self.writer = Rec(ex, 'writer')
        st.cells.update(self=self.me, reqs=self.reqs, writer=self.writer)

        def wait_for(e, s, a, k, n):
            return [('ok', s, a[0]), e.raise_new(s.fork(), 'TimeoutError')] if not isinstance(a[0], Pending) else a[0].resolve(e, s)
        ex.globals['asyncio.wait_for'] = Fn(wait_for)
        ex.globals['asyncio.TimeoutError'] = ExcClass('TimeoutError')
        ex.globals['RemoteException'] = Fn(lambda e, s, a, k, n: [('ok', s, remote(box(e, a[0])))])

        def write_record(e, s, a, k, n):
            j = s.ghost['cur']
            t = self.tk(j)
            want = z3.If(fut_ok(t), fut_val(t), remote(fut_exc(t)))
            e.oblige(s, f'line {n.lineno}: the response to the j-th queued request is written j-th, on this connection\'s writer, under that request\'s id, carrying its own outcome (the handler\'s result, or its exception wrapped in RemoteException), with the configured encoder',
                     z3.And(z3.BoolVal(unbox_handle(e, a[0]) is self.writer), box(e, a[1]) == self.rid(j), box(e, a[2]) == want, box(e, k.get('encoder')) == self.encoder, s.ghost['nwritten'] == j))
            s = s.fork()
            s.ghost['nwritten'] = s.ghost['nwritten'] + 1
            return [('ok', s, NONE)]
        ex.globals['write_record'] = Fn(write_record, name='write_record (contract: unit write_record)')
        st.ghost['cur'] = z3.IntVal(-1)
        from pyvc.models import FutureSym
        ex.sym_models['t'] = FutureSym('Exception')
        return st

    def on_call(self, ex, st, e, src):
        if src == 'reqs.get':
            return [('ok', st, Pending(self))]
        return None

    def on_await(self, ex, st, v, node):
        if isinstance(node.value, ast.Name) and node.value.id == 't':
            return ex.sym_models['t'].outcome(ex, st, v, node)
        return [('ok', st, v)]

    def on_get(self, ex, st, q, k, z, node):
        s = st.fork().assume(z == V.tup(V.seq_of([self.rid(k), self.tk(k)])))
        s.ghost['cur'] = k
        return [s]

    @property
    def loops(self):
        return {0: LoopSpec(inv=lambda s, ex: s.ghost['nwritten'] == self.reqs.nget(s))}

    def post(self, ex, outs):
        for k, s, p in outs:
            if k == 'raise':
                ex.oblige(s, 'exit: the responder does not die with an exception (every request gets a response, even when its handler raises -- any Exception, TimeoutError included)', z3.Not(V.isinst(p, 'Exception')))
            else:
                ex.oblige(s, 'exit: every request taken from the queue was answered', s.ghost['nwritten'] == self.reqs.nget(s))
                ex.oblige(s, 'exit: the responder only ends once it has seen the shutdown flag set (an idle moment is not the end: requests still to come on this connection must be answered)',
                          s.ghost['flag_seen'] if s.ghost.get('flag_seen') is not None else z3.BoolVal(False))


class Pending:
    """the awaitable reqs.get(): resolved by asyncio.wait_for"""

    def __init__(self, unit):
        self.u = unit

    def resolve(self, ex, st):
        outs = self.u.reqs.m_get(ex, st, [], {}, ast.parse('x').body[0])
        outs.append(ex.raise_new(st.fork(), 'TimeoutError'))
        return outs


# ================================================================ client side
class ClientReceiving(Unit):
    prop = 'C18'
    file = F
    qual = 'SocketClient._open_connections.<locals>._keep_receiving'
    canaries = (('response delivered to the future registered under another id', 'fut = active.pop(req_id)', 'fut = active.pop(req_id + 1)', ''),
                ('a remote exception delivered as a result', 'fut.set_exception(data)', 'fut.set_result(data)', 'as exception'))

    def setup(self, ex):
        st = St()
        self.active = SharedMap(ex, 'active').init(st, z3.Const('active0', z3.ArraySort(Val, Val)), z3.Int('n0'))
        self.rid, self.data = z3.Int('response_id'), z3.Const('response_data', Val)
        self.fut = Rec(ex, 'fut', methods={'set_result': Fn(self.resolve(False)), 'set_exception': Fn(self.resolve(True))})
        st.assume(z3.Select(self.active.arr(st), V.intv(self.rid)) == self.fut.val(), self.fut.val() != Absent, *V.cls_facts(self.data))
        self.stop = Event(ex, 'to_shutdown')
        self.stop.init(st)
        st.cells['self'] = Rec(ex, 'self', immutable=True).init(st, _active_requests=self.active, _to_shutdown=self.stop)
        st.env['reader'] = Rec(ex, 'reader')
        st.ghost['resolved'] = ()
        st.ghost['nrec'] = z3.IntVal(0)

        def read_record(e, s, a, k, n):
            s1 = s.fork()
            s1.ghost['nrec'] = s1.ghost['nrec'] + 1
            return [('ok', s1, PyTuple([IdStr(self.rid), self.data])), e.raise_new(s.fork(), 'TimeoutError'), e.raise_new(s.fork(), 'IncompleteReadError')]
        ex.globals['read_record'] = Fn(read_record)
        ex.globals['int'] = Fn(lambda e, s, a, k, n: [('ok', s, a[0].n if isinstance(a[0], IdStr) else as_int(e, s, a[0]))], trusted='int(str(n)) == n')
        ex.globals['asyncio.TimeoutError'] = ExcClass('TimeoutError')
        ex.sym_models['fut'] = FutModel(self)
        return st

    def resolve(self, is_exc):
        def f(e, s, a, k, n):
            s = s.fork()
            s.ghost['resolved'] = s.ghost['resolved'] + ((is_exc, box(e, a[0])),)
            return [('ok', s, NONE)]
        return f

    def interfere(self, ex, st, m, node):
        pass

    def after_map_write(self, ex, st, m, kind, k, v, node):
        ex.oblige(st, f'line {node.lineno}: exactly the entry of the response\'s id is removed', z3.And(z3.BoolVal(kind == 'pop'), k == V.intv(self.rid)))

    @property
    def loops(self):
        def back(s, ex):
            r = s.ghost['resolved']
            ex.oblige(s, 'iteration: a response resolves exactly one future -- the one registered under its id -- with its own data (as exception if it is one); no response, nothing resolved',
                      z3.And(z3.BoolVal(len(r) <= 1), s.ghost['nrec'] == s.ghost['#nrec_head'] + len(r),
                             z3.And(r[0][1] == self.data, z3.BoolVal(r[0][0]) == V.isinst(self.data, 'BaseException')) if len(r) == 1 else z3.BoolVal(True)))
        sp = LoopSpec(inv=lambda s, ex: z3.BoolVal(True))

        def head(h, ex):
            h.ghost['resolved'] = ()
            h.ghost['#nrec_head'] = h.ghost['nrec']
            h.assume(z3.Select(self.active.arr(h), V.intv(self.rid)) == self.fut.val(), self.fut.val() != Absent)
        sp.at_head = head
        sp.on_backedge = lambda s, ex: back(s, ex)
        return {0: sp}

    def on_call(self, ex, st, e, src):
        return None

    def post(self, ex, outs):
        for k, s, p in outs:
            if k == 'raise':
                ex.oblige(s, 'exit(raise): only the connection being closed by the server (IncompleteReadError)', V.isinst(p, 'IncompleteReadError'))


class FutModel:
    """the value popped from the in-flight table: must be the future registered under the response's id"""

    def __init__(self, unit):
        self.u = unit

    def getattr(self, ex, st, base, attr, node):
        from pyvc.core import BoundMethod
        ex.oblige(st, f'line {node.lineno}: the future resolved is the one registered under the response\'s id', base == self.u.fut.val())
        return [('ok', st, BoundMethod(self.u.fut, attr))]


class IdStr:
    def __init__(self, n):
        self.n = n


class ClientSending(Unit):
    prop = 'C18'
    file = F
    qual = 'SocketClient._open_connections.<locals>._keep_sending'
    ignore_calls = ('asyncio.sleep',)
    canaries = (('request registered under the id of its payload', '                req_id = id(fut)', '                req_id = id(x)', 'own future'),
                ('future registered under another key', '                active[req_id] = fut', '                active[0] = fut', 'own future'),
                ('the sender leaves at the first idle moment', '                    if to_shutdown.is_set():\n                        return', '                    if not to_shutdown.is_set():\n                        return', 'only ends once'))

    def setup(self, ex):
        st = St()
        self.x, self.fut = z3.Const('x', Val), z3.Const('fut', Val)
        self.active = SharedMap(ex, 'active').init(st)
        self.stop = Event(ex, 'to_shutdown')
        self.stop.init(st)
        self.encoder = z3.Const('encoder', Val)
        st.ghost['sent'] = ()

        def get_nowait(e, s, a, k, n):
            return [('ok', s, PyTuple([self.x, self.fut])), e.raise_new(s.fork(), 'queue.Empty')]
        st.cells['self'] = Rec(ex, 'self', immutable=True).init(st, _pending_requests=Rec(ex, 'pending', methods={'get_nowait': Fn(get_nowait)}), _active_requests=self.active,
                                                               _encoder=self.encoder, _to_shutdown=self.stop)
        self.writer = Rec(ex, 'writer')
        st.env['writer'] = self.writer

        def write_record(e, s, a, k, n):
            s = s.fork()
            s.ghost['sent'] = s.ghost['sent'] + ((unbox_handle(e, a[0]), box(e, a[1]), box(e, a[2]), box(e, k.get('encoder'))),)
            return [('ok', s, NONE)]
        ex.globals['write_record'] = Fn(write_record)
        self.idf = z3.Function('py_id', Val, z3.IntSort())
        return st

    def interfere(self, ex, st, m, node):
        pass

    def after_map_write(self, ex, st, m, kind, k, v, node):
        sent = st.ghost['sent']
        ok = len(sent) == 1
        ex.oblige(st, 'the request is sent under id(its own future) with its own payload, and exactly that future is registered under that id',
                  z3.And(z3.BoolVal(kind == 'set' and ok), k == V.intv(self.idf(self.fut)), v == self.fut, sent[0][1] == V.intv(self.idf(self.fut)), sent[0][2] == self.x,
                         sent[0][3] == self.encoder, z3.BoolVal(sent[0][0] is self.writer)) if ok else z3.BoolVal(False))
        st.ghost['registered'] = True

    @property
    def loops(self):
        sp = LoopSpec(inv=lambda s, ex: z3.BoolVal(True))

        def head(h, ex):
            h.ghost['sent'] = ()
            h.ghost['registered'] = False
        sp.at_head = head
        sp.on_backedge = lambda s, ex: ex.oblige(s, 'iteration: every request taken from the pending queue is sent once and registered', z3.BoolVal(len(s.ghost['sent']) == (1 if s.ghost.get('registered') else 0)))
        return {0: sp}

    def post(self, ex, outs):
        for k, s, p in outs:
            if k == 'raise':
                ex.oblige(s, 'exit: the sender does not die with an exception of its own', False)
            else:
                ex.oblige(s, 'exit: the sender only ends once the shutdown flag is set (an idle moment is not the end: later requests are still to be sent)', self.stop.get(s, 'flag'))


class PendingQ(QueueWriter):
    """self._pending_requests: None (falsy) before the client is started, the queue afterwards"""

    def truth(self, ex, st):
        return z3.Bool('client_started')


class ClientEnqueue(Unit):
    """SocketClient._enqueue: one new future per request, queued together with its own (path, payload); the in-flight table is not touched."""
    prop = 'C18'
    file = F
    qual = 'SocketClient._enqueue'
    canaries = (('payload queued without its path', 'self._pending_requests.put(((path, data), fut), timeout=timeout)', 'self._pending_requests.put((data, fut), timeout=timeout)', 'own'),)

    def setup(self, ex):
        st = St()
        self.path, self.data = z3.Const('path', Val), z3.Const('data', Val)
        self.active = SharedMap(ex, 'active').init(st)
        self.pending = PendingQ(ex, 'pending')
        self.pending.init(st)
        st.ghost['futs'] = ()
        ev1, ev2 = Event(ex, 'prepare_shutdown'), Event(ex, 'to_shutdown')
        ev1.init(st)
        ev2.init(st)
        st.env.update(self=Rec(ex, 'self', immutable=True).init(st, _pending_requests=self.pending, _active_requests=self.active, _prepare_shutdown=ev1, _to_shutdown=ev2),
                      path=self.path, data=self.data, timeout=z3.Const('timeout', Val))

        def new_future(e, s, a, k, n):
            f = Rec(e, f'future{len(s.ghost["futs"])}')
            s = s.fork()
            s.ghost['futs'] = s.ghost['futs'] + (f,)
            return [('ok', s, f)]
        ex.globals['concurrent.futures.Future'] = Fn(new_future)
        return st

    def interfere(self, ex, st, m, node):
        pass

    def on_put(self, ex, st, q, k, item, node):
        item = unbox_handle(ex, item)
        futs = st.ghost['futs']
        ok = isinstance(item, PyTuple) and len(item.items) == 2 and len(futs) == 1 and unbox_handle(ex, item.items[1]) is futs[0]
        ex.oblige(st, f'line {node.lineno}: the request is queued as ((its own path, its own payload), its own new future)',
                  z3.And(z3.BoolVal(True), box(ex, item.items[0]) == V.tup(V.seq_of([self.path, self.data]))) if ok else z3.BoolVal(False))

    def post(self, ex, outs):
        for k, s, p in outs:
            ex.oblige(s, 'exit: the in-flight table is not touched (only the sender adds, only the receiver removes: ids of requests in flight stay unique)', s.ghost.get('writes', z3.IntVal(0)) == 0)
            if k in ('normal', 'return'):
                futs = s.ghost['futs']
                ex.oblige(s, 'exit: returns the future that was queued with the request, queued exactly once', z3.And(z3.BoolVal(len(futs) == 1 and unbox_handle(ex, p) is futs[0]), self.pending.nput(s) == 1))
                ex.oblige(s, 'exit: a request is only accepted while the client is open (neither closing flag was seen set): once closing, the sender may already have left and the request would never be sent',
                          z3.Not(z3.Or(*[v.get(s, 'flag') for v in ex.objs.values() if isinstance(v, Event)])))
            else:
                ex.oblige(s, 'exit(raise): nothing was queued', self.pending.nput(s) == 0)
                # a started, open client accepts the request: it is refused only before the client is started, once it is closing, or when the pending queue stayed full for the caller's timeout
                closing = z3.Or(*[v.get(s, 'flag') for v in ex.objs.values() if isinstance(v, Event)])
                ex.oblige(s, 'exit(raise): a request is refused only when the client is not started, is closing, or the pending queue stayed full (queue.Full)',
                          z3.Or(z3.Not(z3.Bool('client_started')), closing, V.isinst(p, 'queue.Full')))


class ClientRequest(Unit):
    """SocketClient.request: the outcome is the outcome of the future of its own _enqueue call; the in-flight table is not touched
    (in particular not on a response timeout: the entry keeps the future alive -- and its id unique -- until the response arrives)."""
    prop = 'C18'
    file = F
    qual = 'SocketClient.request'
    numeric_vals_are_ints = True        # response_timeout: None or a number (modelled as an integer; only its sign is tested)
    assumed_contracts = ('self._enqueue: unit C18:SocketClient._enqueue',)
    canaries = (('timed-out request dropped from the in-flight table', '        return fut.result(timeout=response_timeout)',
                 '        try:\n            return fut.result(timeout=response_timeout)\n        except TimeoutError:\n            self._active_requests.pop(id(fut), None)\n            raise', 'not touched'),
                ('result of the wrong call returned', 'fut = self._enqueue(path, data, timeout=enqueue_timeout)', 'fut = self._enqueue(path, None, timeout=enqueue_timeout)', 'own'))

    def setup(self, ex):
        from pyvc.models import fut_ok, fut_val, fut_exc
        st = St()
        self.path, self.data = z3.Const('path', Val), z3.Const('data', Val)
        self.active = SharedMap(ex, 'active').init(st, z3.Const('active0', z3.ArraySort(Val, Val)), z3.Int('n0'))
        self.futof = z3.Function('future_of_request', Val, Val, Val)
        st.ghost['enq'] = ()

        def enqueue(e, s, a, k, n):
            s = s.fork()
            s.ghost['enq'] = s.ghost['enq'] + ((box(e, a[0]), box(e, a[1])),)
            return [('ok', s, self.futof(box(e, a[0]), box(e, a[1]))), e.raise_new(s.fork(), 'Exception')]
        st.env.update(self=Rec(ex, 'self', immutable=True, methods={'_enqueue': Fn(enqueue)}).init(st, _active_requests=self.active),
                      path=self.path, data=self.data, enqueue_timeout=z3.Const('enqueue_timeout', Val), response_timeout=z3.Const('response_timeout', Val))
        ex.sym_models['fut'] = ResultModel()
        rt = st.env['response_timeout']
        st.assume(z3.Or(rt == NONE, V.is_intv(rt)))         # precondition: a number or None
        return st

    def interfere(self, ex, st, m, node):
        pass

    def post(self, ex, outs):
        from pyvc.models import fut_ok, fut_val, fut_exc
        f = self.futof(self.path, self.data)
        for k, s, p in outs:
            ex.oblige(s, 'exit: the in-flight table is not touched (a timed-out request stays registered until its response arrives, so its id cannot be reused)', s.ghost.get('writes', z3.IntVal(0)) == 0)
            enq = s.ghost['enq']
            ex.oblige(s, 'exit: the request\'s future is left as it is -- never cancelled, also not on a response timeout: it stays in the in-flight table, and the receive loop resolves '
                         'whatever it finds there (set_result on a cancelled future raises InvalidStateError in the I/O thread: every other request of the client would go unanswered)',
                      z3.BoolVal(not s.ghost.get('cancelled')))
            if k in ('normal', 'return'):
                ex.oblige(s, 'exit: enqueued exactly its own (path, payload); returns the result of its own future (or None when no response is wanted)',
                          z3.And(z3.BoolVal(len(enq) == 1), enq[0][0] == self.path, enq[0][1] == self.data,
                                 # None WITHOUT waiting only when the caller said it wants no response (response_timeout <= 0); otherwise the future's own result
                                 z3.If(z3.And(V.is_intv(s.env['response_timeout']), V.ival(s.env['response_timeout']) <= 0), box(ex, p) == NONE, z3.And(fut_ok(f), box(ex, p) == fut_val(f)))) if len(enq) == 1 else z3.BoolVal(False))
            else:
                ex.oblige(s, 'exit(raise): the enqueue failure, its own future\'s exception, or the response timeout', z3.BoolVal(len(enq) <= 1))


class ResultModel:
    def getattr(self, ex, st, base, attr, node):
        from pyvc.core import SymMethod
        return [('ok', st, SymMethod(self, base, attr))]

    def call(self, ex, st, recv, name, args, kwargs, node):
        from pyvc.models import fut_ok, fut_val, fut_exc
        if name == 'cancel':
            st = st.fork()
            st.ghost['cancelled'] = st.ghost.get('cancelled', ()) + (recv,)
            return [('ok', st, fresh('cancel_result', z3.BoolSort()))]
        if name != 'result':
            raise Unsupported(f'future.{name}()')
        s1 = st.fork().assume(fut_ok(recv))
        e = fut_exc(recv)
        s2 = st.fork().assume(z3.Not(fut_ok(recv)), V.isinst(e, 'BaseException'), *V.cls_facts(e))
        return [('ok', s1, fut_val(recv)), ('raise', s2, e), ex.raise_new(st.fork(), 'TimeoutError')]


# ================================================================ SocketClient.stream: order preserving (feeder thread + polling consumer)
from pyvc.models import FutureSym, fut_ok, fut_val, fut_exc, Future, FutureCtor, Source       # noqa: E402
s_src = z3.Function('stream_src_at', z3.IntSort(), Val)
enq_ok = z3.Function('client_enqueue_ok', Val, Val, z3.BoolSort())            # self._enqueue(path, x): returns the request's future, or raises
enq_fut = z3.Function('client_enqueue_future', Val, Val, Val)
enq_exc = z3.Function('client_enqueue_exc', Val, Val, Val)
NOMORE = z3.Const('nomore_marker', Val)


class PutInQueue(Unit):
    """put_in_queue(q, x, stop_event): True iff x was put -- exactly once; False only when the stop event is set, and then nothing was put."""
    prop = 'C18'
    file = F
    qual = 'put_in_queue'
    canaries = (('reports success without having put', '            q.put(x, timeout=timeout)\n            return True', '            return True', ''),
                ('gives up on a full queue although nobody asked to stop', '            if stop_event.is_set():\n                return False', '            return False', ''))

    def setup(self, ex):
        st = St()
        self.q = QueueWriter(ex, 'q')
        self.q.init(st)
        self.x = z3.Const('x', Val)
        self.stop = Event(ex, 'stop_event')
        self.stop.init(st)
        st.env.update(q=self.q, x=self.x, stop_event=self.stop, timeout=z3.RealVal('0.1'))
        st.ghost['put_x'] = z3.IntVal(0)
        return st

    def on_put(self, ex, st, q, k, item, node):
        ex.oblige(st, f'line {node.lineno}: what is put is x', box(ex, item) == self.x)
        st.ghost['put_x'] = st.ghost['put_x'] + 1

    @property
    def loops(self):
        return {0: LoopSpec(inv=lambda s, ex: s.ghost['put_x'] == 0)}

    def post(self, ex, outs):
        for k, s, p in outs:
            if k in ('normal', 'return'):
                r = box(ex, p)
                ex.oblige(s, 'exit: returns True after exactly one put of x; returns False only when the stop event is set, without having put anything',
                          z3.Or(z3.And(r == V.boolv(z3.BoolVal(True)), s.ghost['put_x'] == 1), z3.And(r == V.boolv(z3.BoolVal(False)), s.ghost['put_x'] == 0, self.stop.get(s, 'flag'))))
            else:
                ex.oblige(s, 'exit: raises nothing', False)


class StreamSource(Source):
    def pull(self, ex, st, node):
        outs = []
        for kind, s, x in super().pull(ex, st, node):
            if kind == 'item':
                s.assume(x == s_src(z3.Length(self.seen(s)) - 1))
            outs.append((kind, s, x))
        return outs


def stream_item(k, z, f, t0):
    """feeder guarantee for item #k: (k-th element, ITS OWN future, time stamp)"""
    return z == V.tup(V.seq_of([s_src(k), f, t0]))


def stream_fut_spec(path, x, f, return_exc):
    return z3.If(enq_ok(path, x), f == enq_fut(path, x), z3.And(return_exc, z3.Not(fut_ok(f)), fut_exc(f) == enq_exc(path, x)))


class StreamFeed(Unit):
    prop = 'C18'
    file = F
    qual = 'SocketClient.stream.<locals>._enqueue'
    expected_exits = ('normal', 'raise')
    assumed_contracts = ('put_in_queue: unit C18:put_in_queue', 'self._enqueue: unit C18:SocketClient._enqueue')
    canaries = (('element enqueued with the future of the previous one', 'if not put_in_queue(tt, (x, fut, t0), to_shutdown):', 'if not put_in_queue(tt, (x, prev if prev is not None else fut, t0), to_shutdown):\n                    return\n                prev = fut\n                if False:', 'own future'),
                ('end marker not sent', '            put_in_queue(tt, nomore, to_shutdown)', '            pass', ''),
                ('request sent under another path', 'fut = en(path, x, timeout=et)', "fut = en('/', x, timeout=et)", ''))

    def setup(self, ex):
        st = St()
        self.src = StreamSource(ex, 'data', may_raise=('Exception',))
        self.src.init(st)
        self.path = z3.Const('path', Val)
        self.rexc = z3.Bool('return_exceptions')
        self.stop = Event(ex, 'to_shutdown')
        self.stop.init(st)
        self.tasks = z3.Const('tasks_queue', Val)
        st.ghost['puts'] = z3.IntVal(0)
        st.ghost['terminal_put'] = z3.BoolVal(False)
        st.ghost['gave_up'] = z3.BoolVal(False)
        st.assume(V.is_ref(NOMORE))

        def enqueue(e, s, a, k, n):
            pth, x = box(e, a[0]), box(e, a[1])
            e.oblige(s, f'line {n.lineno}: the request goes to the stream\'s own path with the caller\'s enqueue timeout', z3.And(pth == self.path, box(e, k.get('timeout')) == z3.Const('enqueue_timeout', Val)))
            s1 = s.fork().assume(enq_ok(pth, x))
            exc = enq_exc(pth, x)
            s2 = s.fork().assume(z3.Not(enq_ok(pth, x)), V.isinst(exc, 'Exception'), *V.cls_facts(exc))
            return [('ok', s1, enq_fut(pth, x)), ('raise', s2, exc)]

        def put_in_queue(e, s, a, k, n):
            e.oblige(s, f'line {n.lineno}: items go to the stream\'s own queue, under the client\'s shutdown event', z3.And(box(e, a[0]) == self.tasks, z3.BoolVal(unbox_handle(e, a[2]) is self.stop)))
            item = unbox_handle(e, a[1])
            kk = s.ghost['puts']
            e.oblige(s, f'line {n.lineno}: nothing is put after the end marker or after giving up', z3.And(z3.Not(s.ghost['terminal_put']), z3.Not(s.ghost['gave_up'])))
            seen = self.src.seen(s)
            if isinstance(item, PyTuple) and len(item.items) == 3:
                x, f = box(e, item.items[0]), item.items[1]
                fu = unbox_handle(e, f)
                if isinstance(fu, Future):
                    fv = fu.val()
                    s = s.fork().assume(z3.Implies(fu.get(s, 'done'), fut_ok(fv) == z3.Not(fu.get(s, 'is_exc'))), z3.Implies(z3.And(fu.get(s, 'done'), fu.get(s, 'is_exc')), fut_exc(fv) == fu.get(s, 'val')))
                    e.oblige(s, f'line {n.lineno}: a future made by the feeder is already resolved', fu.get(s, 'done'))
                    f = fv
                e.oblige(s, f'line {n.lineno}: item #k is (k-th element of the data, ITS OWN future -- the one the client\'s enqueue returned for it, or a pre-failed one carrying its enqueue error when exceptions are returned -- , time stamp)',
                         z3.And(kk == z3.Length(seen) - 1, x == s_src(kk), stream_fut_spec(self.path, x, box(e, f), self.rexc)))
                term = False
            else:
                e.oblige(s, f'line {n.lineno}: the end marker is put only after the data is exhausted, having put one item per element', z3.And(box(e, a[1]) == NOMORE, self.src.done(s), z3.Not(self.src.failed(s)), kk == z3.Length(seen)))
                term = True
            s1 = s.fork()
            s1.ghost['puts'] = kk + 1
            if term:
                s1.ghost['terminal_put'] = z3.BoolVal(True)
            s2 = s.fork()
            self.stop.set(s2, 'flag', z3.BoolVal(True))
            s2.ghost['gave_up'] = z3.BoolVal(True)
            return [('ok', s1, z3.BoolVal(True)), ('ok', s2, z3.BoolVal(False))]
        me = Rec(ex, 'self', immutable=True, methods={'_enqueue': Fn(enqueue)}).init(st, _to_shutdown=self.stop)
        st.cells.update(self=me, data=self.src, path=self.path, tasks=self.tasks, nomore=NOMORE, enqueue_timeout=z3.Const('enqueue_timeout', Val), return_exceptions=self.rexc)
        ex.globals['put_in_queue'] = Fn(put_in_queue)
        ex.globals['concurrent.futures.Future'] = FutureCtor()
        ex.globals['perf_counter'] = Fn(lambda e, s, a, k, n: [('ok', s, fresh('t0', z3.RealSort()))])
        return st

    @property
    def loops(self):
        return {0: LoopSpec(inv=lambda s, ex: z3.And(s.ghost['puts'] == z3.Length(self.src.seen(s)), z3.Not(s.ghost['terminal_put']), z3.Not(s.ghost['gave_up']), z3.Not(self.src.failed(s))))}

    def post(self, ex, outs):
        for k, s, p in outs:
            if k in ('normal', 'return'):
                ex.oblige(s, 'exit: ends after the end marker (all elements put, data exhausted), or having given up because the client is shutting down',
                          z3.Or(z3.And(s.ghost['terminal_put'], s.ghost['puts'] == z3.Length(self.src.seen(s)) + 1), z3.And(s.ghost['gave_up'], self.stop.get(s, 'flag'))))
            else:
                x = V.last(self.src.seen(s))
                ex.oblige(s, 'exit(raise): only the data source\'s own failure, or the enqueue error of the element in hand when exceptions are not returned -- after one item per earlier element, no end marker',
                          z3.And(z3.Not(s.ghost['terminal_put']), z3.Or(z3.And(self.src.failed(s), s.ghost['puts'] == z3.Length(self.src.seen(s))),
                                                                        z3.And(z3.Not(self.rexc), z3.Not(enq_ok(self.path, x)), p == enq_exc(self.path, x), s.ghost['puts'] == z3.Length(self.src.seen(s)) - 1))))


class StreamConsume(Unit):
    """SocketClient.stream (the generator): output #j is the outcome of element #j's own future, in input order; it ends normally only after the end
    marker (every element answered) or on client shutdown; it raises only the feeder's failure or -- exceptions not returned -- element #j's own error."""
    prop = 'C18'
    file = F
    qual = 'SocketClient.stream'
    unreachable_ok = ('raise ValueError(',)       # defensive: unreachable under the feeder's contract (a feeder that ended without the end marker either failed or gave up on shutdown)
    numeric_vals_are_ints = False
    consumer_may_stop = False
    expected_exits = ('normal', 'raise')
    ignore_calls = ('logger.error',)
    assumed_contracts = ('feeder guarantee: unit C18:SocketClient.stream.<locals>._enqueue', 'SingleLane FIFO: contracts/singlelane.py')
    canaries = (('result paired with the previous input', '                    yield x, y', '                    yield prev_x if prev_x is not None else x, y\n                    prev_x = x', 'own input'),
                ('feeder finished => stop, without looking at the queue again (the pinned-tree race)', '                    if not tasks.empty():\n', '                    if False:\n', ''),
                ('exception swallowed', '                    logger.error(repr(e))\n                    raise', '                    continue', ''))

    def setup(self, ex):
        st = St()
        self.path, self.data = z3.Const('path', Val), z3.Const('data', Val)
        self.rx, self.rexc = z3.Bool('return_x'), z3.Bool('return_exceptions')
        self.stop = Event(ex, 'to_shutdown')
        self.stop.init(st)
        st.ghost['nyield'] = z3.IntVal(0)
        st.ghost['terminal_got'] = z3.BoolVal(False)
        st.ghost['n_elems'] = z3.Int('n_elements')           # number of elements the feeder put before its end (defined by the feeder's history)
        st.ghost['feeder_done_seen'] = z3.BoolVal(False)
        self.f_failed = z3.Bool('feeder_failed')               # how the feeder ends (fixed by its own run): with an exception ...
        self.f_exc = z3.Const('feeder_exception', Val)
        self.f_gaveup = z3.Bool('feeder_gave_up')              # ... or having given up on shutdown (then the shutdown event is set) ... or after the end marker
        st.assume(V.isinst(self.f_exc, 'Exception'), *V.cls_facts(self.f_exc), z3.Not(z3.And(self.f_failed, self.f_gaveup)), st.ghost['n_elems'] >= 0, V.is_ref(NOMORE))      # nomore = object()
        self.made = {}
        unit = self

        def mkq(e, s, a, k, n):
            q = QueueReader(e, 'tasks')
            s = s.fork()
            q.init(s)
            self.made['q'] = q
            return [('ok', s, q)]
        ex.globals['SingleLane'] = Fn(mkq)
        ex.globals['object'] = Fn(lambda e, s, a, k, n: [('ok', s, NOMORE)])

        class TaskFut(Obj):
            """the future of the feeder thread (executor.submit): done() is volatile until seen True"""

            def havoc(self_, e, s):
                pass

            def m_done(self_, e, s, a, k, n):
                d = fresh('feeder_done', z3.BoolSort())
                s = s.fork().assume(z3.Implies(s.ghost['feeder_done_seen'], d))
                s1 = s.fork().assume(d)
                s1.ghost['feeder_done_seen'] = z3.BoolVal(True)
                # a finished feeder that gave up did so because the shutdown event is set (unit _enqueue); the event is never cleared
                if z3.is_true(z3.simplify(unit.f_gaveup)):
                    pass
                s1.assume(z3.Implies(unit.f_gaveup, unit.stop.get(s1, 'flag')))
                s2 = s.fork().assume(z3.Not(d))
                return [x for x in (('ok', s1, z3.BoolVal(True)), ('ok', s2, z3.BoolVal(False))) if e.feasible(x[1])]

            def m_exception(self_, e, s, a, k, n):
                e.oblige(s, f'line {n.lineno}: exception() is asked only of a finished feeder (it would block otherwise)', s.ghost['feeder_done_seen'])
                s1 = s.fork().assume(unit.f_failed)
                s2 = s.fork().assume(z3.Not(unit.f_failed))
                return [x for x in (('ok', s1, unit.f_exc), ('ok', s2, NONE)) if e.feasible(x[1])]
        self.t = TaskFut(ex, 'feeder_task')
        st.ghost['submitted'] = ()

        def submit(e, s, a, k, n):
            from pyvc.core import Closure
            s = s.fork()
            tgt = unbox_handle(e, a[0])
            e.oblige(s, f'line {n.lineno}: the feeder submitted is the local `_enqueue` (bound to this call\'s queue, marker, path and data)', z3.BoolVal(isinstance(tgt, Closure) and tgt.node.name == '_enqueue' and len(a) == 1 and not k))
            s.ghost['submitted'] = s.ghost['submitted'] + (1,)
            return [('ok', s, self.t)]
        me = Rec(ex, 'self', immutable=True).init(st, _backlog=z3.Int('backlog'), _to_shutdown=self.stop, _executor=Rec(ex, 'executor', immutable=True, methods={'submit': Fn(submit)}),
                                                  _tasks=Rec(ex, '_tasks', immutable=True, methods={'append': Nop()}))
        st.env.update(self=me, path=self.path, data=self.data, return_x=self.rx, return_exceptions=self.rexc, enqueue_timeout=z3.Const('enqueue_timeout', Val), response_timeout=z3.Real('response_timeout'))
        ex.globals['perf_counter'] = Fn(lambda e, s, a, k, n: [('ok', s, fresh('now', z3.RealSort()))])
        ex.sym_models['fut'] = FutureSym('Exception')
        return st

    def on_binop(self, ex, st, op, a, b, node):
        return [('ok', st, fresh('remaining_time', z3.RealSort()))]       # response_timeout - (perf_counter() - t0): only passed on as the wait limit

    # rely on the feeder: item #k for k < n_elems; then (only if it neither failed nor gave up) the end marker at index n_elems
    def on_get(self, ex, st, q, k, z, node):
        ex.oblige(st, f'line {node.lineno}: no get after the end marker', z3.Not(st.ghost['terminal_got']))
        n = st.ghost['n_elems']
        f, t0 = fresh('f'), fresh('t0', z3.RealSort())
        s1 = st.fork().assume(k < n, stream_item(k, z, f, V.realv(t0)), stream_fut_spec(self.path, s_src(k), f, self.rexc), z != NOMORE, *V.cls_facts(z))
        s1.ghost['cur_f'] = f
        s1.ghost['cur_k'] = k
        s2 = st.fork().assume(k == n, z == NOMORE, z3.Not(self.f_failed), z3.Not(self.f_gaveup))
        s2.ghost['terminal_got'] = z3.BoolVal(True)
        return [s1, s2]

    def on_empty(self, ex, st, q, b, node):
        # asked after the feeder was SEEN finished: then all its puts are in the past, so "empty" is exact:
        # empty <=> everything it put has been taken (n_elems items, plus the end marker unless it failed / gave up)
        n = st.ghost['n_elems']
        total = n + z3.If(z3.Or(self.f_failed, self.f_gaveup), 0, 1)
        st.assume(z3.Implies(st.ghost['feeder_done_seen'], b == (q.nget(st) == total)), q.nget(st) <= total)

    def omap(self, x, y):
        return z3.If(self.rx, V.tup(V.seq_of([x, y])), y)

    def on_yield(self, ex, st, val, node):
        k = st.ghost['cur_k']
        f = st.ghost['cur_f']
        n = st.ghost['nyield']
        y_ok = z3.And(fut_ok(f), val == self.omap(s_src(k), fut_val(f)))
        y_exc = z3.And(z3.Not(fut_ok(f)), self.rexc, val == self.omap(s_src(k), fut_exc(f)))
        ex.oblige(st, f'line {node.lineno}: output #k is produced exactly once, in input order', z3.And(n == k, k == self.made['q'].nget(st) - 1))
        ex.oblige(st, f'line {node.lineno}: output #k is the outcome of element #k\'s own future (its exception object if exceptions are returned), paired with its own input if return_x', z3.Or(y_ok, y_exc))
        st.ghost['nyield'] = n + 1

    @property
    def loops(self):
        def inv(s, ex):
            q = self.made['q']
            return z3.And(q.nget(s) == s.ghost['nyield'], q.nget(s) <= s.ghost['n_elems'], z3.Not(s.ghost['terminal_got']), z3.BoolVal(len(s.ghost['submitted']) == 1))
        return {0: LoopSpec(inv=inv, keep=('tasks', 'nomore', 't', '_enqueue'), keep_ghost=('n_elems', 'feeder_done_seen', 'submitted'))}

    def post(self, ex, outs):
        for k, s, p in outs:
            q = self.made['q']
            n = s.ghost['n_elems']
            if k in ('normal', 'return'):
                ex.oblige(s, 'exit: the stream ends normally only after the end marker -- one output per element, all of them -- or because the client is shutting down',
                          z3.Or(z3.And(s.ghost['terminal_got'], s.ghost['nyield'] == n), self.stop.get(s, 'flag')))
            else:
                f = s.ghost.get('cur_f', NONE)
                own = z3.And(z3.Not(self.rexc), z3.Not(fut_ok(f)), p == fut_exc(f), s.ghost['nyield'] == s.ghost.get('cur_k', z3.IntVal(-1))) if 'cur_f' in s.ghost else z3.BoolVal(False)
                feeder = z3.And(self.f_failed, p == self.f_exc, s.ghost['nyield'] == n, s.ghost['feeder_done_seen'])
                ex.oblige(s, 'exit(raise): only element #k\'s own error (exceptions not returned) after outputs 0..k-1, or the feeder\'s failure after EVERY element it had delivered was answered', z3.Or(own, feeder))


# ================================================================ routing and codecs
route_of = z3.Function('route_registered_under', Val, Val)


class HandleRequest(Unit):
    """SocketApplication.handle_request(path, data): the outcome of awaiting the route registered under THIS path, called with this data (without argument when the
    data is None -- the documented convention for argument-less routes)."""
    prop = 'C18'
    file = F
    qual = 'SocketApplication.handle_request'
    canaries = (('request dispatched to another route', 'return await self._routes[path](data)', "return await self._routes['/'](data)", ''),
                ('payload dropped', 'return await self._routes[path](data)', 'return await self._routes[path]()', ''))

    def setup(self, ex):
        st = St()
        self.path, self.data = z3.Const('path', Val), z3.Const('data', Val)
        self.known = z3.Bool('path_is_registered')
        st.ghost['calls'] = ()
        unit = self
        self.out = z3.Function('route_result', Val, Val, Val)

        class Routes(Obj):
            def getitem(self_, e, s, idx, node):
                s1 = s.fork().assume(unit.known)
                s2 = s.fork().assume(z3.Not(unit.known))
                key = box(e, idx)

                def call(e2, s3, a, k, n):
                    s3 = s3.fork()
                    s3.ghost['calls'] = s3.ghost['calls'] + ((key, [box(e2, x) for x in a]),)
                    exc = fresh('route_exc')
                    s4 = s3.fork().assume(V.isinst(exc, 'Exception'), *V.cls_facts(exc))
                    s4.ghost['route_exc'] = exc
                    return [('ok', s3, unit.out(key, box(e2, a[0]) if a else NONE)), ('raise', s4, exc)]
                return [x for x in (('ok', s1, Fn(call)), e.raise_new(s2, 'KeyError')) if e.feasible(x[1])]
        st.env.update(self=Rec(ex, 'self', immutable=True).init(st, _routes=Routes(ex, 'routes')), path=self.path, data=self.data)
        return st

    def post(self, ex, outs):
        for k, s, p in outs:
            calls = s.ghost['calls']
            if not calls:
                ex.oblige(s, 'exit(raise): nothing is called only for a path that is not registered (KeyError, returned to the requester as a RemoteException by the server loop)', z3.And(z3.BoolVal(k == 'raise'), z3.Not(self.known)))
                continue
            ok = len(calls) == 1
            args_ok = z3.If(self.data == NONE, z3.BoolVal(len(calls[0][1]) == 0), z3.And(z3.BoolVal(len(calls[0][1]) == 1), calls[0][1][0] == self.data if len(calls[0][1]) == 1 else z3.BoolVal(False))) if ok else z3.BoolVal(False)
            res = (box(ex, p) == self.out(self.path, self.data)) if k in ('normal', 'return') else (p == s.ghost.get('route_exc', NONE))
            ex.oblige(s, 'exit: exactly one call of the route registered under this path, with this data; its result is returned / its exception propagates', z3.And(z3.BoolVal(ok), calls[0][0] == self.path, args_ok, res))


class AddRoute(Unit):
    prop = 'C18'
    file = F
    qual = 'SocketApplication.add_route'
    canaries = (('route registered under another key', 'self._routes[path] = route', 'self._routes[route] = path', ''),)

    def setup(self, ex):
        st = St()
        self.path, self.route = z3.Const('path', Val), z3.Const('route', Val)
        self.routes = SharedMap(ex, 'routes').init(st)
        st.env.update(self=Rec(ex, 'self', immutable=True).init(st, _routes=self.routes), path=self.path, route=self.route)
        return st

    def interfere(self, ex, st, m, node):
        pass

    def post(self, ex, outs):
        for k, s, p in outs:
            ex.oblige(s, 'exit: the route is registered under exactly the given path', z3.And(z3.BoolVal(k in ('normal', 'return')), z3.Select(self.routes.arr(s), self.path) == self.route))


class Codec(Unit):
    """encode(data, encoder) / decode(bytes, encoder): pickle for 'pickle', utf-8 for 'utf8', the bytes themselves for 'none'; nothing else is accepted silently."""
    prop = 'C18'
    file = F
    qual = 'encode'
    direction = 'encode'
    assert_mode = 'raise'
    canaries = (('unknown encoder passes data through', "        raise ValueError(f\"expecting 'none' but got: {encoder}\")", '        pass', ''),)

    def setup(self, ex):
        st = St()
        self.data, self.encoder = z3.Const('data', Val), z3.String('encoder')
        st.env.update(data=self.data, encoder=self.encoder)
        self.pd, self.pl = z3.Function('pickle_dumps', Val, Val), z3.Function('pickle_loads', Val, Val)
        self.ue, self.ud = z3.Function('utf8_encode', Val, Val), z3.Function('utf8_decode', Val, Val)
        ex.globals['pickle_dumps'] = Fn(lambda e, s, a, k, n: [('ok', s, self.pd(box(e, a[0])))])
        ex.globals['pickle_loads'] = Fn(lambda e, s, a, k, n: [('ok', s, self.pl(box(e, a[0])))])
        unit = self

        class StrModel:
            def getattr(self_, e, s, base, attr, node):
                from pyvc.core import SymMethod
                return [('ok', s, SymMethod(self_, base, attr))]

            def call(self_, e, s, recv, name, args, kwargs, node):
                return [('ok', s, (unit.ue if name == 'encode' else unit.ud)(recv))]
        ex.sym_models['data'] = StrModel()
        return st

    def post(self, ex, outs):
        E = self.encoder
        for k, s, p in outs:
            if k in ('normal', 'return'):
                enc = self.direction == 'encode'
                want = z3.If(E == z3.StringVal('pickle'), (self.pd if enc else self.pl)(self.data), z3.If(E == z3.StringVal('utf8'), (self.ue if enc else self.ud)(self.data), self.data))
                ex.oblige(s, f'exit: {self.direction}s with the codec the encoder names (pickle / utf8 / bytes as they are); returns only for a known encoder',
                          z3.And(box(ex, p) == want, z3.Or(E == z3.StringVal('pickle'), E == z3.StringVal('utf8'), E == z3.StringVal('none'))))
            else:
                ex.oblige(s, 'exit(raise): only for an unknown encoder', z3.Not(z3.Or(E == z3.StringVal('pickle'), E == z3.StringVal('utf8'), E == z3.StringVal('none'))))


class Decode(Codec):
    qual = 'decode'
    direction = 'decode'
    canaries = (('utf8 payload decoded with pickle', "    if encoder == 'utf8':\n        return data.decode('utf')", "    if encoder == 'utf8':\n        return pickle_loads(data)", ''),)


from contracts.ctors import stores      # noqa: E402
AppInit = stores('C18', F, 'SocketApplication.__init__', [], {'_routes': ('const', {})},
                 canaries_=())
AppInit.__doc__ = """SocketApplication.__init__: every application object gets its OWN, empty route table (add_route / handle_request read self._routes: a table shared at class level
would let two applications in one process answer each other's paths)."""
ROUTING_UNITS = [HandleRequest, AddRoute, Codec, Decode, AppInit]


# ================================================================ named-pipe transport: _Pipe
class PipeBase(Unit):
    prop = 'C18'
    file = FP

    def base(self, ex):
        st = St()
        st.ghost['ev'] = ()
        self.rp, self.wp = z3.Const('abs_rpath', Val), z3.Const('abs_wpath', Val)

        def conn_ctor(e, s, a, k, n):
            s = s.fork()
            c = Rec(e, 'Connection', methods={m: Fn(self.conn_method(m)) for m in ('send', 'recv', 'send_bytes', 'recv_bytes', 'recv_bytes_into')})
            s.ghost['ev'] = s.ghost['ev'] + (('Connection', box(e, a[0]), {kk: box(e, v) for kk, v in k.items()}, c),)
            return [('ok', s, c)]
        ex.globals['multiprocessing.connection.Connection'] = Fn(conn_ctor)

        def os_open(e, s, a, k, n):
            s = s.fork()
            h = fresh('fd')
            s.ghost['ev'] = s.ghost['ev'] + (('open', box(e, a[0]), h),)
            return [('ok', s, h)]
        ex.globals['os.open'] = Fn(os_open)
        for nm in ('O_SYNC', 'O_CREAT', 'O_RDWR', 'O_RDONLY'):
            ex.globals['os.' + nm] = z3.Const('os.' + nm, Val)
        return st

    def conn_method(self, m):
        def f(e, s, a, k, n):
            s = s.fork()
            s.ghost['ev'] = s.ghost['ev'] + ((m, [box(e, x) for x in a], {kk: box(e, v) for kk, v in k.items()}),)
            return [('ok', s, z3.Function('conn_' + m + '_result', Val, Val)(z3.Const('conn_state', Val)))]
        return f

    def on_binop(self, ex, st, op, a, b, node):
        return [('ok', st, z3.Function('flags_or', Val, Val, Val)(box(ex, a), box(ex, b)))]


class PipeCtor(PipeBase):
    """_Pipe.__init__(rpath, wpath): both FIFOs exist afterwards; the WRITE end is opened at once on wpath (does not block), the read end is left for the
    first recv (opening a FIFO for reading blocks until the peer has opened it for writing)."""
    qual = '_Pipe.__init__'
    canaries = (('writer opened on the read path', 'hw = os.open(self._wpath,', 'hw = os.open(self._rpath,', ''),
                ('only one FIFO created', '        _mkfifo(self._wpath)\n', '', ''))

    def setup(self, ex):
        st = self.base(ex)
        self.me = Rec(ex, 'self')
        self.rpath, self.wpath = z3.Const('rpath', Val), z3.Const('wpath', Val)
        st.env.update(self=self.me, rpath=self.rpath, wpath=self.wpath)
        absp = z3.Function('abspath', Val, Val)
        self.absp = absp
        ex.globals['os.path.abspath'] = Fn(lambda e, s, a, k, n: [('ok', s, absp(box(e, a[0])))])
        ex.globals['_mkfifo'] = Fn(lambda e, s, a, k, n: (lambda s2: (s2.ghost.__setitem__('ev', s2.ghost['ev'] + (('mkfifo', box(e, a[0])),)), [('ok', s2, NONE)])[1])(s.fork()))
        return st

    def post(self, ex, outs):
        for k, s, p in outs:
            evs = s.ghost['ev']
            mk = [x for x in evs if x[0] == 'mkfifo']
            op = [x for x in evs if x[0] == 'open']
            cn = [x for x in evs if x[0] == 'Connection']
            ok = k in ('normal', 'return') and len(mk) == 2 and len(op) == 1 and len(cn) == 1
            ex.oblige(s, 'exit: both FIFOs are made (absolute paths of rpath and wpath); exactly one descriptor is opened, on wpath, and wrapped as the write-only Connection stored as the writer; no reader yet',
                      z3.And(z3.Or(z3.And(mk[0][1] == self.absp(self.rpath), mk[1][1] == self.absp(self.wpath)), z3.And(mk[1][1] == self.absp(self.rpath), mk[0][1] == self.absp(self.wpath))),
                             op[0][1] == self.absp(self.wpath), cn[0][1] == op[0][2], cn[0][2].get('readable', NONE) == V.boolv(z3.BoolVal(False)),
                             z3.BoolVal(unbox_handle(ex, self.me.get(s, '_writer')) is cn[0][3]), box(ex, self.me.get(s, '_reader')) == NONE,
                             box(ex, self.me.get(s, '_rpath')) == self.absp(self.rpath), box(ex, self.me.get(s, '_wpath')) == self.absp(self.wpath)) if ok else z3.BoolVal(False))


class PipeGetReader(PipeBase):
    """_Pipe._get_reader: opens the read FIFO once, read-only, on rpath, and returns the same Connection ever after."""
    qual = '_Pipe._get_reader'
    variant = 'first use'
    have_reader = False
    canaries = (('reader opened on the write path', 'hr = os.open(self._rpath, os.O_RDONLY)', 'hr = os.open(self._wpath, os.O_RDONLY)', ''),)

    def setup(self, ex):
        st = self.base(ex)
        self.me = Rec(ex, 'self')
        self.old = Rec(ex, 'existing_reader', immutable=True)
        self.me.init(st, _rpath=self.rp, _wpath=self.wp, _reader=(self.old if self.have_reader else NONE))
        st.env['self'] = self.me
        return st

    def post(self, ex, outs):
        for k, s, p in outs:
            evs = s.ghost['ev']
            op = [x for x in evs if x[0] == 'open']
            cn = [x for x in evs if x[0] == 'Connection']
            if self.have_reader:
                ex.oblige(s, 'exit: the existing reader is returned; nothing is opened', z3.BoolVal(k in ('normal', 'return') and not op and not cn and unbox_handle(ex, p) is self.old))
            else:
                ok = k in ('normal', 'return') and len(op) == 1 and len(cn) == 1
                ex.oblige(s, 'exit: one descriptor opened on rpath, wrapped as the read-only Connection, stored and returned',
                          z3.And(op[0][1] == self.rp, cn[0][1] == op[0][2], cn[0][2].get('writable', NONE) == V.boolv(z3.BoolVal(False)),
                                 z3.BoolVal(unbox_handle(ex, p) is cn[0][3] and unbox_handle(ex, self.me.get(s, '_reader')) is cn[0][3])) if ok else z3.BoolVal(False))


class PipeGetReaderAgain(PipeGetReader):
    variant = 'later uses'
    have_reader = True
    canaries = (('a new connection on every call', '        if self._reader is None:', '        if True:', ''),)


def pipe_delegate(meth, target, via, params, kw=()):
    """send/recv/...: exactly one call of the same-named Connection method on the writer / the reader, with the caller's own arguments; its result is returned"""
    class U(PipeBase):
        qual = f'_Pipe.{meth}'
        canaries = ()

        def setup(self, ex):
            st = self.base(ex)
            self.conn = Rec(ex, via, methods={m: Fn(self.conn_method(m)) for m in ('send', 'recv', 'send_bytes', 'recv_bytes', 'recv_bytes_into')})
            self.P = {p_: z3.Const(p_, Val) for p_ in params + kw}
            methods = {'_get_reader': Fn(lambda e, s, a, k, n: [('ok', s, self.conn)])} if via == 'reader' else {}
            me = Rec(ex, 'self', immutable=True, methods=methods).init(st, **({'_writer': self.conn} if via == 'writer' else {}))
            st.env.update(self=me, **self.P)
            return st

        def post(self, ex, outs):
            for k, s, p in outs:
                evs = [x for x in s.ghost['ev'] if x[0] in ('send', 'recv', 'send_bytes', 'recv_bytes', 'recv_bytes_into')]
                ok = k in ('normal', 'return') and len(evs) == 1 and evs[0][0] == target
                got = (evs[0][1] + [evs[0][2][kk] for kk in kw if kk in evs[0][2]]) if ok else []
                want = [self.P[p_] for p_ in params + kw]
                ex.oblige(s, f'exit: exactly one {via}.{target}(own arguments) and its result is returned',
                          z3.And(z3.BoolVal(len(got) == len(want)), *[g == w for g, w in zip(got, want)], box(ex, p) == z3.Function('conn_' + target + '_result', Val, Val)(z3.Const('conn_state', Val)) if meth.startswith('recv') else z3.BoolVal(True)) if ok else z3.BoolVal(False))
    U.__name__ = 'Pipe_' + meth
    return U


PIPE_UNITS = [PipeCtor, PipeGetReader, PipeGetReaderAgain, pipe_delegate('send', 'send', 'writer', ('obj',)), pipe_delegate('recv', 'recv', 'reader', ()),
              pipe_delegate('send_bytes', 'send_bytes', 'writer', ('buf',), ('offset', 'size')), pipe_delegate('recv_bytes', 'recv_bytes', 'reader', ('maxlength',)),
              pipe_delegate('recv_bytes_into', 'recv_bytes_into', 'reader', ('buf', 'offset'))]


class PipeInit(Unit):
    prop = 'C18'
    file = FP
    qual = 'Server.__init__'
    suffixes = ('.1', '.2')
    canaries = (('server reads and writes the same FIFO', "super().__init__(path + '.1', path + '.2')", "super().__init__(path + '.1', path + '.1')", 'the reverse'),)

    def setup(self, ex):
        st = St()
        self.path = z3.String('path')
        st.env.update(self=Rec(ex, 'self'), path=self.path)
        st.ghost['init'] = ()
        # pathlib, should the code use it: Path(x) stands for the text x; with_suffix REPLACES whatever follows the last dot of the last component
        # (so it is not `x + suffix`: 'link.east' and 'link.west' both give 'link.1'): an uninterpreted function of the text
        with_suffix = z3.Function('Path_with_suffix', z3.StringSort(), z3.StringSort(), z3.StringSort())

        class PathObj(Obj):
            def __init__(self_, e, text):
                super().__init__(e, 'Path')
                self_.text = text

            def havoc(self_, e, s):
                pass

            def val(self_):
                return box(ex, self_.text)

            def m_with_suffix(self_, e, s, a, k, n):
                return [('ok', s, PathObj(e, with_suffix(self_.text, a[0])))]

        def mkpath(e, s, a, k, n):
            x = unbox_handle(e, a[0])
            return [('ok', s, x if isinstance(x, PathObj) else PathObj(e, a[0]))]
        self.PathObj = PathObj
        ex.globals['Path'] = Fn(mkpath)
        ex.globals['str'] = Fn(lambda e, s, a, k, n: [('ok', s, unbox_handle(e, a[0]).text if isinstance(unbox_handle(e, a[0]), PathObj) else a[0])])
        ex.globals['os.fspath'] = ex.globals['str']
        return st

    def on_call(self, ex, st, e, src):
        if src == 'super().__init__':
            def f(s, ak):
                s = s.fork()
                s.ghost['init'] = s.ghost['init'] + (tuple(ak[0]),)
                return [('ok', s, NONE)]
            return ex.bind(ex.evargs(e, st), f)
        return None

    def post(self, ex, outs):
        for k, s, p in outs:
            if k in ('normal', 'return'):
                i = s.ghost['init']
                ok = len(i) == 1 and len(i[0]) == 2
                text = lambda v: (unbox_handle(ex, v).text if isinstance(unbox_handle(ex, v), self.PathObj) else v)
                ex.oblige(s, f'exit: reads path{self.suffixes[0]} and writes path{self.suffixes[1]} (the client does the reverse): the two FIFO names are the caller\'s path with the suffix APPENDED, '
                             'so different paths never share a FIFO',
                          z3.And(text(i[0][0]) == z3.Concat(self.path, z3.StringVal(self.suffixes[0])), text(i[0][1]) == z3.Concat(self.path, z3.StringVal(self.suffixes[1]))) if ok else z3.BoolVal(False))


class PipeClientInit(PipeInit):
    qual = 'Client.__init__'
    suffixes = ('.2', '.1')
    canaries = ()


UNITS = [WriteRecord, ReadRecord, FramingLemma, ServerReceiving, ServerResponding, ClientReceiving, ClientSending, ClientEnqueue, ClientRequest, PutInQueue, StreamFeed, StreamConsume] + ROUTING_UNITS + PIPE_UNITS + [PipeInit, PipeClientInit]
SCENARIOS = [('SocketClient.stream', 'replay/scenarios/c18_stream_poll_race.py'), ('', 'replay/scenarios/c18_transports.py')]
BOUNDED = [{'function': 'OS byte stream, asyncio task scheduling, multiprocessing.Connection over FIFOs', 'method': 'runtime scenario replay/scenarios/c18_transports.py', 'bound': '19 payload shapes up to 3 MiB, 120 concurrent requesters on 2 connections, 40 x 200 KB back-to-back, 3 timeout/id-reuse rounds, 200 pipe round trips', 'counted_as_proved': False}]
THOROUGH_SCENARIOS = [('', 'replay/scenarios/c18_transports.py', (1,), 400), ('', 'replay/scenarios/c18_transports.py', (7,), 400)]
