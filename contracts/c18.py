"""C18 — socket and pipe transports deliver intact and to the right request.

Framing: record = header(request_id, len(payload_bytes), encoder) ++ payload_bytes.  write_record/read_record are proved to
produce / consume exactly that shape (payload consumed BY LENGTH, so its content is irrelevant); the inverse lemma uses
trusted string facts (header has no newline before its end; split() of the header gives back its three fields when the id
has no whitespace; int(str(n)) == n) and pickle fidelity.  Server: per connection, responses are written in request order,
each under its request's id with that request's own outcome.  Client: a response resolves exactly the future registered
under its id."""
import ast
import z3

from pyvc import vals as V
from pyvc.vals import Val, SeqV, NONE, fresh, PyTuple
from pyvc.unit import Unit, LoopSpec, LemmaUnit
from pyvc.models import Rec, Fn, Nop, UFunc, QueueReader, QueueWriter, SharedMap, Event, Absent
from pyvc.core import St, Module, box, Unsupported, Obj, unbox_handle, ExcClass, as_int, Closure

F = 'socket.py'
FP = 'pipe.py'
hdr = z3.Function('header', Val, z3.IntSort(), Val, Val)              # f'{request_id} {n} {encoder}\n'.encode()
enc = z3.Function('encode', Val, Val, Val)                             # encode(data, encoder) -> bytes
dec = z3.Function('decode', Val, Val, Val)
blen = z3.Function('len_bytes', Val, z3.IntSort())
h_id = z3.Function('header_id', Val, Val)                              # fields of a parsed header (trusted string lemmas)
h_n = z3.Function('header_len', Val, z3.IntSort())
h_enc = z3.Function('header_encoder', Val, Val)
remote = z3.Function('RemoteException', Val, Val)

ASSUMPTIONS = (
    'asyncio StreamReader/Writer: an in-order, lossless byte stream; readuntil(b"\\n") returns up to and including the first newline; readexactly(n) returns the next n bytes; a cancelled readuntil consumes nothing',
    'string lemmas: the header f"{id} {n} {enc}\\n" contains no newline before its end and, for an id without whitespace, splits back into (str(id), str(n), enc); int(str(n)) == n',
    'pickle round trip preserves the payload; len(bytes) is its exact length',
    'client: the response to a request cannot be processed by _keep_receiving before _keep_sending resumes from `await write_record` (asyncio resumes the drain waiter no later than the final send; DESIGN 2.8)',
    'handlers are uninterpreted async functions of (path, data); request ids (id(fut)) are unique among requests in flight because `active`/the pending queue hold the futures',
)
NOT_DECIDED = ('the OS socket layer, partial reads (inside the trusted StreamReader contract)', 'SocketClient.__enter__/__exit__ connection management', 'named-pipe transport beyond the constructor wiring: object delivery is the trusted multiprocessing.Connection')


class WriteRecord(Unit):
    prop = 'C18'
    file = F
    qual = 'write_record'
    canaries = (('length of the object instead of the encoded bytes', 'len(data_bytes)', 'len(data)', 'length of the encoded payload'),
                ('payload written before the header', "    writer.write(f'{request_id} {len(data_bytes)} {encoder}\\n'.encode())\n    writer.write(data_bytes)", "    writer.write(data_bytes)\n    writer.write(f'{request_id} {len(data_bytes)} {encoder}\\n'.encode())", ''),
                ('raw data written instead of the encoded bytes', '    writer.write(data_bytes)', '    writer.write(data)', ''))

    def setup(self, ex):
        st = St()
        self.rid, self.data, self.encoder = z3.Const('request_id', Val), z3.Const('data', Val), z3.Const('encoder', Val)
        st.ghost['written'] = V.EMPTY
        st.ghost['drained'] = z3.BoolVal(False)

        def write(e, s, a, k, n):
            s = s.fork()
            s.ghost['written'] = z3.Concat(s.ghost['written'], z3.Unit(box(e, a[0])))
            return [('ok', s, NONE)]

        def drain(e, s, a, k, n):
            s = s.fork()
            s.ghost['drained'] = z3.BoolVal(True)
            return [('ok', s, NONE)]
        st.env.update(writer=Rec(ex, 'writer', methods={'write': Fn(write), 'drain': Fn(drain)}), request_id=self.rid, data=self.data, encoder=self.encoder)
        ex.globals['encode'] = Fn(lambda e, s, a, k, n: [('ok', s, BytesVal(e, enc(box(e, a[0]), box(e, a[1]))))], name='encode')
        return st

    def on_fstring(self, ex, st, node):
        parts = [v for v in node.values if isinstance(v, ast.FormattedValue)]
        consts = [v.value for v in node.values if isinstance(v, ast.Constant)]
        if len(parts) == 3 and consts == [' ', ' ', '\n']:
            def f(s, a):
                return ex.bind(ex.ev(parts[1].value, s), lambda s2, n: ex.bind(ex.ev(parts[2].value, s2), lambda s3, c: [('ok', s3, HeaderStr(ex, hdr(box(ex, a), as_int(ex, s3, n), box(ex, c))))]))
            return ex.bind(ex.ev(parts[0].value, st), f)
        return None

    def post(self, ex, outs):
        for k, s, p in outs:
            if k in ('normal', 'return'):
                payload = enc(self.data, self.encoder)
                ex.oblige(s, 'exit: exactly header(request_id, length of the encoded payload, encoder) followed by the encoded payload, then drained',
                          z3.And(s.ghost['written'] == V.seq_of([hdr(self.rid, blen(payload), self.encoder), payload]), s.ghost['drained']))
            else:
                ex.oblige(s, 'exit: no exception of its own', False)


class BytesVal(Obj):
    """a bytes value by its abstract term; len() is the byte length"""

    def __init__(self, ex, term):
        super().__init__(ex, 'bytes')
        self.term = term

    def val(self):
        return self.term

    def havoc(self, ex, st):
        pass

    def length(self, ex, st, node):
        return [('ok', st, blen(self.term))]


class HeaderStr(Obj):
    def __init__(self, ex, term):
        super().__init__(ex, 'header-str')
        self.term = term

    def val(self):
        return self.term

    def havoc(self, ex, st):
        pass

    def m_encode(self, ex, st, args, kwargs, node):
        return [('ok', st, BytesVal(ex, self.term))]


class ReadRecord(Unit):
    prop = 'C18'
    file = F
    qual = 'read_record'
    canaries = (('payload read up to a newline instead of by length', 'data = await reader.readexactly(int(num_bytes))', "data = await reader.readuntil(b'\\n')", 'by length'),
                ('poll timeout also applied to the payload read (framing goes out of sync)', 'data = await reader.readexactly(int(num_bytes))', 'data = await asyncio.wait_for(reader.readexactly(int(num_bytes)), timeout)', 'by length'),
                ('decoder fixed to pickle', 'return request_id, decode(data, encoder)', "return request_id, decode(data, 'pickle')", ''))

    def setup(self, ex):
        st = St()
        self.h, self.payload = z3.Const('next_header_line', Val), z3.Const('next_payload', Val)
        st.ghost['reads'] = ()

        def readuntil(e, s, a, k, n):
            s = s.fork()
            s.ghost['reads'] = s.ghost['reads'] + (('until',),)
            return [('ok', s, HeaderLine(e, self.h))]

        def readexactly(e, s, a, k, n):
            s = s.fork()
            s.ghost['reads'] = s.ghost['reads'] + (('exactly', as_int(e, s, a[0])),)
            return [('ok', s, BytesVal(e, self.payload))]
        st.env.update(reader=Rec(ex, 'reader', methods={'readuntil': Fn(readuntil), 'readexactly': Fn(readexactly)}), timeout=z3.Const('timeout', Val))

        def wait_for(e, s, a, k, n):
            # asyncio.wait_for(awaitable, timeout): the awaited value, or TimeoutError (nothing consumed: trusted)
            s2 = s.fork()
            s2.ghost['reads'] = s2.ghost['reads'][:-1] + (('timed-out', s2.ghost['reads'][-1]),) if s2.ghost['reads'] else ()
            return [('ok', s, a[0]), e.raise_new(s2, 'TimeoutError')]
        ex.globals['asyncio.wait_for'] = Fn(wait_for, trusted='asyncio.wait_for returns the awaited result or raises TimeoutError')
        ex.globals['decode'] = Fn(lambda e, s, a, k, n: [('ok', s, dec(box(e, a[0]), box(e, a[1])))], name='decode')
        ex.globals['int'] = Fn(lambda e, s, a, k, n: [('ok', s, a[0].n if isinstance(a[0], NumStr) else as_int(e, s, a[0]))])
        return st

    def post(self, ex, outs):
        for k, s, p in outs:
            reads = s.ghost['reads']
            if k in ('normal', 'return'):
                p = unbox_handle(ex, p)
                ok = isinstance(p, PyTuple) and len(p.items) == 2 and len(reads) == 2 and reads[0] == ('until',) and reads[1][0] == 'exactly'
                ex.oblige(s, 'exit: one header line, then the payload consumed by length exactly as the header says (no timeout on it), decoded with the header\'s encoder; returns (id field, decoded payload)',
                          z3.And(z3.BoolVal(bool(ok)), reads[1][1] == h_n(self.h), box(ex, p.items[0]) == h_id(self.h), box(ex, p.items[1]) == dec(self.payload, h_enc(self.h))) if ok else z3.BoolVal(False))
            else:
                ex.oblige(s, 'exit(raise): only the poll timeout, and only while waiting for a header (nothing consumed): the stream stays in sync',
                          z3.And(V.isinst(p, 'TimeoutError'), z3.BoolVal(len(reads) == 1 and reads[0] == ('timed-out', ('until',)))))


class HeaderLine(Obj):
    """the bytes of a header line: data[:-1].decode().split() -> its three fields (trusted string lemmas)"""

    def __init__(self, ex, term):
        super().__init__(ex, 'header-line')
        self.term = term

    def val(self):
        return self.term

    def havoc(self, ex, st):
        pass

    def slice_obj(self, ex, st, lo, hi, node):
        return [('ok', st, self)]

    def m_decode(self, ex, st, args, kwargs, node):
        return [('ok', st, self)]

    def m_split(self, ex, st, args, kwargs, node):
        return [('ok', st, PyTuple([h_id(self.term), NumStr(h_n(self.term)), h_enc(self.term)]))]


class NumStr:
    def __init__(self, n):
        self.n = n


class FramingLemma(LemmaUnit):
    prop = 'C18'
    qual = 'lemma(framing)'

    def lemmas(self):
        rid, data, encoder, payload, h = z3.Consts('request_id data encoder payload header_line', Val)
        n = z3.Int('n')
        strid = z3.Function('str', Val, Val)
        # trusted string lemmas (for an id without whitespace) + pickle fidelity
        trusted = [h_id(hdr(rid, n, encoder)) == strid(rid), h_n(hdr(rid, n, encoder)) == n, h_enc(hdr(rid, n, encoder)) == encoder, dec(enc(data, encoder), encoder) == data]
        yield ('read_record(write_record(id, data) ++ rest) == ((str(id), data), rest): the reader sees the writer\'s header first (byte stream in order), consumes exactly len(payload) bytes, and decodes them with the same encoder',
               trusted + [payload == enc(data, encoder), n == blen(payload), h == hdr(rid, n, encoder)],
               z3.And(h_id(h) == strid(rid), h_n(h) == blen(payload), dec(payload, h_enc(h)) == data))


# ================================================================ server side of one connection
class ServerReceiving(Unit):
    prop = 'C18'
    file = F
    qual = 'SocketServer._handle_connection.<locals>._keep_receiving'
    expected_exits = ('normal',)
    canaries = (('task queued under another request id', 't = asyncio.create_task(f)\n                await reqs.put((req_id, t))', 't = asyncio.create_task(f)\n                await reqs.put((0, t))', 'own id'),
                ('handler called with the whole record', 'f = self.app.handle_request(path, data)', 'f = self.app.handle_request(path, (path, data))', 'own payload'))

    def setup(self, ex):
        st = St()
        self.rid = z3.Function('rid_at', z3.IntSort(), Val)
        self.path = z3.Function('path_at', z3.IntSort(), Val)
        self.payload = z3.Function('payload_at', z3.IntSort(), Val)
        self.handle = z3.Function('handle_request', Val, Val, Val)       # coroutine of the routed handler applied to the data
        self.task = z3.Function('task_of', Val, Val)
        st.ghost['nrec'] = z3.IntVal(0)
        self.reqs = QueueWriter(ex, 'reqs')
        self.reqs.init(st)
        self.shutdown = z3.Const('shutdown_path', Val)
        self.me = Rec(ex, 'self')
        self.me.volatile['to_shutdown'] = lambda e, s: [('ok', s, fresh('to_shutdown', z3.BoolSort()))]     # shared with the other connections
        self.me.init(st, _shutdown_path=self.shutdown,
                     app=Rec(ex, 'app', immutable=True, methods={'handle_request': Fn(lambda e, s, a, k, n: [('ok', s, self.handle(box(e, a[0]), box(e, a[1])))])}))
        st.cells.update(self=self.me, reqs=self.reqs, reader=Rec(ex, 'reader'))

        def read_record(e, s, a, k, n):
            j = s.ghost['nrec']
            s1 = s.fork()
            s1.ghost['nrec'] = j + 1
            s1.ghost['cur'] = j
            rec = PyTuple([self.rid(j), PyTuple([self.path(j), self.payload(j)])])
            s2 = s.fork()
            s3 = s.fork()
            return [('ok', s1, rec), e.raise_new(s2, 'TimeoutError'), e.raise_new(s3, 'IncompleteReadError')]
        ex.globals['read_record'] = Fn(read_record, name='read_record (contract: unit read_record)')

        def create_task(e, s, a, k, n):
            return [('ok', s, self.task(box(e, a[0])))]
        ex.globals['asyncio.create_task'] = Fn(create_task)
        ex.globals['asyncio.TimeoutError'] = ExcClass('TimeoutError')
        st.ghost['cur'] = z3.IntVal(-1)
        loopobj = Rec(ex, 'loop', methods={'create_future': Fn(lambda e, s, a, k, n: [('ok', s, Rec(e, 'shutdown_fut', methods={'set_result': Nop()}))])})
        ex.globals['asyncio.get_running_loop'] = Fn(lambda e, s, a, k, n: [('ok', s, loopobj)])
        return st

    def on_put(self, ex, st, q, k, item, node):
        j = st.ghost['cur']
        item_u = unbox_handle(ex, item)
        ok = isinstance(item_u, PyTuple) and len(item_u.items) == 2
        t = unbox_handle(ex, item_u.items[1]) if ok else None
        if isinstance(t, Rec):
            ex.oblige(st, f'line {node.lineno}: the shutdown request is queued under its own id', box(ex, item_u.items[0]) == self.rid(j))
            return
        ex.oblige(st, f'line {node.lineno}: the k-th record of the connection is queued as the k-th (own id, task of the routed handler on its own payload): responses will be written in request order',
                  z3.And(z3.BoolVal(ok), k == j, box(ex, item_u.items[0]) == self.rid(j), box(ex, item_u.items[1]) == self.task(self.handle(self.path(j), self.payload(j)))) if ok else z3.BoolVal(False))

    @property
    def loops(self):
        return {0: LoopSpec(inv=lambda s, ex: self.reqs.nput(s) == s.ghost['nrec'], keep=('loop',), keep_ghost=())}

    def post(self, ex, outs):
        for k, s, p in outs:
            if k == 'raise':
                ex.oblige(s, 'exit(raise): only the connection being closed by the client (IncompleteReadError)', V.isinst(p, 'IncompleteReadError'))


class ServerResponding(Unit):
    prop = 'C18'
    file = F
    qual = 'SocketServer._handle_connection.<locals>._keep_responding'
    canaries = (('response written under the previous request id', '                await write_record(writer, req_id, z, encoder=self._encoder)', '                await write_record(writer, prev_id if prev_id is not None else req_id, z, encoder=self._encoder)\n                prev_id = req_id', ''),
                ('handler exception dropped (no response)', '                except Exception as e:\n                    z = RemoteException(e)', '                except Exception as e:\n                    continue', 'every request'),
                ('awaiting the handler inside the polling try (a handler TimeoutError is mistaken for the poll timeout)', '                try:\n                    z = await t\n                except Exception as e:\n                    z = RemoteException(e)',
                 '                try:\n                    z = await asyncio.wait_for(t, 0.1)\n                except Exception as e:\n                    z = RemoteException(e)', ''))

    def setup(self, ex):
        st = St()
        self.rid = z3.Function('rid_at', z3.IntSort(), Val)
        self.tk = z3.Function('task_at', z3.IntSort(), Val)
        from pyvc.models import fut_ok, fut_val, fut_exc
        self.reqs = QueueReader(ex, 'reqs')
        self.reqs.init(st)
        st.ghost['nwritten'] = z3.IntVal(0)
        self.encoder = z3.Const('encoder', Val)
        self.me = Rec(ex, 'self', immutable=True).init(st, to_shutdown=fresh('to_shutdown', z3.BoolSort()), _encoder=self.encoder)
        self.me.volatile['to_shutdown'] = lambda e, s: [('ok', s, fresh('to_shutdown', z3.BoolSort()))]
        self.writer = Rec(ex, 'writer')
        st.cells.update(self=self.me, reqs=self.reqs, writer=self.writer)

        def wait_for(e, s, a, k, n):
            return [('ok', s, a[0]), e.raise_new(s.fork(), 'TimeoutError')] if not isinstance(a[0], Pending) else a[0].resolve(e, s)
        ex.globals['asyncio.wait_for'] = Fn(wait_for)
        ex.globals['asyncio.TimeoutError'] = ExcClass('TimeoutError')
        ex.globals['RemoteException'] = Fn(lambda e, s, a, k, n: [('ok', s, remote(box(e, a[0])))])

        def write_record(e, s, a, k, n):
            j = s.ghost['cur']
            t = self.tk(j)
            want = z3.If(fut_ok(t), fut_val(t), remote(fut_exc(t)))
            e.oblige(s, f'line {n.lineno}: the response to the j-th queued request is written j-th, on this connection\'s writer, under that request\'s id, carrying its own outcome (the handler\'s result, or its exception wrapped in RemoteException), with the configured encoder',
                     z3.And(z3.BoolVal(unbox_handle(e, a[0]) is self.writer), box(e, a[1]) == self.rid(j), box(e, a[2]) == want, box(e, k.get('encoder')) == self.encoder, s.ghost['nwritten'] == j))
            s = s.fork()
            s.ghost['nwritten'] = s.ghost['nwritten'] + 1
            return [('ok', s, NONE)]
        ex.globals['write_record'] = Fn(write_record, name='write_record (contract: unit write_record)')
        st.ghost['cur'] = z3.IntVal(-1)
        from pyvc.models import FutureSym
        ex.sym_models['t'] = FutureSym('Exception')
        return st

    def on_call(self, ex, st, e, src):
        if src == 'reqs.get':
            return [('ok', st, Pending(self))]
        return None

    def on_await(self, ex, st, v, node):
        if isinstance(node.value, ast.Name) and node.value.id == 't':
            return ex.sym_models['t'].outcome(ex, st, v, node)
        return [('ok', st, v)]

    def on_get(self, ex, st, q, k, z, node):
        s = st.fork().assume(z == V.tup(V.seq_of([self.rid(k), self.tk(k)])))
        s.ghost['cur'] = k
        return [s]

    @property
    def loops(self):
        return {0: LoopSpec(inv=lambda s, ex: s.ghost['nwritten'] == self.reqs.nget(s))}

    def post(self, ex, outs):
        for k, s, p in outs:
            if k == 'raise':
                ex.oblige(s, 'exit: the responder does not die with an exception (every request gets a response, even when its handler raises -- any Exception, TimeoutError included)', z3.Not(V.isinst(p, 'Exception')))
            else:
                ex.oblige(s, 'exit: every request taken from the queue was answered', s.ghost['nwritten'] == self.reqs.nget(s))


class Pending:
    """the awaitable reqs.get(): resolved by asyncio.wait_for"""

    def __init__(self, unit):
        self.u = unit

    def resolve(self, ex, st):
        outs = self.u.reqs.m_get(ex, st, [], {}, ast.parse('x').body[0])
        outs.append(ex.raise_new(st.fork(), 'TimeoutError'))
        return outs


# ================================================================ client side
class ClientReceiving(Unit):
    prop = 'C18'
    file = F
    qual = 'SocketClient._open_connections.<locals>._keep_receiving'
    canaries = (('response delivered to the future registered under another id', 'fut = active.pop(req_id)', 'fut = active.pop(req_id + 1)', ''),
                ('a remote exception delivered as a result', 'fut.set_exception(data)', 'fut.set_result(data)', 'as exception'))

    def setup(self, ex):
        st = St()
        self.active = SharedMap(ex, 'active').init(st, z3.Const('active0', z3.ArraySort(Val, Val)), z3.Int('n0'))
        self.rid, self.data = z3.Int('response_id'), z3.Const('response_data', Val)
        self.fut = Rec(ex, 'fut', methods={'set_result': Fn(self.resolve(False)), 'set_exception': Fn(self.resolve(True))})
        st.assume(z3.Select(self.active.arr(st), V.intv(self.rid)) == self.fut.val(), self.fut.val() != Absent, *V.cls_facts(self.data))
        self.stop = Event(ex, 'to_shutdown')
        self.stop.init(st)
        st.cells['self'] = Rec(ex, 'self', immutable=True).init(st, _active_requests=self.active, _to_shutdown=self.stop)
        st.env['reader'] = Rec(ex, 'reader')
        st.ghost['resolved'] = ()
        st.ghost['nrec'] = z3.IntVal(0)

        def read_record(e, s, a, k, n):
            s1 = s.fork()
            s1.ghost['nrec'] = s1.ghost['nrec'] + 1
            return [('ok', s1, PyTuple([IdStr(self.rid), self.data])), e.raise_new(s.fork(), 'TimeoutError'), e.raise_new(s.fork(), 'IncompleteReadError')]
        ex.globals['read_record'] = Fn(read_record)
        ex.globals['int'] = Fn(lambda e, s, a, k, n: [('ok', s, a[0].n if isinstance(a[0], IdStr) else as_int(e, s, a[0]))], trusted='int(str(n)) == n')
        ex.globals['asyncio.TimeoutError'] = ExcClass('TimeoutError')
        ex.sym_models['fut'] = FutModel(self)
        return st

    def resolve(self, is_exc):
        def f(e, s, a, k, n):
            s = s.fork()
            s.ghost['resolved'] = s.ghost['resolved'] + ((is_exc, box(e, a[0])),)
            return [('ok', s, NONE)]
        return f

    def interfere(self, ex, st, m, node):
        pass

    def after_map_write(self, ex, st, m, kind, k, v, node):
        ex.oblige(st, f'line {node.lineno}: exactly the entry of the response\'s id is removed', z3.And(z3.BoolVal(kind == 'pop'), k == V.intv(self.rid)))

    @property
    def loops(self):
        def back(s, ex):
            r = s.ghost['resolved']
            ex.oblige(s, 'iteration: a response resolves exactly one future -- the one registered under its id -- with its own data (as exception if it is one); no response, nothing resolved',
                      z3.And(z3.BoolVal(len(r) <= 1), s.ghost['nrec'] == s.ghost['#nrec_head'] + len(r),
                             z3.And(r[0][1] == self.data, z3.BoolVal(r[0][0]) == V.isinst(self.data, 'BaseException')) if len(r) == 1 else z3.BoolVal(True)))
        sp = LoopSpec(inv=lambda s, ex: z3.BoolVal(True))

        def head(h, ex):
            h.ghost['resolved'] = ()
            h.ghost['#nrec_head'] = h.ghost['nrec']
            h.assume(z3.Select(self.active.arr(h), V.intv(self.rid)) == self.fut.val(), self.fut.val() != Absent)
        sp.at_head = head
        sp.on_backedge = lambda s, ex: back(s, ex)
        return {0: sp}

    def on_call(self, ex, st, e, src):
        return None

    def post(self, ex, outs):
        for k, s, p in outs:
            if k == 'raise':
                ex.oblige(s, 'exit(raise): only the connection being closed by the server (IncompleteReadError)', V.isinst(p, 'IncompleteReadError'))


class FutModel:
    """the value popped from the in-flight table: must be the future registered under the response's id"""

    def __init__(self, unit):
        self.u = unit

    def getattr(self, ex, st, base, attr, node):
        from pyvc.core import BoundMethod
        ex.oblige(st, f'line {node.lineno}: the future resolved is the one registered under the response\'s id', base == self.u.fut.val())
        return [('ok', st, BoundMethod(self.u.fut, attr))]


class IdStr:
    def __init__(self, n):
        self.n = n


class ClientSending(Unit):
    prop = 'C18'
    file = F
    qual = 'SocketClient._open_connections.<locals>._keep_sending'
    ignore_calls = ('asyncio.sleep',)
    canaries = (('request registered under the id of its payload', '                req_id = id(fut)', '                req_id = id(x)', 'own future'),
                ('future registered under another key', '                active[req_id] = fut', '                active[0] = fut', 'own future'))

    def setup(self, ex):
        st = St()
        self.x, self.fut = z3.Const('x', Val), z3.Const('fut', Val)
        self.active = SharedMap(ex, 'active').init(st)
        self.stop = Event(ex, 'to_shutdown')
        self.stop.init(st)
        self.encoder = z3.Const('encoder', Val)
        st.ghost['sent'] = ()

        def get_nowait(e, s, a, k, n):
            return [('ok', s, PyTuple([self.x, self.fut])), e.raise_new(s.fork(), 'queue.Empty')]
        st.cells['self'] = Rec(ex, 'self', immutable=True).init(st, _pending_requests=Rec(ex, 'pending', methods={'get_nowait': Fn(get_nowait)}), _active_requests=self.active,
                                                               _encoder=self.encoder, _to_shutdown=self.stop)
        self.writer = Rec(ex, 'writer')
        st.env['writer'] = self.writer

        def write_record(e, s, a, k, n):
            s = s.fork()
            s.ghost['sent'] = s.ghost['sent'] + ((unbox_handle(e, a[0]), box(e, a[1]), box(e, a[2]), box(e, k.get('encoder'))),)
            return [('ok', s, NONE)]
        ex.globals['write_record'] = Fn(write_record)
        self.idf = z3.Function('py_id', Val, z3.IntSort())
        return st

    def interfere(self, ex, st, m, node):
        pass

    def after_map_write(self, ex, st, m, kind, k, v, node):
        sent = st.ghost['sent']
        ok = len(sent) == 1
        ex.oblige(st, 'the request is sent under id(its own future) with its own payload, and exactly that future is registered under that id',
                  z3.And(z3.BoolVal(kind == 'set' and ok), k == V.intv(self.idf(self.fut)), v == self.fut, sent[0][1] == V.intv(self.idf(self.fut)), sent[0][2] == self.x,
                         sent[0][3] == self.encoder, z3.BoolVal(sent[0][0] is self.writer)) if ok else z3.BoolVal(False))
        st.ghost['registered'] = True

    @property
    def loops(self):
        sp = LoopSpec(inv=lambda s, ex: z3.BoolVal(True))

        def head(h, ex):
            h.ghost['sent'] = ()
            h.ghost['registered'] = False
        sp.at_head = head
        sp.on_backedge = lambda s, ex: ex.oblige(s, 'iteration: every request taken from the pending queue is sent once and registered', z3.BoolVal(len(s.ghost['sent']) == (1 if s.ghost.get('registered') else 0)))
        return {0: sp}

    def post(self, ex, outs):
        for k, s, p in outs:
            if k == 'raise':
                ex.oblige(s, 'exit: the sender does not die with an exception of its own', False)


class PendingQ(QueueWriter):
    """self._pending_requests: None (falsy) before the client is started, the queue afterwards"""

    def truth(self, ex, st):
        return z3.Bool('client_started')


class ClientEnqueue(Unit):
    """SocketClient._enqueue: one new future per request, queued together with its own (path, payload); the in-flight table is not touched."""
    prop = 'C18'
    file = F
    qual = 'SocketClient._enqueue'
    canaries = (('payload queued without its path', 'self._pending_requests.put(((path, data), fut), timeout=timeout)', 'self._pending_requests.put((data, fut), timeout=timeout)', 'own'),)

    def setup(self, ex):
        st = St()
        self.path, self.data = z3.Const('path', Val), z3.Const('data', Val)
        self.active = SharedMap(ex, 'active').init(st)
        self.pending = PendingQ(ex, 'pending')
        self.pending.init(st)
        st.ghost['futs'] = ()
        ev1, ev2 = Event(ex, 'prepare_shutdown'), Event(ex, 'to_shutdown')
        ev1.init(st)
        ev2.init(st)
        st.env.update(self=Rec(ex, 'self', immutable=True).init(st, _pending_requests=self.pending, _active_requests=self.active, _prepare_shutdown=ev1, _to_shutdown=ev2),
                      path=self.path, data=self.data, timeout=z3.Const('timeout', Val))

        def new_future(e, s, a, k, n):
            f = Rec(e, f'future{len(s.ghost["futs"])}')
            s = s.fork()
            s.ghost['futs'] = s.ghost['futs'] + (f,)
            return [('ok', s, f)]
        ex.globals['concurrent.futures.Future'] = Fn(new_future)
        return st

    def interfere(self, ex, st, m, node):
        pass

    def on_put(self, ex, st, q, k, item, node):
        item = unbox_handle(ex, item)
        futs = st.ghost['futs']
        ok = isinstance(item, PyTuple) and len(item.items) == 2 and len(futs) == 1 and unbox_handle(ex, item.items[1]) is futs[0]
        ex.oblige(st, f'line {node.lineno}: the request is queued as ((its own path, its own payload), its own new future)',
                  z3.And(z3.BoolVal(True), box(ex, item.items[0]) == V.tup(V.seq_of([self.path, self.data]))) if ok else z3.BoolVal(False))

    def post(self, ex, outs):
        for k, s, p in outs:
            ex.oblige(s, 'exit: the in-flight table is not touched (only the sender adds, only the receiver removes: ids of requests in flight stay unique)', s.ghost.get('writes', z3.IntVal(0)) == 0)
            if k in ('normal', 'return'):
                futs = s.ghost['futs']
                ex.oblige(s, 'exit: returns the future that was queued with the request, queued exactly once', z3.And(z3.BoolVal(len(futs) == 1 and unbox_handle(ex, p) is futs[0]), self.pending.nput(s) == 1))
            else:
                ex.oblige(s, 'exit(raise): nothing was queued', self.pending.nput(s) == 0)


class ClientRequest(Unit):
    """SocketClient.request: the outcome is the outcome of the future of its own _enqueue call; the in-flight table is not touched
    (in particular not on a response timeout: the entry keeps the future alive -- and its id unique -- until the response arrives)."""
    prop = 'C18'
    file = F
    qual = 'SocketClient.request'
    numeric_vals_are_ints = True        # response_timeout: None or a number (modelled as an integer; only its sign is tested)
    assumed_contracts = ('self._enqueue: unit C18:SocketClient._enqueue',)
    canaries = (('timed-out request dropped from the in-flight table', '        return fut.result(timeout=response_timeout)',
                 '        try:\n            return fut.result(timeout=response_timeout)\n        except TimeoutError:\n            self._active_requests.pop(id(fut), None)\n            raise', 'not touched'),
                ('result of the wrong call returned', 'fut = self._enqueue(path, data, timeout=enqueue_timeout)', 'fut = self._enqueue(path, None, timeout=enqueue_timeout)', 'own'))

    def setup(self, ex):
        from pyvc.models import fut_ok, fut_val, fut_exc
        st = St()
        self.path, self.data = z3.Const('path', Val), z3.Const('data', Val)
        self.active = SharedMap(ex, 'active').init(st, z3.Const('active0', z3.ArraySort(Val, Val)), z3.Int('n0'))
        self.futof = z3.Function('future_of_request', Val, Val, Val)
        st.ghost['enq'] = ()

        def enqueue(e, s, a, k, n):
            s = s.fork()
            s.ghost['enq'] = s.ghost['enq'] + ((box(e, a[0]), box(e, a[1])),)
            return [('ok', s, self.futof(box(e, a[0]), box(e, a[1]))), e.raise_new(s.fork(), 'Exception')]
        st.env.update(self=Rec(ex, 'self', immutable=True, methods={'_enqueue': Fn(enqueue)}).init(st, _active_requests=self.active),
                      path=self.path, data=self.data, enqueue_timeout=z3.Const('enqueue_timeout', Val), response_timeout=z3.Const('response_timeout', Val))
        ex.sym_models['fut'] = ResultModel()
        rt = st.env['response_timeout']
        st.assume(z3.Or(rt == NONE, V.is_intv(rt)))         # precondition: a number or None
        return st

    def interfere(self, ex, st, m, node):
        pass

    def post(self, ex, outs):
        from pyvc.models import fut_ok, fut_val, fut_exc
        f = self.futof(self.path, self.data)
        for k, s, p in outs:
            ex.oblige(s, 'exit: the in-flight table is not touched (a timed-out request stays registered until its response arrives, so its id cannot be reused)', s.ghost.get('writes', z3.IntVal(0)) == 0)
            enq = s.ghost['enq']
            if k in ('normal', 'return'):
                ex.oblige(s, 'exit: enqueued exactly its own (path, payload); returns the result of its own future (or None when no response is wanted)',
                          z3.And(z3.BoolVal(len(enq) == 1), enq[0][0] == self.path, enq[0][1] == self.data, z3.Or(box(ex, p) == NONE, z3.And(fut_ok(f), box(ex, p) == fut_val(f)))) if len(enq) == 1 else z3.BoolVal(False))
            else:
                ex.oblige(s, 'exit(raise): the enqueue failure, its own future\'s exception, or the response timeout', z3.BoolVal(len(enq) <= 1))


class ResultModel:
    def getattr(self, ex, st, base, attr, node):
        from pyvc.core import SymMethod
        return [('ok', st, SymMethod(self, base, attr))]

    def call(self, ex, st, recv, name, args, kwargs, node):
        from pyvc.models import fut_ok, fut_val, fut_exc
        if name != 'result':
            raise Unsupported(f'future.{name}()')
        s1 = st.fork().assume(fut_ok(recv))
        e = fut_exc(recv)
        s2 = st.fork().assume(z3.Not(fut_ok(recv)), V.isinst(e, 'BaseException'), *V.cls_facts(e))
        return [('ok', s1, fut_val(recv)), ('raise', s2, e), ex.raise_new(st.fork(), 'TimeoutError')]


class PipeInit(Unit):
    prop = 'C18'
    file = FP
    qual = 'Server.__init__'
    suffixes = ('.1', '.2')
    canaries = (('server reads and writes the same FIFO', "super().__init__(path + '.1', path + '.2')", "super().__init__(path + '.1', path + '.1')", 'the reverse'),)

    def setup(self, ex):
        st = St()
        self.path = z3.String('path')
        st.env.update(self=Rec(ex, 'self'), path=self.path)
        st.ghost['init'] = ()
        return st

    def on_call(self, ex, st, e, src):
        if src == 'super().__init__':
            def f(s, ak):
                s = s.fork()
                s.ghost['init'] = s.ghost['init'] + (tuple(ak[0]),)
                return [('ok', s, NONE)]
            return ex.bind(ex.evargs(e, st), f)
        return None

    def post(self, ex, outs):
        for k, s, p in outs:
            if k in ('normal', 'return'):
                i = s.ghost['init']
                ok = len(i) == 1 and len(i[0]) == 2
                ex.oblige(s, f'exit: reads path{self.suffixes[0]} and writes path{self.suffixes[1]} (the client does the reverse)',
                          z3.And(i[0][0] == z3.Concat(self.path, z3.StringVal(self.suffixes[0])), i[0][1] == z3.Concat(self.path, z3.StringVal(self.suffixes[1]))) if ok else z3.BoolVal(False))


class PipeClientInit(PipeInit):
    qual = 'Client.__init__'
    suffixes = ('.2', '.1')
    canaries = ()


UNITS = [WriteRecord, ReadRecord, FramingLemma, ServerReceiving, ServerResponding, ClientReceiving, ClientSending, ClientEnqueue, ClientRequest, PipeInit, PipeClientInit]
SCENARIOS = [('', 'replay/scenarios/c18_transports.py')]
BOUNDED = [{'function': 'OS byte stream, asyncio task scheduling, multiprocessing.Connection over FIFOs', 'method': 'runtime scenario replay/scenarios/c18_transports.py', 'bound': '19 payload shapes up to 3 MiB, 120 concurrent requesters on 2 connections, 40 x 200 KB back-to-back, 3 timeout/id-reuse rounds, 200 pipe round trips', 'counted_as_proved': False}]
THOROUGH_SCENARIOS = [('', 'replay/scenarios/c18_transports.py', (1,), 400), ('', 'replay/scenarios/c18_transports.py', (7,), 400)]
