"""C15 — exceptions keep type, args and traceback text across processes.

Exceptions are records (class, args, __traceback__, __cause__); a RemoteTraceback carries a text.  Trusted: pickle keeps
class and args of a picklable exception and drops __traceback__ and __cause__; traceback.format_exception(type, e, tb)
follows __cause__, so its output contains str(e.__cause__) when the cause is a RemoteTraceback."""
import ast
import z3

from pyvc import vals as V
from pyvc.vals import Val, SeqV, NONE, fresh
from pyvc.unit import Unit, LoopSpec, LemmaUnit
from pyvc.models import Rec, Fn, Nop
from pyvc.core import St, Module, box, Unsupported, ExcClass, TypeName, etb, ecause, eargs, Callable_, unbox_handle, PyTuple, Obj

F = 'multiprocessing/remote_exception.py'
rt_text = z3.Function('RemoteTraceback_tb', Val, z3.StringSort())            # .tb of a RemoteTraceback object
fmt = z3.Function('format_exception', Val, Val, z3.StringSort())             # ''.join(traceback.format_exception(type(e), e, tb)) given (e, its cause)
PREFIX = z3.Function('proc_prefix', z3.IntSort(), z3.StringSort())

ASSUMPTIONS = (
    'pickle round trip of a picklable exception preserves its class and args and drops __traceback__/__cause__/__context__ (user __reduce__ assumed faithful)',
    'traceback.format_exception(type(e), e, tb) contains str(e.__cause__) (the chained "direct cause" block); str(RemoteTraceback(t)) == t (unit RemoteTraceback.__str__)',
    'exception classes are BaseException subclasses with static attribute lookup',
)
NOT_DECIDED = ('the textual layout of formatted tracebacks', 'the text of the EnsembleError message (display only; the statements computing it are dropped from the unit, listed in the evidence)',
               'that the members of an unpickled EnsembleError carry a remote cause (so that re-wrapping them cannot raise): follows from C15 for each member, assumed in the EnsembleError variant')
BOUNDED = [{'function': 'composition of the EnsembleError units over several hops (members inside a dict inside exc.args)', 'method': 'runtime scenario replay/scenarios/c15_hops.py',
            'bound': 'hops 1..4 x 8 exception classes x {forwarded, re-raised} x EnsembleError nesting', 'counted_as_proved': False}]


def is_remote(cause_of_e):
    return V.isinst(cause_of_e, 'RemoteTraceback')


class CauseTb:
    """sym model for `e.__cause__` values: `.tb` is the RemoteTraceback text"""

    def getattr(self, ex, st, base, attr, node):
        if attr == 'tb':
            return [('ok', st, rt_text(base))]
        raise Unsupported(f'cause.{attr}')


class IsRemoteUnit(Unit):
    prop = 'C15'
    file = F
    qual = 'is_remote_exception'
    canaries = (('only Exception subclasses recognised', 'isinstance(e, BaseException)', 'isinstance(e, Exception)', 'iff'),
                ('cause type not checked', 'isinstance(e.__cause__, RemoteTraceback)', 'e.__cause__ is not None', 'iff'))

    def setup(self, ex):
        st = St()
        self.e = z3.Const('e', Val)
        st.env['e'] = self.e
        st.assume(*V.cls_facts(self.e), *V.cls_facts(ecause(self.e)))
        return st

    def post(self, ex, outs):
        for k, s, p in outs:
            if k in ('normal', 'return'):
                ex.oblige(s, 'exit: True iff e is an exception whose __cause__ is a RemoteTraceback',
                          ex.truth(s, p) == z3.And(V.isinst(self.e, 'BaseException'), is_remote(ecause(self.e))))
            else:
                ex.oblige(s, 'exit: never raises', False)


class GetTbUnit(Unit):
    prop = 'C15'
    file = F
    qual = 'get_remote_traceback'
    canaries = (('returns str(e) instead', 'return e.__cause__.tb', 'return str(e)', ''),)

    def setup(self, ex):
        st = St()
        self.e = z3.Const('e', Val)
        st.env['e'] = self.e
        ex.sym_models['e.__cause__'] = CauseTb()
        ex.globals['str'] = Fn(lambda e, s, a, k, n: [('ok', s, fresh('str', z3.StringSort()))])
        return st

    def post(self, ex, outs):
        for k, s, p in outs:
            if k in ('normal', 'return'):
                ex.oblige(s, 'exit: returns the text carried by the RemoteTraceback cause', p == rt_text(ecause(self.e)))
            else:
                ex.oblige(s, 'exit: never raises', False)


class RtInit(Unit):
    prop = 'C15'
    file = F
    qual = 'RemoteTraceback.__init__'

    def setup(self, ex):
        st = St()
        self.me = Rec(ex, 'self')
        self.tb = z3.String('tb')
        st.env.update(self=self.me, tb=self.tb)
        return st

    def post(self, ex, outs):
        for k, s, p in outs:
            if k in ('normal', 'return'):
                ex.oblige(s, 'exit: stores the text', self.me.get(s, 'tb') == self.tb)


class RtStr(Unit):
    prop = 'C15'
    file = F
    qual = 'RemoteTraceback.__str__'

    def setup(self, ex):
        st = St()
        self.tb = z3.String('tb')
        st.env['self'] = Rec(ex, 'self', immutable=True).init(st, tb=self.tb)
        return st

    def post(self, ex, outs):
        for k, s, p in outs:
            if k in ('normal', 'return'):
                ex.oblige(s, 'exit: str(RemoteTraceback(t)) == t', p == self.tb)


def rt_ctor():
    """RemoteTraceback(tb): a fresh exception object of that class carrying the text (units RemoteTraceback.__init__/__str__)"""
    def f(ex, st, args, kwargs, node):
        v = fresh('remote_tb')
        st = st.fork().assume(V.ucls(v) == V.K['RemoteTraceback'], *V.cls_facts(v), rt_text(v) == args[0])
        return [('ok', st, v)]
    return Fn(f, name='RemoteTraceback')


class RebuildUnit(Unit):
    prop = 'C15'
    file = F
    qual = '_rebuild_exception'
    canaries = (('text attached as __context__', 'exc.__cause__ = RemoteTraceback(tb)', 'exc.__context__ = RemoteTraceback(tb)', ''),
                ('another exception returned', '    return exc', '    return RemoteTraceback(tb)', 'same exception object'))

    def setup(self, ex):
        st = St()
        self.exc, self.tb = z3.Const('exc', Val), z3.String('tb')
        st.env.update(exc=self.exc, tb=self.tb)
        st.ghost['#cause'] = z3.Const('cause0', z3.ArraySort(Val, Val))
        ex.globals['RemoteTraceback'] = rt_ctor()
        return st

    def post(self, ex, outs):
        for k, s, p in outs:
            if k in ('normal', 'return'):
                c = z3.Select(s.ghost['#cause'], self.exc)
                ex.oblige(s, 'exit: returns the same exception object, whose __cause__ is now a RemoteTraceback carrying exactly the given text',
                          z3.And(box(ex, p) == self.exc, is_remote(c), rt_text(c) == self.tb))
            else:
                ex.oblige(s, 'exit: never raises', False)


class ReInit(Unit):
    """RemoteException.__init__(exc) with tb=None (the library's own use) for non-EnsembleError exceptions."""
    prop = 'C15'
    file = F
    qual = 'RemoteException.__init__'
    unreachable_ok = ('z = exc.args[1]', 'for i in range(len(z)):', 'if isinstance(tb, str):', 'pass', 'tb = \'\'.join(traceback.format_exception(type(exc), exc, tb))',
                      "tb = f'[{multiprocessing.current_process().name}] ' + tb\n", 'raise ValueError(f\'expecting no traceback')
    expected_exits = ('normal', 'raise')
    canaries = (
        ('fresh traceback preferred even when the exception was only forwarded', 'if exc.__traceback__ is not None:', 'if True:', ''),
        ('remote text dropped when forwarding', 'tb = get_remote_traceback(exc)', "tb = ''", 'identical'),
        ('wraps another object', '        self.exc = exc', '        self.exc = tb', 'very exception object'),
        ('prefix replaces the text', "                tb = f'[{multiprocessing.current_process().name}] ' + tb\n\n            else:", "                tb = f'[{multiprocessing.current_process().name}] '\n\n            else:", 'contains'),
    )

    def setup(self, ex):
        st = St()
        self.me = Rec(ex, 'self')
        self.exc = z3.Const('exc', Val)
        st.assume(V.isinst(self.exc, 'BaseException'), z3.Not(V.isinst(self.exc, 'EnsembleError')), *V.cls_facts(self.exc), *V.cls_facts(ecause(self.exc)),
                  *V.cls_facts(etb(self.exc)))
        st.assume(z3.Or(V.is_none(etb(self.exc)), V.isinst(etb(self.exc), 'TracebackType')))
        st.env.update(self=self.me, exc=self.exc, tb=NONE)
        ex.globals['TracebackType'] = TypeName('TracebackType')
        ex.globals['traceback.format_exception'] = Fn(lambda e, s, a, k, n: [('ok', s, FmtList(box(e, a[1])))],
                                                     trusted='traceback.format_exception follows __cause__: its text contains str(e.__cause__)')
        ex.globals['is_remote_exception'] = Fn(lambda e, s, a, k, n: [('ok', s, z3.And(V.isinst(box(e, a[0]), 'BaseException'), is_remote(ecause(box(e, a[0])))))], name='is_remote_exception')
        ex.globals['get_remote_traceback'] = Fn(lambda e, s, a, k, n: [('ok', s, rt_text(ecause(box(e, a[0]))))], name='get_remote_traceback')
        ex.globals['EnsembleError'] = ExcClass('EnsembleError')
        ex.globals['type'] = Fn(lambda e, s, a, k, n: [('ok', s, fresh('cls'))])
        return st

    def on_call(self, ex, st, e, src):
        if src == "''.join":
            def f(s, v):
                if isinstance(v, FmtList):
                    t = fmt(v.exc, ecause(v.exc))
                    s = s.fork().assume(z3.Implies(is_remote(ecause(v.exc)), z3.Contains(t, rt_text(ecause(v.exc)))))
                    return [('ok', s, t)]
                raise Unsupported('join')
            return ex.bind(ex.ev(e.args[0], st), f)
        return None

    def post(self, ex, outs):
        c = ecause(self.exc)
        has_tb = z3.Not(V.is_none(etb(self.exc)))
        for k, s, p in outs:
            if k in ('normal', 'return'):
                tb = self.me.get(s, 'tb')
                ex.oblige(s, 'exit: wraps the very exception object', box(ex, self.me.get(s, 'exc')) == self.exc)
                ex.oblige(s, 'exit: an exception carrying a traceback gets its freshly formatted text, which contains the remote text if it came from another process',
                          z3.Implies(has_tb, z3.And(z3.Contains(tb, fmt(self.exc, c)), z3.Implies(is_remote(c), z3.Contains(tb, rt_text(c))))))
                ex.oblige(s, 'exit: an exception that is only forwarded (no traceback, remote cause) keeps the identical text',
                          z3.Implies(z3.Not(has_tb), z3.And(is_remote(c), tb == rt_text(c))))
            else:
                ex.oblige(s, 'exit(raise): ValueError exactly when the exception has neither a traceback nor a remote cause',
                          z3.And(V.isinst(p, 'ValueError'), z3.Not(has_tb), z3.Not(is_remote(c))))



class MemberList(Obj):
    """exc.args[1]['y'] of an EnsembleError: a mutable list (array + fixed length), mutated in place by RemoteException.__init__"""

    def __init__(self, ex):
        super().__init__(ex, 'members')
        self.n = z3.Int('n_members')

    def init(self, st):
        self.set(st, 'arr', z3.Const('members0', z3.ArraySort(z3.IntSort(), Val)))
        return self

    def length(self, ex, st, node):
        return [('ok', st, self.n)]

    def enumerate(self, ex, st, node):
        return [('ok', st, MemberEnum(ex, self))]

    def getitem(self, ex, st, idx, node):
        from pyvc.core import as_int
        i = as_int(ex, st, idx)
        ex.oblige(st, f'line {node.lineno}: member index in range', z3.And(i >= 0, i < self.n))
        return [('ok', st, z3.Select(self.get(st, 'arr'), i))]

    def setitem(self, ex, st, idx, v, node):
        from pyvc.core import as_int
        i = as_int(ex, st, idx)
        ex.oblige(st, f'line {node.lineno}: member index in range', z3.And(i >= 0, i < self.n))
        st = st.fork()
        self.set(st, 'arr', z3.Store(self.get(st, 'arr'), i, box(ex, v)))
        return [('ok', st, None)]


class MemberEnum(Obj):
    """enumerate(members): yields (i, members[i]) -- the element as it is when the iterator reaches it"""

    def __init__(self, ex, members):
        super().__init__(ex, 'enumerate(members)')
        self.m = members
        self.key = f'#r{V.fresh_id()}'

    def havoc(self, ex, st):
        pass

    def iter_start(self, ex, st, node):
        st = st.fork()
        st.ghost[self.key] = z3.IntVal(0)
        return [('ok', st, self)]

    def havoc_index(self, st):
        i = fresh('eidx', z3.IntSort())
        st.ghost[self.key] = i
        st.assume(i >= 0, i <= self.m.n)

    def idx(self, st):
        return st.ghost[self.key]

    def pull(self, ex, st, node):
        i = st.ghost[self.key]
        s1 = st.fork().assume(i >= self.m.n)
        s2 = st.fork().assume(i < self.m.n)
        s2.ghost[self.key] = i + 1
        return [x for x in (('stop', s1, None), ('item', s2, PyTuple([i, z3.Select(self.m.get(s2, 'arr'), i)]))) if ex.feasible(x[1])]


remote_of = z3.Function('RemoteException', Val, Val)


class ReInitEnsemble(ReInit):
    """RemoteException.__init__(exc) for an EnsembleError: besides the common part, every member that is a bare exception (it came back from
    another process, where the RemoteException around it dissolved) is wrapped again -- in place, member by member, nothing else touched."""
    variant = 'EnsembleError'
    unreachable_ok = ('if isinstance(tb, str):', 'pass', 'tb = \'\'.join(traceback.format_exception(type(exc), exc, tb))', "tb = f'[{multiprocessing.current_process().name}] ' + tb\n", 'raise ValueError(f\'expecting no traceback')
    canaries = (('members re-wrapped only up to the first one', '            for i in range(len(z)):', '            for i in range(min(1, len(z))):', ''),
                ('already wrapped members wrapped again', 'if isinstance(z[i], BaseException):', 'if True:', ''),
                ('wrapped member stored in the wrong slot', 'z[i] = self.__class__(z[i])', 'z[0] = self.__class__(z[i])', ''))

    def setup(self, ex):
        st = super().setup(ex)
        # the same exception, but an EnsembleError this time
        st.pc = [c for c in st.pc if 'EnsembleError' not in str(c)]
        st.assume(V.isinst(self.exc, 'EnsembleError'), V.is_tup(eargs(self.exc)), z3.Length(V.items(eargs(self.exc))) == 2)       # EnsembleError.args == (message, results)
        self.members = MemberList(ex).init(st)
        st.assume(self.members.n >= 0)
        self.arr0 = self.members.get(st, 'arr')
        unit = self

        class ArgsModel:
            def getitem(self_, e, s, base, idx, node):
                if z3.is_string_value(idx) and idx.as_string() == 'y':
                    return [('ok', s, unit.members)]
                raise Unsupported('results key')
        ex.sym_models['exc.args[1]'] = ArgsModel()

        def ctor(e, s, a, k, n):
            # the recursive call, against this very contract: wraps its argument (members of an EnsembleError that are bare exceptions came out of
            # a RemoteException in another process: they carry a remote cause, so the constructor does not raise -- assumption, stated)
            return [('ok', s, remote_of(box(e, a[0])))]
        self.me.set(st, '__class__', Fn(ctor))
        self.J = z3.Int('any_member')
        return st

    def want(self, j):
        old = z3.Select(self.arr0, j)
        return z3.If(z3.And(V.isinst(old, 'BaseException'), z3.Not(V.isinst(old, 'RemoteException'))), remote_of(old), old)

    @property
    def loops(self):
        def inv(s, ex):
            i = [o for o in [s.ghost.get(k) for k in s.ghost if str(k).startswith('#r')] if o is not None]
            arr = self.members.get(s, 'arr')
            j = self.J
            idx = i[0] if i else z3.IntVal(0)
            return z3.And(z3.Implies(z3.And(j >= 0, j < idx), z3.Select(arr, j) == self.want(j)), z3.Implies(j >= idx, z3.Select(arr, j) == z3.Select(self.arr0, j)), idx <= self.members.n)
        return {0: LoopSpec(inv=inv, keep=('z',))}

    def post(self, ex, outs):
        super().post(ex, outs)
        j = self.J
        for k, s, p in outs:
            if k in ('normal', 'return'):
                arr = self.members.get(s, 'arr')
                ex.oblige(s, 'exit: every member that was a bare exception is now RemoteException(that member), in its own slot; every other member (results, RemoteExceptions) is untouched',
                          z3.Implies(z3.And(j >= 0, j < self.members.n), z3.Select(arr, j) == self.want(j)))


class EnsembleInit(Unit):
    """EnsembleError.__init__(results): args == (a message, the very results dict).  The message text (counts, first error) is display only and is not
    modelled: the four statements computing it are dropped (listed in the evidence)."""
    prop = 'C15'
    file = F
    qual = 'EnsembleError.__init__'
    ignore_stmts = (r"nerr = sum\(.*", r"errmsg = None", r"for v in results\['y'\]:.*", r"msg = f.*")
    canaries = (('results replaced by a copy of the member list', 'super().__init__(msg, results)', "super().__init__(msg, {'y': list(results['y']), 'n': results['n']})", ''),)

    def setup(self, ex):
        st = St()
        self.results = z3.Const('results', Val)
        st.env.update(self=Rec(ex, 'self'), results=self.results, msg=z3.String('message'))
        st.ghost['init'] = ()
        return st

    def on_call(self, ex, st, e, src):
        if src == 'super().__init__':
            def f(s, ak):
                s = s.fork()
                s.ghost['init'] = s.ghost['init'] + (tuple(ak[0]),)
                return [('ok', s, NONE)]
            return ex.bind(ex.evargs(e, st), f)
        return None

    def post(self, ex, outs):
        for k, s, p in outs:
            i = s.ghost['init']
            ok = k in ('normal', 'return') and len(i) == 1 and len(i[0]) == 2
            ex.oblige(s, 'exit: args == (message, results): the second argument is the very results object (same dict, same member list)', box(ex, i[0][1]) == self.results if ok else z3.BoolVal(False))


class EnsembleReduce(Unit):
    prop = 'C15'
    file = F
    qual = 'EnsembleError.__reduce__'
    canaries = (('message pickled instead of the results', 'return type(self), (self.args[1],)', 'return type(self), (self.args[0],)', ''),)

    def setup(self, ex):
        st = St()
        self.msg, self.results = z3.Const('message', Val), z3.Const('results', Val)
        self.cls = z3.Const('type(self)', Val)
        st.env['self'] = Rec(ex, 'self', immutable=True).init(st, args=PyTuple([self.msg, self.results]))
        ex.globals['type'] = Fn(lambda e, s, a, k, n: [('ok', s, self.cls)])
        return st

    def post(self, ex, outs):
        for k, s, p in outs:
            p = unbox_handle(ex, p)
            ok = k in ('normal', 'return') and isinstance(p, PyTuple) and len(p.items) == 2 and isinstance(unbox_handle(ex, p.items[1]), PyTuple) and len(unbox_handle(ex, p.items[1]).items) == 1
            ex.oblige(s, 'exit: pickles as (its own class, (results,)): rebuilt by EnsembleError(results) from the same results (members pickled by their own classes: unit RemoteException.__reduce__)',
                      z3.And(box(ex, p.items[0]) == self.cls, box(ex, unbox_handle(ex, p.items[1]).items[0]) == self.results) if ok else z3.BoolVal(False))


class FmtList:
    def __init__(self, exc):
        self.exc = exc


class ReReduce(Unit):
    prop = 'C15'
    file = F
    qual = 'RemoteException.__reduce__'
    canaries = (('text and exception swapped', 'return _rebuild_exception, (self.exc, self.tb)', 'return _rebuild_exception, (self.tb, self.exc)', ''),)

    def setup(self, ex):
        st = St()
        self.exc, self.tb = z3.Const('exc', Val), z3.String('tb')
        st.env['self'] = Rec(ex, 'self', immutable=True).init(st, exc=self.exc, tb=self.tb)
        self.rebuild = Fn(lambda e, s, a, k, n: [('ok', s, NONE)], name='_rebuild_exception')
        ex.globals['_rebuild_exception'] = self.rebuild
        return st

    def post(self, ex, outs):
        for k, s, p in outs:
            if k in ('normal', 'return'):
                p = unbox_handle(ex, p)
                ok = isinstance(p, PyTuple) and len(p.items) == 2 and unbox_handle(ex, p.items[0]) is self.rebuild and isinstance(p.items[1], PyTuple) and len(p.items[1].items) == 2
                ex.oblige(s, 'exit: pickles as _rebuild_exception(exc, tb): the exception itself (pickled by its own class) plus the text',
                          z3.And(box(ex, p.items[1].items[0]) == self.exc, box(ex, p.items[1].items[1]) == V.strv(self.tb)) if ok else z3.BoolVal(False))
            else:
                ex.oblige(s, 'exit: never raises', False)


class HopLemma(LemmaUnit):
    """Induction on the number of hops.  "a contains b" is written with explicit witnesses (a == pre ++ b ++ suf): the
    hypotheses are skolemised decompositions, the goals name their witnesses, so only concatenation equalities are asked."""
    prop = 'C15'
    qual = 'lemma(hops)'

    def lemmas(self):
        S = z3.StringSort()
        e0, e1, c0, c1 = z3.Consts('e_k e_k1 cause_k cause_k1', Val)
        tb, orig = z3.String('tb_wrapped'), z3.String('original_text')
        p1, s1, p2, s2, pre = (z3.String(n) for n in ('p1', 's1', 'p2', 's2', 'proc_prefix'))
        hop = [V.ucls(e1) == V.ucls(e0), eargs(e1) == eargs(e0), is_remote(c1), rt_text(c1) == tb, V.isinst(e0, 'BaseException')]
        ind = [is_remote(c0), rt_text(c0) == z3.Concat(p2, orig, s2)]                      # IH: text of e_k contains the original
        keep = z3.And(V.ucls(e1) == V.ucls(e0), eargs(e1) == eargs(e0), V.isinst(e1, 'BaseException'), is_remote(c1))
        # case A: e_k is only forwarded (no traceback): ReInit gives tb == rt_text(c0)
        yield ('step, forwarded: class/args unchanged, still remote, text IDENTICAL (hence still contains the original)',
               hop + ind + [tb == rt_text(c0)], z3.And(keep, rt_text(c1) == rt_text(c0), rt_text(c1) == z3.Concat(p2, orig, s2)))
        # case B: e_k was re-raised (fresh traceback): ReInit gives tb == prefix ++ fmt and fmt contains rt_text(c0) (trusted format_exception)
        yield ('step, re-raised: class/args unchanged, still remote, text contains the original (witness: prefix ++ p1 ++ p2 | s2 ++ s1)',
               hop + ind + [tb == z3.Concat(pre, fmt(e0, c0)), fmt(e0, c0) == z3.Concat(p1, rt_text(c0), s1)],
               z3.And(keep, rt_text(c1) == z3.Concat(z3.Concat(pre, p1, p2), orig, z3.Concat(s2, s1))))
        yield ('base (first hop, e_0 raised locally with a traceback): the text after the hop contains the originally formatted traceback',
               hop + [tb == z3.Concat(pre, fmt(e0, c0)), orig == fmt(e0, c0)],
               z3.And(V.ucls(e1) == V.ucls(e0), eargs(e1) == eargs(e0), is_remote(c1), rt_text(c1) == z3.Concat(pre, orig, z3.StringVal(''))))


UNITS = [IsRemoteUnit, GetTbUnit, RtInit, RtStr, RebuildUnit, ReInit, ReInitEnsemble, EnsembleInit, EnsembleReduce, ReReduce, HopLemma]
SCENARIOS = [('', 'replay/scenarios/c15_hops.py')]
ALWAYS_RUN_SCENARIOS = True      # the EnsembleError clause is decided only by the bounded stand-in (fast: < 1 s)
