"""Constructors and trivial accessors: the configuration the proved functions run on.  A proved loop is only as good as the fields it reads: each
constructor is proved to store every parameter under the attribute the rest of the class reads, with the documented defaults, unchanged."""
import ast
import z3

from pyvc import vals as V
from pyvc.vals import Val, NONE, fresh, PyTuple
from pyvc.unit import Unit
from pyvc.models import Rec, Fn
from pyvc.core import St, box, Unsupported, KwPack, StarPack, DictVal, unbox_handle, Obj


def stores(prop_, file_, qual_, params, expect, defaults=None, asserts_hold=True, pack=None, star=None, extra_globals=None, canaries_=(), numeric=False, name_suffix=''):
    """params: names of parameters given as distinct symbolic values; expect: {attr: param name | ('const', python value) | ('expr', fn(P) -> z3 Val)};
    pack: name of the **kwargs parameter (opaque pack, must be stored as is under expect[...] == ('pack',)); star: name of *args parameter."""
    class U(Unit):
        prop = prop_
        file = file_
        qual = qual_
        assert_mode = 'assume'
        numeric_vals_are_ints = numeric
        canaries = canaries_
        variant = name_suffix or None

        def setup(self, ex):
            st = St()
            self.me = Rec(ex, 'self')
            self.P = {p: z3.Const('p_' + p, Val) for p in params}
            st.env.update(self=self.me, **self.P)
            if pack:
                self.pack = KwPack(z3.Const('p_' + pack, Val))
                st.env[pack] = self.pack
            if star:
                self.star = StarPack(z3.Const('p_' + star, Val))
                st.env[star] = self.star
            for k, v in (extra_globals or {}).items():
                ex.globals[k] = v(self) if callable(v) else v
            for p, d in (defaults or {}).items():
                pass
            if asserts_hold is not True:
                st.assume(asserts_hold(self.P))
            return st

        def on_call(self, ex, st, e, src):
            if src == 'super().__init__':
                def f(s, ak):
                    s = s.fork()
                    s.ghost['super_init'] = (list(ak[0]), dict(ak[1]))
                    return [('ok', s, NONE)]
                return ex.bind(ex.evargs(e, st), f)
            return None

        def post(self, ex, outs):
            for k, s, p in outs:
                if k not in ('normal', 'return'):
                    ex.oblige(s, 'exit: does not raise under its documented precondition', False)
                    continue
                conds = []
                for attr, want in expect.items():
                    if not self.me.has(s, attr):
                        conds.append(z3.BoolVal(False))
                        continue
                    got = self.me.get(s, attr)
                    if want == ('pack',):
                        conds.append(z3.BoolVal(got is self.pack))
                    elif want == ('star',):
                        conds.append(z3.BoolVal(got is self.star))
                    elif isinstance(want, tuple) and want[0] == 'const':
                        c = want[1]
                        if c == []:
                            conds.append(z3.BoolVal(z3.is_expr(got) and got.sort() == V.SeqV and z3.is_true(z3.simplify(z3.Length(got) == 0))))
                        elif c == {}:
                            conds.append(z3.BoolVal(isinstance(unbox_handle(ex, got), DictVal) and not unbox_handle(ex, got).items and unbox_handle(ex, got).pack is None))
                        elif c is None:
                            conds.append(box(ex, got) == NONE)
                        elif isinstance(c, bool):
                            conds.append(box(ex, got) == V.boolv(z3.BoolVal(c)))
                        elif isinstance(c, int):
                            conds.append(box(ex, got) == V.intv(z3.IntVal(c)))
                        else:
                            conds.append(box(ex, got) == V.strv(z3.StringVal(c)))
                    elif isinstance(want, tuple) and want[0] == 'expr':
                        conds.append(box(ex, got) == want[1](self.P))
                    else:
                        conds.append(box(ex, got) == self.P[want])
                ex.oblige(s, 'exit: every parameter is stored, unchanged, under the attribute the class reads it from (' + ', '.join(f'{a} <- {w if isinstance(w, str) else w[0]}' for a, w in expect.items()) + ')', z3.And(conds))
    U.__name__ = 'Ctor_' + qual_.replace('.', '_') + name_suffix
    return U


F_SERVER, F_SERVLET, F_STREAM, F_STREAM_A, F_THREAD = 'mpserver/_server.py', 'mpserver/_servlet.py', 'streamer/_streamer.py', 'streamer/_streamer_async.py', 'threading/__init__.py'


def _count_model(unit):
    return Fn(lambda e, s, a, k, n: [('ok', s, z3.Const('itertools.count()', Val))])


def _truthy_or(P, p, default):
    # `x or default` for a parameter that is None or a positive number / non-empty value
    return z3.If(V.truthy(P[p]), P[p], default)


SERVER_CTORS = [
    stores('C06', F_SERVER, 'Server.__init__', ['servlet', 'capacity'], {'servlet': 'servlet', '_capacity': 'capacity', '_uid_to_futures': ('const', {}), '_uid_counter': ('expr', lambda P: z3.Const('itertools.count()', Val))},
           extra_globals={'itertools.count': _count_model}, numeric=True, asserts_hold=lambda P: z3.And(V.is_intv(P['capacity']), V.ival(P['capacity']) > 0),
           canaries_=(('capacity off by one', 'self._capacity = capacity', 'self._capacity = capacity + 1', ''), ('request ids not from a fresh counter', 'self._uid_counter = itertools.count()', 'self._uid_counter = None', ''))),
    stores('C06', F_SERVER, 'AsyncServer.__init__', ['servlet', 'capacity'], {'servlet': 'servlet', '_capacity': 'capacity', '_uid_to_futures': ('const', {}), '_uid_counter': ('expr', lambda P: z3.Const('itertools.count()', Val))},
           extra_globals={'itertools.count': _count_model}, numeric=True, asserts_hold=lambda P: z3.And(V.is_intv(P['capacity']), V.ival(P['capacity']) > 0)),
]

SERVLET_CTORS = [
    stores('C11', F_SERVLET, 'ThreadServlet.__init__', ['worker_cls', 'num_threads', 'worker_name'],
           {'_worker_cls': 'worker_cls', '_num_threads': ('expr', lambda P: _truthy_or(P, 'num_threads', V.intv(z3.IntVal(1)))), '_init_kwargs': ('pack',), '_workers': ('const', []), '_worker_name': 'worker_name', '_started': ('const', False)},
           pack='kwargs', canaries_=(('worker keyword arguments dropped', 'self._init_kwargs = kwargs', 'self._init_kwargs = {}', ''),)),
    stores('C11', F_SERVLET, 'SequentialServlet.__init__', [], {'_servlets': ('star',), '_qs': ('const', []), '_started': ('const', False)}, star='servlets',
           extra_globals={'len': lambda u: Fn(lambda e, s, a, k, n: [('ok', s, z3.Int('n_servlets'))])}),
    stores('C11', F_SERVLET, 'SwitchServlet.__init__', [], {'_servlets': ('star',), '_started': ('const', False)}, star='servlets',
           extra_globals={'len': lambda u: Fn(lambda e, s, a, k, n: [('ok', s, z3.Int('n_servlets'))])}),
    stores('C04', F_SERVLET, 'EnsembleServlet.__init__', ['fail_fast'], {'_servlets': ('star',), '_started': ('const', False), '_fail_fast': 'fail_fast'}, star='servlets',
           extra_globals={'len': lambda u: Fn(lambda e, s, a, k, n: [('ok', s, z3.Int('n_servlets'))])},
           canaries_=(('fail_fast flag ignored', 'self._fail_fast = fail_fast', 'self._fail_fast = True', ''),)),
]


class ProcessServletInit(Unit):
    """ProcessServlet.__init__: one worker process per entry of the stored CPU list -- cpus=None: one unpinned worker; cpus=n: n unpinned workers; a list: that list,
    unchanged (entry i pins worker i: unit ProcessServlet.start) -- and the worker class / its keyword arguments / the name prefix are stored as given."""
    prop = 'C11'
    file = F_SERVLET
    qual = 'ProcessServlet.__init__'
    variant = 'cpus=None'
    kind = 'none'
    canaries = (('worker keyword arguments dropped', 'self._init_kwargs = kwargs', 'self._init_kwargs = {}', ''),)

    def setup(self, ex):
        st = St()
        self.me = Rec(ex, 'self')
        self.P = {p: z3.Const('p_' + p, Val) for p in ('worker_cls', 'worker_name')}
        self.pack = KwPack(z3.Const('p_kwargs', Val))
        self.n = z3.Int('n_processes')
        self.lst = z3.Const('cpu_list', V.SeqV)
        st.assume(self.n >= 1)
        cpus = {'none': NONE, 'int': self.n, 'list': self.lst}[self.kind]
        st.env.update(self=self.me, cpus=cpus, kwargs=self.pack, **self.P)
        self.nones = z3.Const('n_nones', V.SeqV)
        return st

    def on_comprehension(self, ex, st, e):
        if ast.unparse(e) == '[None for _ in range(cpus)]' and self.kind == 'int':
            j = z3.Int('any_index')
            s = st.fork().assume(z3.Length(self.nones) == self.n, z3.Implies(z3.And(j >= 0, j < self.n), self.nones[j] == NONE))
            return [('ok', s, self.nones)]
        return None

    def post(self, ex, outs):
        for k, s, p in outs:
            if k not in ('normal', 'return'):
                ex.oblige(s, 'exit: does not raise', False)
                continue
            g = lambda f: self.me.get(s, f) if self.me.has(s, f) else None        # noqa: E731
            cp = g('_cpus')
            j = z3.Int('any_index')
            if cp is None or not (z3.is_expr(cp) and cp.sort() == V.SeqV):
                want = z3.BoolVal(False)
            elif self.kind == 'none':
                want = z3.And(z3.Length(cp) == 1, cp[0] == NONE)
            elif self.kind == 'int':
                want = z3.And(z3.Length(cp) == self.n, z3.Implies(z3.And(j >= 0, j < self.n), cp[j] == NONE))
            else:
                want = cp == self.lst
            ex.oblige(s, 'exit: [C11] the CPU list has one entry per worker process: [None] by default, n times None for cpus=n, the caller\'s list otherwise', want)
            ws = g('_workers')
            ex.oblige(s, 'exit: worker class, keyword arguments and name prefix stored as given; no worker yet; not started',
                      z3.And(box(ex, g('_worker_cls')) == self.P['worker_cls'], z3.BoolVal(g('_init_kwargs') is self.pack), box(ex, g('_worker_name')) == self.P['worker_name'],
                             z3.BoolVal(z3.is_expr(ws) and ws.sort() == V.SeqV and z3.is_true(z3.simplify(z3.Length(ws) == 0))), box(ex, g('_started')) == V.boolv(z3.BoolVal(False)))
                      if all(g(f) is not None for f in ('_worker_cls', '_init_kwargs', '_worker_name', '_workers', '_started')) else z3.BoolVal(False))


class ProcessServletInitInt(ProcessServletInit):
    variant = 'cpus=n'
    kind = 'int'
    canaries = (('one process too few for cpus=n', 'cpus = [None for _ in range(cpus)]', 'cpus = [None for _ in range(cpus)][1:]', ''),)


class ProcessServletInitList(ProcessServletInit):
    variant = 'cpus=list'
    kind = 'list'
    canaries = (('CPU list replaced by the default', '            self._cpus = cpus', '            self._cpus = [None]', ''),)


SERVLET_CTORS += [ProcessServletInit, ProcessServletInitInt, ProcessServletInitList]

STREAM_CTORS = [
    stores('C01', F_STREAM, 'ParmapperAsync.__init__', ['instream', 'func', 'concurrency', 'return_x', 'return_exceptions', 'preprocessor', 'parmapper_name', 'async_context'],
           {'_instream': 'instream', '_func': 'func', '_func_kwargs': ('pack',), '_return_x': 'return_x', '_return_exceptions': 'return_exceptions', '_preprocessor': 'preprocessor',
            '_concurrency': ('expr', lambda P: _truthy_or(P, 'concurrency', V.intv(z3.IntVal(128)))), '_name': 'parmapper_name',
            '_fifo_capacity': ('expr', lambda P: V.intv(2 * V.ival(_truthy_or(P, 'concurrency', V.intv(z3.IntVal(128))))))},
           pack='kwargs', numeric=True, asserts_hold=lambda P: z3.Or(P['concurrency'] == NONE, z3.And(V.is_intv(P['concurrency']), V.ival(P['concurrency']) >= 1)),
           canaries_=(('return_x / return_exceptions swapped', 'self._return_x = return_x\n        self._return_exceptions = return_exceptions', 'self._return_x = return_exceptions\n        self._return_exceptions = return_x', ''),)),
    stores('C16', F_STREAM_A, 'AsyncParmapperAsync.__init__', ['instream', 'func', 'concurrency', 'return_x', 'return_exceptions', 'preprocessor', 'parmapper_name'],
           {'_instream': 'instream', '_func': 'func', '_func_kwargs': ('pack',), '_return_x': 'return_x', '_return_exceptions': 'return_exceptions', '_preprocessor': 'preprocessor',
            '_concurrency': ('expr', lambda P: _truthy_or(P, 'concurrency', V.intv(z3.IntVal(128)))), '_name': 'parmapper_name'},
           pack='kwargs', numeric=True, asserts_hold=lambda P: z3.Or(P['concurrency'] == NONE, z3.And(V.is_intv(P['concurrency']), V.ival(P['concurrency']) >= 1)),
           canaries_=(('preprocessor dropped', 'self._preprocessor = preprocessor', 'self._preprocessor = None', ''),)),
    stores('C16', F_STREAM_A, 'AsyncParmapper.__init__', ['instream', 'func', 'executor', 'concurrency', 'return_x', 'return_exceptions', 'preprocessor', 'executor_initializer', 'executor_init_args', 'parmapper_name'],
           {'_instream': 'instream', '_func': 'func', '_func_kwargs': ('pack',), '_return_x': 'return_x', '_return_exceptions': 'return_exceptions', '_preprocessor': 'preprocessor',
            '_executor_type': 'executor', '_executor_initializer': 'executor_initializer', '_executor_init_args': 'executor_init_args', '_name': 'parmapper_name',
            # the same default as the sync Parmapper: by executor type
            '_concurrency': ('expr', lambda P: z3.If(P['concurrency'] != NONE, P['concurrency'], z3.If(P['executor'] == V.strv(z3.StringVal('thread')), V.intv(z3.Int('_NUM_THREADS')), V.intv(z3.Int('_NUM_PROCESSES')))))},
           pack='kwargs', numeric=True, extra_globals={'_NUM_THREADS': z3.Int('_NUM_THREADS'), '_NUM_PROCESSES': z3.Int('_NUM_PROCESSES')},
           asserts_hold=lambda P: z3.And(z3.Or(P['executor'] == V.strv(z3.StringVal('thread')), P['executor'] == V.strv(z3.StringVal('process'))),
                                         z3.Or(P['concurrency'] == NONE, z3.And(V.is_intv(P['concurrency']), V.ival(P['concurrency']) >= 1))),
           canaries_=(('default concurrency of the other executor type', "concurrency = _NUM_THREADS if executor == 'thread' else _NUM_PROCESSES", "concurrency = _NUM_PROCESSES if executor == 'thread' else _NUM_THREADS", ''),
                      ('return_exceptions not stored', 'self._return_exceptions = return_exceptions', 'self._return_exceptions = False', ''))),
]


class CapacityProp(Unit):
    prop = 'C06'
    file = F_SERVER
    qual = 'Server.capacity'
    canaries = (('reports another number', 'return self._capacity', 'return self._capacity * 2', ''),)

    def setup(self, ex):
        st = St()
        self.cap = z3.Int('capacity')
        st.env['self'] = Rec(ex, 'self', immutable=True).init(st, _capacity=self.cap)
        return st

    def post(self, ex, outs):
        for k, s, p in outs:
            ex.oblige(s, 'exit: the capacity the server was built with (Server.stream uses it as the look-ahead bound)', box(ex, p) == V.intv(self.cap) if k in ('normal', 'return') else z3.BoolVal(False))


UNITS_C06_CTORS = SERVER_CTORS + [CapacityProp]

ALL = SERVER_CTORS + SERVLET_CTORS + STREAM_CTORS + [CapacityProp]
