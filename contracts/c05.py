"""C05 — streams end cleanly on early stop or failure - no hang, no leak.

Structural obligations (DESIGN 2.4): S3 every producer ends with a terminal item on every exit path and forwards every
failure kind in the quantifier (Exception and StopRequested); consumers never `get` after the terminal item; every
generator runs its finalizer on every exit (stop flag set, helper thread joined, executor shut down); S1/E3 a `join` is
reached only when it cannot block: Buffer-style finalizers drain with timed gets until the worker is dead; fifo_stream's
finalizer relies on the put-credit lemma K <= free slots (K = 2 <= capacity + 1)."""
import z3

from pyvc.unit import LemmaUnit, LoopSpec
from contracts.buffer import UNITS as BUF_UNITS, ENTRY_UNITS, FINISHED, STOPPED
from contracts.fifo import FeedUnit, FeedUnitNoPre, ConsumerUnit, ConsumerUnitNoPre
from contracts.c16 import AFeed, AFeedNoPre, AConsumer, AConsumerNoPre
from contracts.c01 import ParmapperIter, ParmapperIterProcess, EXECUTOR_FRAME
from contracts.c12 import ThreadRun, ThreadRunNoTarget, ThreadJoin, ProcJoin, ProcJoinTimeout, CollectResult


class FeedUnderStop(FeedUnit):
    """S1 put-credit of fifo_stream's feeder: once the stop flag is set (and stays set) the feeder starts no further
    iteration and performs at most ONE more put after the loop head (the terminal item); together with the put it may be
    blocked in, K = 2."""
    variant = 'under-stop'
    canaries = (('feeder ignores the stop flag', '                if to_stop.is_set():\n                    break', '                if to_stop.is_set():\n                    pass', 'no further iteration'),)

    def __init__(self):
        super().__init__()
        self.name = f'{self.prop}:{self.qual}[under-stop]'

    def setup(self, ex):
        st = super().setup(ex)
        self.to_stop.set(st, 'flag', z3.BoolVal(True))
        return st

    @property
    def loops(self):
        base = super().loops
        sp = base[0]

        def head(h, ex):
            h.ghost['#nput_head'] = self.q.nput(h)
        sp.at_head = head
        sp.on_backedge = lambda s, ex: ex.oblige(s, 'under stop: no further iteration once the stop flag is set', False)
        return base

    def post(self, ex, outs):
        super().post(ex, outs)
        for k, s, p in outs:
            if k in ('normal', 'return') and '#nput_head' in s.ghost:
                ex.oblige(s, 'under stop: at most one more put after the flag is seen (the terminal item)', self.q.nput(s) - s.ghost['#nput_head'] <= 1)


class AFeedUnderStop(FeedUnderStop):
    qual = 'async_fifo_stream.<locals>.feed'
    qname = 'tasks'
    prop = 'C16'
    canaries = ()


class CreditLemma(LemmaUnit):
    prop = 'C05'
    qual = 'lemma(put-credit)'

    def lemmas(self):
        cap, maxsize, K = z3.Ints('capacity maxsize K')
        yield ('fifo_stream: after the final drain saw the queue empty, the feeder needs at most K = 1 (the put it is blocked in) + 1 (terminal) = 2 more slots, and the queue has capacity + 1 >= 2',
               [cap >= 1, maxsize == cap + 1, K == 1 + 1], K <= maxsize)


from contracts.singlelane import UNITS as SL_UNITS      # noqa: E402  (no lost wake-up on the hand-off queue: what 'nothing blocks forever' rests on for every maxsize incl. 1)
UNITS = list(BUF_UNITS) + list(ENTRY_UNITS) + list(SL_UNITS) + [FeedUnit, FeedUnitNoPre, FeedUnderStop, ConsumerUnit, ConsumerUnitNoPre, AFeed, AFeedNoPre, AFeedUnderStop, AConsumer, AConsumerNoPre,
                           ParmapperIter, ParmapperIterProcess] + list(EXECUTOR_FRAME) + [ThreadRun, ThreadRunNoTarget, ThreadJoin,
                           # executor='process': leaving `with executor` joins every pool process, and SpawnProcess.join is what waits for that process's helper threads
                           # (result collector, which in turn joins the logger thread)
                           ProcJoin, ProcJoinTimeout, CollectResult, CreditLemma]
ASSUMPTIONS = (
    'stream elements are not equal to the library\'s FINISHED/STOPPED sentinel strings; user sources and functions return (terminate)',
    'meta-theorem (DESIGN 2.4, not machine-checked): S1/S3/E3 obligations + fair scheduling => nothing blocks forever',
    'KeyboardInterrupt/SystemExit raised inside producer threads are outside the property\'s quantifier',
    'SingleLane precondition single reader / single writer: while a finalizer drains, the consumer loop is no longer reading',
)
NOT_DECIDED = ('bounded wall-clock time', 'AsyncIter (sync source behind run_in_executor): uses the event loop\'s default executor, no helper of its own',
               'OS-level exit of threads after join() returns')
SCENARIOS = [('', 'replay/scenarios/c05_thread_leak.py'), ('', 'replay/scenarios/c05_early_close.py'), ('', 'replay/scenarios/c05_stoprequested.py'), ('', 'replay/scenarios/c05_async_context_failure.py')]
ALWAYS_RUN_SCENARIOS = True      # the chain clause (upstream stages end when the last stage ends) is decided only by the bounded stand-in c05_thread_leak.py; all three take < 15 s
BOUNDED = [{'function': 'chains of operators: an upstream generator is released (hence finalized) when the downstream stage ends -- CPython reference counting, not a contract of any function', 'method': 'runtime scenario replay/scenarios/c05_thread_leak.py', 'bound': '7 pipelines x 6 ways of ending x consumer keeps/drops results', 'counted_as_proved': False}]
