"""C05 — streams end cleanly on early stop or failure."""
from contracts.buffer import UNITS as BUF_UNITS
UNITS = list(BUF_UNITS)
