"""Contracts of mpservice._queues.SingleLane (single reader, single writer) -- shared by C01, C05, C08, C09.

Abstract state: Q = content of the deque; ghost histories P (everything ever put) and G (everything ever got) with the
representation invariant  P == G ++ Q  and  maxsize > 0 => |Q| <= maxsize.
E2 (rely/guarantee): while the writer waits on `_not_full` only the reader acts: it pops a prefix of Q (and each of its
notifies on `_not_full` follows a pop in the same critical section); while the reader waits on `_not_empty` only the
writer acts: it appends a suffix (respecting maxsize).  The precondition "one reader, one writer" is what makes the
`if` (rather than `while`) around wait() sufficient -- it is stated, not checked.
"""
import z3

from pyvc import vals as V
from pyvc.vals import Val, SeqV, NONE, fresh
from pyvc.unit import Unit, LoopSpec, LemmaUnit
from pyvc.models import Rec, Deque, Lock, Condition
from pyvc.core import St, box

F = '_queues.py'

ASSUMPTIONS = (
    'SingleLane precondition: at most one thread calls put and at most one thread calls get (single writer / single reader)',
    'one operation on a deque / len() is atomic (GIL)',
    'threading.Condition has no spurious wake-ups (CPython implementation)',
)


class SLBase(Unit):
    file = F
    prop = 'C01'
    unreachable_ok = ('raise ValueError',)       # the closed-queue error path (self._closed is False under the precondition)

    def mk(self, ex, st):
        self.maxsize = z3.Int('maxsize')
        st.assume(self.maxsize >= 0)
        self.Q0 = z3.Const('Q0', SeqV)
        self.G0 = z3.Const('G0', SeqV)
        self.P0 = z3.Concat(self.G0, self.Q0)
        st.assume(z3.Implies(self.maxsize > 0, z3.Length(self.Q0) <= self.maxsize))      # representation invariant on entry
        self.dq = Deque(ex, label='_queue')
        self.dq.init(st, self.Q0)
        self.mutex = Lock(ex, '_mutex').init(st)
        self.not_empty = Condition(ex, self.mutex, '_not_empty').init(st)
        self.not_full = Condition(ex, self.mutex, '_not_full').init(st)
        from pyvc.models import Fn
        # the probe methods by their contracts (units SingleLane.empty/full/qsize): one atomic read of the deque length
        probes = {'empty': Fn(lambda e, s, a, k, n: [('ok', s, z3.Length(self.Q(s)) == 0)]),
                  'full': Fn(lambda e, s, a, k, n: [('ok', s, z3.And(self.maxsize > 0, z3.Length(self.Q(s)) >= self.maxsize))]),
                  'qsize': Fn(lambda e, s, a, k, n: [('ok', s, z3.Length(self.Q(s)))])}
        self.me = Rec(ex, 'self', methods=probes).init(st, maxsize=self.maxsize, _queue=self.dq, _mutex=self.mutex, _not_empty=self.not_empty,
                                                       _not_full=self.not_full, _closed=z3.BoolVal(False))
        st.env['self'] = self.me
        st.ghost['G'] = self.G0
        st.ghost['P'] = self.P0
        st.ghost['popped_since_wait'] = z3.IntVal(0)
        from pyvc.core import ExcClass
        ex.globals['Full'] = ExcClass('queue.Full')
        ex.globals['Empty'] = ExcClass('queue.Empty')
        return st

    def Q(self, s):
        return self.dq.get(s, 'q')

    def inv(self, s):
        return z3.And(s.ghost['P'] == z3.Concat(s.ghost['G'], self.Q(s)),
                      z3.Implies(self.maxsize > 0, z3.Length(self.Q(s)) <= self.maxsize))


class SLPut(SLBase):
    qual = 'SingleLane.put'
    expected_exits = ('normal', 'raise')
    canaries = (
        ('LIFO: appendleft', 'self._queue.append(item)', 'self._queue.appendleft(item)', 'appended at the tail'),
        ('off by one: full when len > maxsize', 'if 0 < self.maxsize <= len(self._queue):', 'if 0 < self.maxsize < len(self._queue):', 'never exceeds maxsize'),
        ('reader not woken', 'self._not_empty.notify()', 'pass', 'reader is notified'),
        ('item put even when timing out', '                if not self._not_full.wait(timeout=timeout):\n                    raise Full',
         '                self._not_full.wait(timeout=timeout)', 'never exceeds maxsize'),
    )

    def setup(self, ex):
        st = St()
        self.mk(ex, st)
        self.item = z3.Const('item', Val)
        st.env['item'] = self.item
        st.env['block'] = z3.Bool('block')
        st.env['timeout'] = z3.Const('timeout', Val)
        return st

    def on_wait(self, ex, st, cond, notified, node):
        ex.oblige(st, f'line {node.lineno}: a non-blocking put (block=False) never waits: it raises Full at once', st.env['block'])
        # rely of the writer while it waits on _not_full: only the reader runs; it pops a prefix of Q (G grows by it);
        # a True return means a notify on _not_full happened during the wait, and each such notify follows a pop.
        ex.oblige(st, f'line {node.lineno}: the writer waits on _not_full (the condition the reader notifies after a pop)', z3.BoolVal(cond is self.not_full))
        popped = fresh('popped', SeqV)
        Q1 = fresh('Q_after_wait', SeqV)
        st.assume(self.Q(st) == z3.Concat(popped, Q1))
        if notified:
            st.assume(z3.Length(popped) >= 1)
        st.ghost['G'] = z3.Concat(st.ghost['G'], popped)
        self.dq.set(st, 'q', Q1)

    def post(self, ex, outs):
        for k, s, p in outs:
            if k in ('normal', 'return'):
                G, Q = s.ghost['G'], self.Q(s)
                ex.oblige(s, 'exit: the item is appended at the tail: P\' == P_before ++ [item] where P_before == G\' ++ (Q\' without its last)',
                          z3.And(z3.Length(Q) >= 1, V.last(Q) == self.item,
                                 z3.Concat(G, z3.SubSeq(Q, 0, z3.Length(Q) - 1)) == self.P0))
                ex.oblige(s, 'exit: the queue never exceeds maxsize', z3.Implies(self.maxsize > 0, z3.Length(Q) <= self.maxsize))
                ex.oblige(s, 'exit: the reader is notified (on _not_empty) after the append', self.not_empty.get(s, 'notifies') >= 1)
                ex.oblige(s, 'exit: the mutex is released', self.mutex.held(s) == 0)
            elif k == 'raise':
                ex.oblige(s, 'exit(raise): only queue.Full, nothing was appended (contents are what the reader left), mutex released',
                          z3.And(V.isinst(p, 'queue.Full'), z3.Concat(s.ghost['G'], self.Q(s)) == self.P0, self.mutex.held(s) == 0))
                ex.oblige(s, 'exit(raise Full): only when non-blocking or after a timed wait expired', z3.Or(z3.Not(s.env['block']), s.env['timeout'] != NONE))


class SLGet(SLBase):
    qual = 'SingleLane.get'
    expected_exits = ('normal', 'raise')
    canaries = (
        ('LIFO: pop from the right', 'z = self._queue.popleft()', 'z = self._queue.pop()', 'returns the oldest'),
        ('writer not woken', 'self._not_full.notify()', 'pass', 'writer is notified'),
        ('notify before the pop', '            z = self._queue.popleft()\n            self._not_full.notify()', '            self._not_full.notify()\n            z = self._queue.popleft()', 'follows the pop'),
    )

    def setup(self, ex):
        st = St()
        self.mk(ex, st)
        st.env['block'] = z3.Bool('block')
        st.env['timeout'] = z3.Const('timeout', Val)
        st.ghost['pops_at_notify'] = z3.IntVal(-1)
        return st

    def on_wait(self, ex, st, cond, notified, node):
        ex.oblige(st, f'line {node.lineno}: a non-blocking get (block=False) never waits: it raises Empty at once', st.env['block'])
        # rely of the reader while it waits on _not_empty: only the writer runs; it appends (respecting maxsize);
        # a True return means a notify on _not_empty happened during the wait, and each such notify follows an append.
        ex.oblige(st, f'line {node.lineno}: the reader waits on _not_empty (the condition the writer notifies after an append)', z3.BoolVal(cond is self.not_empty))
        added = fresh('added', SeqV)
        Q1 = z3.Concat(self.Q(st), added)
        st.assume(z3.Implies(self.maxsize > 0, z3.Length(Q1) <= self.maxsize))
        if notified:
            st.assume(z3.Length(added) >= 1)
        st.ghost['P'] = z3.Concat(st.ghost['P'], added)
        self.dq.set(st, 'q', Q1)

    def on_notify(self, ex, st, cond, node):
        if cond is self.not_full:
            # number of elements this get() has removed when it notifies the writer
            st.ghost['pops_at_notify'] = z3.Length(st.ghost['P']) - z3.Length(self.G0) - z3.Length(self.Q(st))

    def post(self, ex, outs):
        for k, s, p in outs:
            P = s.ghost['P']
            if k in ('normal', 'return'):
                Q = self.Q(s)
                z = box(ex, p)
                ex.oblige(s, 'exit: returns the oldest element not yet got: z == P[|G_before|] (FIFO), and the rest stays in order',
                          z3.And(z3.Length(P) > z3.Length(self.G0), z == P[z3.Length(self.G0)],
                                 P == z3.Concat(self.G0, z3.Unit(z), Q)))
                ex.oblige(s, 'exit: the writer is notified (on _not_full), and the notify follows the pop (one element fewer than appended+initial)',
                          z3.And(self.not_full.get(s, 'notifies') >= 1, s.ghost['pops_at_notify'] == 1))
                ex.oblige(s, 'exit: the mutex is released', self.mutex.held(s) == 0)
            elif k == 'raise':
                ex.oblige(s, 'exit(raise): only queue.Empty, nothing was removed, mutex released',
                          z3.And(V.isinst(p, 'queue.Empty'), P == z3.Concat(self.G0, self.Q(s)), self.mutex.held(s) == 0))
                ex.oblige(s, 'exit(raise Empty): only when non-blocking or after a timed wait expired', z3.Or(z3.Not(s.env['block']), s.env['timeout'] != NONE))


class SLProbe(SLBase):
    """empty()/full()/qsize(): one atomic read of len(deque)."""
    which = 'empty'

    def setup(self, ex):
        st = St()
        self.mk(ex, st)
        return st

    def post(self, ex, outs):
        for k, s, p in outs:
            if k in ('normal', 'return'):
                n = z3.Length(self.Q0)
                want = {'empty': lambda: ex.truth(s, p) == (n == 0),
                        'full': lambda: ex.truth(s, p) == z3.And(self.maxsize > 0, n >= self.maxsize),
                        'qsize': lambda: p == n}[self.which]()
                ex.oblige(s, f'exit: {self.which}() reports the number of queued elements at the instant of the read', want)
            else:
                ex.oblige(s, 'exit: never raises', False)


class SLEmpty(SLProbe):
    qual = 'SingleLane.empty'
    which = 'empty'
    canaries = (('empty() negated', 'return len(self._queue) == 0', 'return len(self._queue) != 0', 'reports'),)


class SLFull(SLProbe):
    qual = 'SingleLane.full'
    which = 'full'


class SLQsize(SLProbe):
    qual = 'SingleLane.qsize'
    which = 'qsize'


class SLInit(Unit):
    file = F
    prop = 'C01'
    qual = 'SingleLane.__init__'
    canaries = (('maxsize ignored', 'self.maxsize = maxsize', 'self.maxsize = 0', 'bounded by the argument'),)

    def setup(self, ex):
        from pyvc.models import DequeCtor, Fn
        st = St()
        self.me = Rec(ex, 'self')
        st.env['self'] = self.me
        self.maxsize = z3.Int('maxsize')
        st.assume(self.maxsize >= 0)
        st.env['maxsize'] = self.maxsize
        ex.globals['deque'] = DequeCtor()
        ex.globals['threading'] = __import__('pyvc.core', fromlist=['Module']).Module('threading')

        def mklock(e, s, a, k, n):
            l = Lock(e, 'mutex')
            s = s.fork()
            l.init(s)
            return [('ok', s, l)]

        def mkcond(e, s, a, k, n):
            c = Condition(e, a[0], 'cond')
            s = s.fork()
            c.init(s)
            return [('ok', s, c)]
        ex.globals['threading.Lock'] = Fn(mklock)
        ex.globals['threading.Condition'] = Fn(mkcond)
        return st

    def post(self, ex, outs):
        for k, s, p in outs:
            if k in ('normal', 'return'):
                dq, ne, nf, mx = (self.me.get(s, f) for f in ('_queue', '_not_empty', '_not_full', '_mutex'))
                ex.oblige(s, 'exit: empty queue bounded by the argument; both conditions share the one mutex',
                          z3.And(self.me.get(s, 'maxsize') == self.maxsize, dq.get(s, 'q') == V.EMPTY,
                                 z3.BoolVal(isinstance(dq, Deque) and dq.maxlen is None and ne.lock is mx and nf.lock is mx and ne is not nf)))
                ex.oblige(s, 'exit: the queue starts open (put / get read self._closed on every call)', box(ex, self.me.get(s, '_closed')) == V.boolv(z3.BoolVal(False)) if self.me.has(s, '_closed') else z3.BoolVal(False))


class SLRelyGuarantee(LemmaUnit):
    """The rely used by each role is implied by (any number of) critical sections of the other role."""
    prop = 'C01'
    qual = 'lemma(SingleLane rely/guarantee)'

    def lemmas(self):
        Q, G, Q1, G1, Q2, G2, p1, p2 = z3.Consts('Q G Q1 G1 Q2 G2 p1 p2', SeqV)
        z = z3.Const('z', Val)
        # reader step (get's postcondition, between two instants of the writer's wait): Q == [z] ++ Q1, G1 == G ++ [z]
        yield ('one get() step is a "pops a prefix" step', [Q == z3.Concat(z3.Unit(z), Q1), G1 == z3.Concat(G, z3.Unit(z))],
               z3.And(Q == z3.Concat(z3.Unit(z), Q1), G1 == z3.Concat(G, z3.Unit(z)), z3.Length(z3.Unit(z)) >= 1))
        yield ('"pops a prefix" is reflexive', [], z3.And(Q == z3.Concat(V.EMPTY, Q), G == z3.Concat(G, V.EMPTY)))
        yield ('"pops a prefix" is transitive (witness p1 ++ p2)',
               [Q == z3.Concat(p1, Q1), G1 == z3.Concat(G, p1), Q1 == z3.Concat(p2, Q2), G2 == z3.Concat(G1, p2)],
               z3.And(Q == z3.Concat(z3.Concat(p1, p2), Q2), G2 == z3.Concat(G, z3.Concat(p1, p2))))
        a1, a2, P, P1, P2 = z3.Consts('a1 a2 P P1 P2', SeqV)
        yield ('"appends a suffix" is transitive (witness a1 ++ a2)',
               [Q1 == z3.Concat(Q, a1), P1 == z3.Concat(P, a1), Q2 == z3.Concat(Q1, a2), P2 == z3.Concat(P1, a2)],
               z3.And(Q2 == z3.Concat(Q, z3.Concat(a1, a2)), P2 == z3.Concat(P, z3.Concat(a1, a2))))
        # FIFO composition, pointwise: the k-th get returns the k-th put
        k = z3.Int('k')
        yield ('FIFO pointwise: if G is always a prefix of P then the element got as number k is the element put as number k',
               [z3.PrefixOf(G, P), k >= 0, k < z3.Length(G)], G[k] == P[k])


UNITS = [SLInit, SLPut, SLGet, SLEmpty, SLFull, SLQsize, SLRelyGuarantee]
