"""C06 — backlog never exceeds capacity; slots are always returned."""
from contracts.server import UNITS_C06, ASSUMPTIONS
UNITS = list(UNITS_C06)
SCENARIOS = [('', 'replay/scenarios/c06_backlog_overshoot.py')]
