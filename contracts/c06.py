"""C06 — backlog never exceeds capacity; slots are always returned."""
from contracts.server import UNITS_C06, ASSUMPTIONS
from contracts.ctors import UNITS_C06_CTORS
# "every accepted request gives its slot back" is carried, below the server, by "every request put into the pipeline comes out exactly once":
# the worker loops (one output per input, failures included), the servlet forwarders and the ensemble's collector.
from contracts.worker import UNITS_SINGLE, UNITS_BATCH
from contracts.servlet import UNITS_FORWARD, UNITS_DEQUEUE
from contracts.c11 import OnboardUnit, ServerEnterUnit, AServerEnterUnit, EnterServer, EnterServerThreadQ
UNITS = list(UNITS_C06) + list(UNITS_C06_CTORS) + [OnboardUnit, ServerEnterUnit, AServerEnterUnit, EnterServer, EnterServerThreadQ] + list(UNITS_SINGLE) + list(UNITS_BATCH) + list(UNITS_FORWARD) + list(UNITS_DEQUEUE)
SCENARIOS = [('', 'replay/scenarios/c06_backlog_overshoot.py'), ('', 'replay/scenarios/c06_idle_backlog.py')]
