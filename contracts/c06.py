"""C06 — backlog never exceeds capacity; slots are always returned."""
from contracts.server import UNITS_C06, ASSUMPTIONS
from contracts.ctors import UNITS_C06_CTORS
UNITS = list(UNITS_C06) + list(UNITS_C06_CTORS)
SCENARIOS = [('', 'replay/scenarios/c06_backlog_overshoot.py')]
