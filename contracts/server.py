"""mpserver.Server / AsyncServer: _enqueue, _gather_output, _wait_for_result, backlog (C02, C06, C07) under rely/guarantee.

Shared state: the ledger `_uid_to_futures` (SharedMap: array uid -> future|ABSENT plus its size), the input buffer
(history), the caller's future (SharedFuture state machine).  Roles: enqueuers (any number, under the condition lock),
the gather thread (pops WITHOUT the lock), callers (may cancel their own future at any time after enqueuing).
Rely of an enqueuer: while it holds the lock only the gather thread acts on the ledger -> it only shrinks (entries are
only removed; never the entry of a uid that is not yet in the pipeline); while it waits (lock released) anything
within the invariant |ledger| <= capacity may happen, except that nobody else inserts or removes ITS uid (uids are
unique: per-server counter).  Guarantee: each of its own writes keeps |ledger| <= capacity.
"""
import ast
import z3

from pyvc import vals as V
from pyvc.vals import Val, SeqV, NONE, fresh, PyTuple
from pyvc.unit import Unit, LoopSpec, LemmaUnit
from pyvc.models import (Rec, Fn, Nop, Lock, Condition, QueueWriter, QueueReader, SharedMap, SharedFuture, Absent, GhostClock,
                         PENDING, RUNNING, CANCELLED, FINISHED, ThreadCtor, ThreadObj, UFunc)
from pyvc.core import St, Module, box, Unsupported, Obj, unbox_handle, ExcClass, Callable_

F = 'mpserver/_server.py'

ASSUMPTIONS = (
    'one operation on a dict / SimpleQueue / itertools.count is atomic (GIL)',
    'threading.Condition: no spurious wake-ups; wait(t) returns False exactly at the timeout (ghost clock; time passes only in blocking calls)',
    'every output (uid, y) reaching the gather thread was caused by an input (uid, x) that _enqueue put on the input buffer (component contract of the servlet tree, C02)',
)


class UidCounter(Obj):
    """itertools.count(): next() returns a number never returned before (strictly increasing)."""
    trusted = 'itertools.count(): next() is atomic and strictly increasing'

    def havoc(self, ex, st):
        pass

    def pull(self, ex, st, node):
        st = st.fork()
        uid = fresh('uid', z3.IntSort())
        st.assume(uid >= st.ghost['next_uid'])
        st.ghost['next_uid'] = uid + 1
        st.ghost['my_uid'] = uid
        hook = getattr(ex.unit, 'on_new_uid', None)
        if hook:
            hook(ex, st, uid)
        return [('item', st, uid)]


class EnqueueUnit(Unit):
    prop = 'C06'
    file = F
    qual = 'Server._enqueue'
    expected_exits = ('normal', 'raise')
    ignore_stmts = (r"fut\.data\['t1'\] = .*",)
    is_async = False
    canaries = (
        ('pinned-tree C06 defect: `if` instead of `while` around wait', '            while len(pipeline) >= self._capacity:', '            if len(pipeline) >= self._capacity:', 'never exceeds capacity'),
        ('pinned-tree C02 defect: enqueue before recording', '            pipeline[uid] = fut\n            self._input_buffer.put((uid, x))', '            self._input_buffer.put((uid, x))\n            pipeline[uid] = fut', 'recorded in the ledger before'),
        ('off by one: > instead of >=', 'while len(pipeline) >= self._capacity:', 'while len(pipeline) > self._capacity:', 'never exceeds capacity'),
        ('insert before the capacity check', '        with self._pipeline_notfull:\n            while', '        pipeline[uid] = fut\n        with self._pipeline_notfull:\n            while', ''),
        ('waits the full timeout again after every wake-up', 't0 + timeout * 0.99 - perf_counter()', 'timeout * 0.99', 'no longer than'),
        ('uid from id(fut) (pinned-tree C02 defect)', 'uid = next(self._uid_counter)', 'uid = id(fut)', ''),
    )

    def setup(self, ex):
        st = St()
        self.cap = z3.Int('capacity')
        st.assume(self.cap >= 1)
        self.L0 = z3.Const('ledger0', z3.ArraySort(Val, Val))
        self.n0 = z3.Int('ledger_size0')
        st.assume(self.n0 >= 0, self.n0 <= self.cap)                   # Inv on entry
        self.ledger = SharedMap(ex, 'ledger').init(st, self.L0, self.n0)
        self.lock = Lock(ex, 'notfull_lock').init(st)
        self.cond = Condition(ex, self.lock, '_pipeline_notfull').init(st)
        self.inbuf = QueueWriter(ex, 'inbuf')
        self.inbuf.init(st)
        self.counter = UidCounter(ex, 'uid_counter')
        st.ghost['next_uid'] = z3.Int('next_uid0')
        st.assume(st.ghost['next_uid'] >= 0)
        st.ghost['my_uid'] = z3.IntVal(-1)
        st.ghost['writes'] = z3.IntVal(0)
        st.ghost['put_done'] = z3.BoolVal(False)
        st.ghost['inserted'] = z3.BoolVal(False)
        st.ghost['clock'] = z3.Real('clock0')
        st.ghost['t_entry'] = st.ghost['clock']
        self.kk = z3.Int('any_key')                                      # arbitrary key for the pointwise uid-freshness invariant
        st.assume(z3.Implies(self.kk >= st.ghost['next_uid'], z3.Select(self.L0, V.intv(self.kk)) == Absent))
        self.me = Rec(ex, 'self', immutable=True).init(st, _uid_to_futures=self.ledger, _capacity=self.cap, _pipeline_notfull=self.cond,
                                                       _input_buffer=self.inbuf, _uid_counter=self.counter)
        st.env['self'] = self.me
        self.x = z3.Const('x', Val)
        self.timeout = z3.Real('timeout')
        st.assume(self.timeout >= 0)
        self.bp = z3.Bool('backpressure')
        st.env.update(x=self.x, timeout=self.timeout, backpressure=self.bp)
        ex.globals['perf_counter'] = GhostClock()
        self.futs = []

        def mkfut(e, s, a, k, n):
            f = SharedFuture(e, 'fut', other_may_cancel=False)
            s = s.fork()
            f.init(s)
            self.futs.append(f)
            return [('ok', s, f)]
        ex.globals['concurrent.futures.Future'] = Fn(mkfut)
        ex.globals['ServerBacklogFull'] = ExcClass('ServerBacklogFull')
        self.extra(ex, st)
        return st

    def extra(self, ex, st):
        pass

    def on_new_uid(self, ex, st, uid):
        # pointwise instance of "every key in the ledger was issued earlier": the fresh uid is not a key
        st.assume(z3.Select(self.ledger.arr(st), V.intv(uid)) == Absent)

    # ---- rely: what other roles may have done to the ledger since this role last looked
    def interfere(self, ex, st, m, node, waiting=False):
        A, n = m.arr(st), m.size(st)
        A1 = fresh('ledger', z3.ArraySort(Val, Val))
        n1 = fresh('ledger_size', z3.IntSort())
        held = z3.simplify(self.lock.held(st))
        holding = z3.is_int_value(held) and held.as_long() >= 1 and not waiting
        st.assume(n1 >= 0, n1 <= self.cap)
        if holding:
            st.assume(n1 <= n)                                           # only the gather thread acts: the ledger only shrinks
        my = V.intv(st.ghost['my_uid'])
        for key in (my, V.intv(self.kk)):
            old, new = z3.Select(A, key), z3.Select(A1, key)
            st.assume(z3.Or(new == old, new == Absent) if holding else z3.BoolVal(True))
        # nobody else inserts or removes this request's uid before it is in the pipeline (uids are unique; no output for it can exist yet)
        st.assume(z3.Implies(z3.Not(st.ghost['put_done']), z3.Select(A1, my) == z3.Select(A, my)))
        # keys not yet issued stay absent (other enqueuers use uids they obtained from the counter, all below next_uid)
        st.assume(z3.Implies(self.kk >= st.ghost['next_uid'], z3.Select(A1, V.intv(self.kk)) == Absent))
        m.set(st, 'arr', A1)
        m.set(st, 'size', n1)

    def on_acquire(self, ex, st, lock, node):
        # everything the other roles did while this caller did not hold the lock -- other enqueuers included, so the ledger may have GROWN
        # since whatever this caller observed before (an observation made without the lock says nothing once the lock is taken)
        self.interfere(ex, st, self.ledger, node, waiting=True)

    def on_wait(self, ex, st, cond, notified, node):
        t = st.ghost.get('#wait_timeout')
        now = st.ghost['clock']
        if t is None:
            raise Unsupported('untimed wait in _enqueue')
        if t.sort() == z3.IntSort():
            t = z3.ToReal(t)
        tt = z3.If(t > 0, t, 0)
        new = fresh('clock', z3.RealSort())
        st.assume(new >= now, new <= now + tt)
        if not notified:
            st.assume(new == now + tt)
        st.ghost['clock'] = new
        st.ghost['waited_until'] = now + tt
        ex.oblige(st, f'line {node.lineno}: [C06] a caller WITH back-pressure never waits for a slot: it is rejected at once (no wait on the condition on any path)', z3.Not(self.bp))
        ex.oblige(st, f'line {node.lineno}: a caller without back-pressure waits no longer than 0.99 * timeout in total (each wait ends by the original deadline)',
                  now + tt <= z3.If(st.ghost['t_entry'] + self.timeout * 0.99 >= now, st.ghost['t_entry'] + self.timeout * 0.99, now))
        self.interfere(ex, st, self.ledger, node, waiting=True)

    def after_map_write(self, ex, st, m, kind, k, v, node):
        ex.oblige(st, f'line {node.lineno}: the ledger is written only under the condition lock', self.lock.held(st) >= 1)
        if kind == 'set':
            ex.oblige(st, f'line {node.lineno}: [C06] the backlog never exceeds capacity (the insert happens with |ledger| < capacity, checked under the same lock hold)', m.size(st) <= self.cap)
            ex.oblige(st, f'line {node.lineno}: [C02] the ledger gains exactly uid -> this request\'s future, under a uid that was not a key',
                      z3.And(k == V.intv(st.ghost['my_uid']), z3.BoolVal(len(self.futs) == 1), v == self.futs[0].val() if self.futs else z3.BoolVal(False),
                             st.ghost['my_uid'] >= 0))
            st.ghost['inserted'] = z3.BoolVal(True)

    def on_put(self, ex, st, q, k, item, node):
        item = unbox_handle(ex, item)
        ok = isinstance(item, PyTuple) and len(item.items) == 2
        ex.oblige(st, f'line {node.lineno}: [C02] the input buffer gains exactly (uid, x), and the request is already recorded in the ledger before it is handed to the pipeline',
                  z3.And(z3.BoolVal(ok), box(ex, item.items[0]) == V.intv(st.ghost['my_uid']), box(ex, item.items[1]) == self.x,
                         z3.Select(self.ledger.arr(st), V.intv(st.ghost['my_uid'])) == self.futs[0].val() if self.futs else z3.BoolVal(False),
                         st.ghost['inserted']) if ok else z3.BoolVal(False))
        st.ghost['writes'] = st.ghost['writes'] + 1
        st.ghost['put_done'] = z3.BoolVal(True)

    @property
    def loops(self):
        return {0: LoopSpec(inv=lambda s, ex: z3.And(self.lock.held(s) == 1, s.ghost['writes'] == 0, z3.Not(s.ghost['put_done']), z3.Not(s.ghost['inserted']),
                                                      s.ghost['my_uid'] >= 0, s.ghost['clock'] >= s.ghost['t_entry'],
                                                      s.ghost['clock'] <= s.ghost['t_entry'] + self.timeout * 0.99,
                                                      z3.Select(self.ledger.arr(s), V.intv(s.ghost['my_uid'])) == Absent,
                                                      z3.Implies(self.kk >= s.ghost['next_uid'], z3.Select(self.ledger.arr(s), V.intv(self.kk)) == Absent)),
                            keep=('pipeline', 't0', 'fut', 'uid'), keep_ghost=('my_uid', 'next_uid', 't_entry', 'q.nput', 'inbuf.nput'))}

    def post(self, ex, outs):
        for k, s, p in outs:
            ex.oblige(s, f'exit({k}): the condition lock is released', self.lock.held(s) == 0)
            if k in ('normal', 'return'):
                ex.oblige(s, 'exit(accepted): returns the request\'s future; exactly two writes (ledger, input buffer)',
                          z3.And(z3.BoolVal(len(self.futs) == 1 and unbox_handle(ex, p) is self.futs[0]), s.ghost['writes'] == 2, s.ghost['put_done']))
                ex.oblige(s, 'exit(accepted): uid-freshness invariant preserved (pointwise: a key not yet issued is absent)',
                          z3.Implies(self.kk >= s.ghost['next_uid'], z3.Select(self.ledger.arr(s), V.intv(self.kk)) == Absent))
                # [C07] the deadline the waiter will use (_wait_for_result reads fut.data['deadline']) is entry time + the caller's timeout, exactly -- 0 included
                from pyvc.core import DictVal, as_num
                d = unbox_handle(ex, s.ghost['fut_data_assigned']) if 'fut_data_assigned' in s.ghost else None
                if isinstance(d, DictVal) and 'deadline' in d.items and 't0' in d.items:
                    t0v = d.items['t0']
                    ex.oblige(s, 'exit(accepted): [C07] the request carries its deadline: time of entry + the caller\'s timeout, exactly (a timeout of 0 is 0), for the waiter to use',
                              z3.And(d.items['deadline'] == t0v + self.timeout, t0v >= s.ghost['t_entry'], t0v <= s.ghost['clock']) if z3.is_expr(t0v) and z3.is_expr(d.items['deadline']) and t0v.sort() == z3.RealSort() and d.items['deadline'].sort() == z3.RealSort() else z3.BoolVal(False))
                else:
                    ex.oblige(s, 'exit(accepted): [C07] the request carries its deadline (fut.data has t0 and deadline)', False)
            elif k == 'raise':
                ex.oblige(s, 'exit(rejected): only ServerBacklogFull, and the request leaves no trace (no write to the ledger or the input buffer)',
                          z3.And(V.isinst(p, 'ServerBacklogFull'), s.ghost['writes'] == 0, z3.Not(s.ghost['put_done'])))
                ex.oblige(s, 'exit(rejected): with back-pressure the request is rejected at once (no wait on the path)',
                          z3.Implies(self.bp, z3.BoolVal(s.ghost.get('#waits', 0) == 0)))
                ex.oblige(s, 'exit(rejected): without back-pressure the caller waited no longer than its timeout',
                          z3.Implies(z3.Not(self.bp), s.ghost['clock'] <= z3.If(s.ghost['t_entry'] + self.timeout >= s.ghost['t_entry'], s.ghost['t_entry'] + self.timeout, s.ghost['t_entry'])))


class AEnqueueUnit(EnqueueUnit):
    """AsyncServer._enqueue: same contract; `await asyncio.wait_for(cond.wait(), t)` is the timed wait (raises TimeoutError at expiry).
    Other coroutines interleave only at the await; the gather THREAD still pops the ledger at any moment."""
    qual = 'AsyncServer._enqueue'
    is_async = True
    canaries = (
        ('pinned-tree C06 defect: `if` instead of `while` around wait', '            while len(pipeline) >= self._capacity:', '            if len(pipeline) >= self._capacity:', 'never exceeds capacity'),
        ('pinned-tree C02 defect: enqueue before recording', '            pipeline[uid] = fut\n            self._input_buffer.put((uid, x))', '            self._input_buffer.put((uid, x))\n            pipeline[uid] = fut', 'recorded in the ledger before'),
    )

    def extra(self, ex, st):
        def mkfut(e, s, a, k, n):
            f = SharedFuture(e, 'fut', other_may_cancel=False)
            s = s.fork()
            f.init(s)
            self.futs.append(f)
            return [('ok', s, f)]
        loop = Rec(ex, 'loop', methods={'create_future': Fn(mkfut)})
        ex.globals['asyncio.get_running_loop'] = Fn(lambda e, s, a, k, n: [('ok', s, loop)])
        ex.globals['asyncio.TimeoutError'] = ExcClass('TimeoutError')
        ex.globals['TimeoutError'] = ExcClass('mp.TimeoutError')

    def on_call(self, ex, st, e, src):
        if src == 'asyncio.wait_for':
            inner = e.args[0]
            if not (isinstance(inner, ast.Call) and ast.unparse(inner.func) == 'self._pipeline_notfull.wait' and not inner.args):
                raise Unsupported('asyncio.wait_for shape')

            def f(s, t):
                outs = []
                for k, s2, v in self.cond.m_wait(ex, s, [t], {}, e):
                    if k == 'ok' and z3.is_false(z3.simplify(v)):
                        outs.append(ex.raise_new(s2, 'TimeoutError'))
                    else:
                        outs.append((k, s2, v))
                return outs
            return ex.bind(ex.ev(e.args[1], st), f)
        return None


class BacklogUnit(Unit):
    prop = 'C06'
    file = F
    qual = 'Server.backlog'
    canaries = (('backlog reports capacity', 'return len(self._uid_to_futures)', 'return self._capacity', 'size of the ledger'),)

    def setup(self, ex):
        st = St()
        self.n0 = z3.Int('n0')
        self.ledger = SharedMap(ex, 'ledger').init(st, z3.Const('L0', z3.ArraySort(Val, Val)), self.n0)
        st.env['self'] = Rec(ex, 'self', immutable=True).init(st, _uid_to_futures=self.ledger, _capacity=z3.Int('capacity'))
        return st

    def post(self, ex, outs):
        for k, s, p in outs:
            if k in ('normal', 'return'):
                ex.oblige(s, 'exit: backlog is the size of the ledger at the instant of the read', p == self.n0)
            else:
                ex.oblige(s, 'exit: never raises', False)


# ================================================================ gather thread
class GatherUnit(Unit):
    prop = 'C07'
    file = F
    qual = 'Server._gather_output'
    expected_exits = ('normal',)
    ignore_stmts = (r"fut\.data\['t2'\] = .*",)
    inlined_defs = ()
    canaries = (
        ('pinned-tree C07 defect: check-then-act on the future', 'if fut.set_running_or_notify_cancel():', 'if not fut.cancelled():', 'no exception escapes'),
        ('return value of the claim ignored', 'if fut.set_running_or_notify_cancel():', 'fut.set_running_or_notify_cancel()\n                if True:', 'no exception escapes'),
        ('slot not returned for abandoned requests', "                fut.data['t2'] = perf_counter()\n                q_notify.put(1)", "                fut.data['t2'] = perf_counter()\n                if not fut.cancelled():\n                    q_notify.put(1)", 'one notification'),
        ('resolves with the previous result', '                uid, y = z\n', '                uid, y2 = z\n                y, prev = (prev if prev is not None else y2), y2\n', ''),
        ('exception set as a result', '                        fut.set_exception(y)', '                        fut.set_result(y)', 'with its own outcome'),
    )

    def setup(self, ex):
        st = St()
        self.qout = QueueReader(ex, 'q_out')
        self.qout.init(st)
        self.L0 = z3.Const('ledger0', z3.ArraySort(Val, Val))
        self.ledger = SharedMap(ex, 'ledger').init(st, self.L0, z3.Int('n0'))
        self.lock = Lock(ex, 'notfull_lock').init(st)
        self.cond = Condition(ex, self.lock, '_pipeline_notfull').init(st)
        self.cap = z3.Int('capacity')
        st.assume(self.cap >= 1)
        self.me = Rec(ex, 'self', immutable=True).init(st, _q_out=self.qout, _uid_to_futures=self.ledger, _pipeline_notfull=self.cond, _capacity=self.cap)
        st.env['self'] = self.me
        self.qn = QueueWriter(ex, 'q_notify')
        self.qn.init(st)
        ex.globals['queue.SimpleQueue'] = Fn(lambda e, s, a, k, n: [('ok', s, self.qn)])
        ex.globals['Thread'] = ThreadCtor()
        ex.globals['perf_counter'] = GhostClock()
        st.ghost['clock'] = z3.RealVal(0)
        ex.globals['RemoteException'] = ExcClass('RemoteException')
        st.ghost['none_got'] = z3.BoolVal(False)
        st.ghost['pops'] = z3.IntVal(0)
        st.ghost['notifs'] = z3.IntVal(0)
        st.ghost['end_put'] = z3.BoolVal(False)
        # the future of the request being answered: shared with its caller, who may cancel it at any moment
        self.fut = SharedFuture(ex, 'fut', other_may_cancel=True)
        self.fut.init(st, fresh('fut_state0', z3.IntSort()))
        self.exc_of = z3.Function('RemoteException_exc', Val, Val)
        ex.sym_models['y'] = self
        outer = self

        class FutProxy:
            """the value popped from the ledger IS the caller's future (path condition: entry present == self.fut)"""

            def getattr(self_, ex2, st2, base, attr, node):
                from pyvc.core import BoundMethod
                ex2.oblige(st2, f'line {node.lineno}: the object acted upon is the future popped for the received uid', base == outer.fut.val())
                if attr == 'data':
                    from pyvc.models import FutData
                    return [('ok', st2, FutData())]
                return [('ok', st2, BoundMethod(outer.fut, attr))]

            def setattr(self_, ex2, st2, base, attr, v, node):
                return [('ok', st2.fork(), None)]
        ex.sym_models['fut'] = FutProxy()
        return st

    # `y.exc` of a RemoteException
    def getattr(self, ex, st, base, attr, node):
        if attr == 'exc':
            e = self.exc_of(base)
            st = st.fork().assume(V.isinst(e, 'BaseException'), *V.cls_facts(e))
            return [('ok', st, e)]
        raise Unsupported(f'y.{attr}')

    def interfere(self, ex, st, m, node):
        # other roles insert other requests / nothing else pops: the entry of the uid being answered is stable until this thread pops it
        A1 = fresh('ledger', z3.ArraySort(Val, Val))
        if 'cur_uid' in st.ghost:
            st.assume(z3.Select(A1, st.ghost['cur_uid']) == z3.Select(m.arr(st), st.ghost['cur_uid']))
        m.set(st, 'arr', A1)
        m.set(st, 'size', fresh('ledger_size', z3.IntSort()))

    def on_get(self, ex, st, q, k, z, node):
        ex.oblige(st, f'line {node.lineno}: nothing is read after the end marker', z3.Not(st.ghost['none_got']))
        s1 = st.fork().assume(z == NONE)
        s1.ghost['none_got'] = z3.BoolVal(True)
        s2 = st.fork()
        uid, y = fresh('uid'), fresh('y')
        s2.assume(V.is_intv(uid))       # request ids are the ints minted by _enqueue (next(itertools.count())), carried unchanged through every stage (worker / servlet units)
        s2.assume(z == V.tup(V.seq_of([uid, y])), *V.cls_facts(y), *V.cls_facts(z))
        s2.ghost['cur_uid'] = uid
        s2.ghost['cur_y'] = y
        # the ledger entry of an in-flight uid is the caller's future (recorded before the request entered the pipeline: unit _enqueue);
        # a uid whose entry is gone (duplicate output) is the logged-and-skipped path
        present = fresh('entry_present', z3.BoolSort())
        s2.assume(z3.Select(self.ledger.arr(s2), uid) == z3.If(present, self.fut.val(), Absent))
        self.fut.set(s2, 'state', fresh('fut_state', z3.IntSort()))
        s2.assume(z3.Or(self.fut.state(s2) == PENDING, self.fut.state(s2) == CANCELLED))     # only this thread resolves it, once (entry popped first)
        s2.ghost['resolved'] = z3.IntVal(0)
        s2.ghost['popped_this'] = z3.BoolVal(False)
        s2.ghost['notified_this'] = z3.IntVal(0)
        return [s1, s2]

    def after_map_write(self, ex, st, m, kind, k, v, node):
        ex.oblige(st, f'line {node.lineno}: [C06] the gather thread removes exactly the entry of the uid it received', z3.And(z3.BoolVal(kind == 'pop'), k == st.ghost['cur_uid']))
        st.ghost['pops'] = st.ghost['pops'] + 1
        st.ghost['popped_this'] = z3.BoolVal(True)

    def on_put(self, ex, st, q, k, item, node):
        z = box(ex, item)
        if z3.is_true(z3.simplify(z == NONE)):
            st.ghost['end_put'] = z3.BoolVal(True)
        else:
            st.ghost['notifs'] = st.ghost['notifs'] + 1
            st.ghost['notified_this'] = st.ghost.get('notified_this', z3.IntVal(0)) + 1

    def on_thread_start(self, ex, st, t, node):
        from pyvc.core import Closure
        ex.oblige(st, f'line {node.lineno}: the notification thread runs the local `notify` loop', z3.BoolVal(isinstance(t.target, Closure) and t.target.node.name == 'notify'))

    @property
    def loops(self):
        def inv(s, ex):
            return z3.And(z3.Not(s.ghost['none_got']), s.ghost['pops'] == s.ghost['notifs'], z3.Not(s.ghost['end_put']),
                          *[z3.And(t.get(s, 'started'), z3.Not(t.get(s, 'joined'))) for t in ex.objs.values() if isinstance(t, ThreadObj)])

        def back(s, ex):
            y = s.ghost['cur_y']
            yy = z3.If(V.isinst(y, 'RemoteException'), self.exc_of(y), y)
            popped = s.ghost['popped_this']
            st_ = self.fut.state(s)
            ex.oblige(s, 'iteration: [C06] every popped entry gives its slot back: exactly one notification per pop, for every outcome kind incl. cancelled futures',
                      s.ghost['notified_this'] == z3.If(popped, 1, 0))
            ex.oblige(s, 'iteration: [C02/C04] the future of that uid is resolved with its own outcome (exception set as exception, RemoteException unwrapped), at most once; a cancelled one is left alone',
                      z3.Implies(popped, z3.Or(z3.And(st_ == FINISHED, self.fut.get(s, 'val') == yy, self.fut.get(s, 'is_exc') == V.isinst(yy, 'BaseException'), s.ghost['resolved'] == 1),
                                               z3.And(st_ == CANCELLED, s.ghost['resolved'] == 0))))
        sp = LoopSpec(inv=inv, keep=('q_out', 'pipeline', 'q_notify', 'notification_thread', 'notify'))
        sp.on_backedge = back
        return {0: sp}

    def post(self, ex, outs):
        for k, s, p in outs:
            if k == 'raise':
                ex.oblige(s, 'exit: [C07] no exception escapes the gather loop, whatever the caller does to its future (cancel at any moment)', False)
                continue
            th = [t for t in ex.objs.values() if isinstance(t, ThreadObj)]
            ex.oblige(s, 'exit: only on the end marker; the notification thread was told to stop and has been joined [C11]',
                      z3.And(s.ghost['none_got'], s.ghost['end_put'], *[t.get(s, 'joined') for t in th], z3.BoolVal(len(th) == 1)))


class NotifyUnit(Unit):
    prop = 'C06'
    file = F
    qual = 'Server._gather_output.<locals>.notify'
    canaries = (('notifies without the lock', '                with pipeline_notfull:\n                    pipeline_notfull.notify()', '                pipeline_notfull.notify()', 'with its lock held'),)

    def setup(self, ex):
        st = St()
        self.q = QueueReader(ex, 'q_notify')
        self.q.init(st)
        self.lock = Lock(ex, 'notfull_lock').init(st)
        self.cond = Condition(ex, self.lock, '_pipeline_notfull').init(st)
        st.cells['q_notify'] = self.q
        st.cells['self'] = Rec(ex, 'self', immutable=True).init(st, _pipeline_notfull=self.cond)
        st.ghost['none_got'] = z3.BoolVal(False)
        return st

    def on_get(self, ex, st, q, k, z, node):
        s1 = st.fork().assume(z == NONE)
        s1.ghost['none_got'] = z3.BoolVal(True)
        return [s1, st.fork().assume(z != NONE)]

    @property
    def loops(self):
        return {0: LoopSpec(inv=lambda s, ex: z3.And(self.cond.get(s, 'notifies') == self.q.nget(s), z3.Not(s.ghost['none_got']), self.lock.held(s) == 0),
                            keep=('q', 'pipeline_notfull'))}

    def post(self, ex, outs):
        for k, s, p in outs:
            if k in ('normal', 'return'):
                ex.oblige(s, 'exit: one notify on the not-full condition per freed slot; ends on the end marker; lock released',
                          z3.And(self.cond.get(s, 'notifies') == self.q.nget(s) - 1, s.ghost['none_got'], self.lock.held(s) == 0))
            else:
                ex.oblige(s, 'exit: never raises', False)


# ================================================================ caller waiting for its result
class WaitUnit(Unit):
    prop = 'C07'
    file = F
    qual = 'Server._wait_for_result'
    ignore_stmts = (r"fut\.data\['t_cancelled'\] = .*",)
    expected_exits = ('normal', 'raise')
    canaries = (('timed-out request not cancelled', '            fut.cancel()\n', '', 'cancelled'),)

    def setup(self, ex):
        st = St()
        self.ok, self.val, self.exc = z3.Bool('resolved_ok'), z3.Const('res_val', Val), z3.Const('res_exc', Val)
        st.assume(V.isinst(self.exc, 'BaseException'), *V.cls_facts(self.exc), z3.Not(V.isinst(self.exc, 'TimeoutError')))
        st.ghost['cancel_called'] = z3.BoolVal(False)
        st.ghost['timed_out'] = z3.BoolVal(False)

        def result(e, s, a, k, n):
            outs = []
            s1 = s.fork().assume(self.ok)
            outs.append(('ok', s1, self.val))
            s2 = s.fork().assume(z3.Not(self.ok))
            outs.append(('raise', s2, self.exc))
            s3 = s.fork()
            s3.ghost['timed_out'] = z3.BoolVal(True)
            outs.append(e.raise_new(s3, 'TimeoutError'))
            return outs

        def cancel(e, s, a, k, n):
            s = s.fork()
            s.ghost['cancel_called'] = z3.BoolVal(True)
            return [('ok', s, fresh('cancel_ret', z3.BoolSort()))]
        fut = Rec(ex, 'fut', methods={'result': Fn(result, trusted='Future.result(timeout) returns/raises the outcome or raises TimeoutError at the deadline'),
                                      'cancel': Fn(cancel)})
        fut.getattr_orig = fut.getattr

        def ga(ex2, st2, name, node):
            if name == 'data':
                from pyvc.models import FutData
                return [('ok', st2, FutData())]
            return fut.getattr_orig(ex2, st2, name, node)
        fut.getattr = ga
        st.env['fut'] = fut
        st.env['self'] = Rec(ex, 'self', immutable=True)
        ex.globals['perf_counter'] = GhostClock()
        st.ghost['clock'] = z3.RealVal(0)
        ex.globals['TimeoutError'] = ExcClass('mp.TimeoutError')
        ex.globals['concurrent.futures.TimeoutError'] = ExcClass('TimeoutError')
        return st

    def post(self, ex, outs):
        for k, s, p in outs:
            if k in ('normal', 'return'):
                ex.oblige(s, 'exit(return): the request\'s own result', z3.And(self.ok, box(ex, p) == self.val, z3.Not(s.ghost['cancel_called'])))
            else:
                own = z3.And(z3.Not(self.ok), p == self.exc, z3.Not(s.ghost['timed_out']))
                late = z3.And(s.ghost['timed_out'], V.isinst(p, 'mp.TimeoutError'), s.ghost['cancel_called'])
                ex.oblige(s, 'exit(raise): the request\'s own exception, or -- only when its deadline passed -- TimeoutError to its own caller after the future was cancelled (so the late result is discarded)',
                          z3.Or(own, late))


class C06Lemma(LemmaUnit):
    prop = 'C06'
    qual = 'lemma(C06)'

    def lemmas(self):
        accepted, emerged, ledger = z3.Ints('accepted emerged ledger_size')
        yield ('ledger size == accepted - emerged (one insert per accepted request: _enqueue; one pop per emerged result, for every outcome kind: _gather_output) => an idle server (every accepted request has emerged) has backlog 0',
               [ledger == accepted - emerged, accepted == emerged], ledger == 0)



class AGatherUnit(Unit):
    """AsyncServer._gather_output (a thread next to the event loop): pops exactly the entry of the uid received, schedules on the loop the resolution of
    THAT future with its own outcome (RemoteException unwrapped; exception as exception) unless it is found cancelled, schedules exactly one slot
    notification per pop, and never raises whatever the caller does to its future (the resolution itself runs later on the loop: if the caller
    cancelled in between, asyncio reports InvalidStateError to the loop's exception handler -- nothing propagates into this thread)."""
    prop = 'C07'
    file = F
    qual = 'AsyncServer._gather_output'
    expected_exits = ('normal',)
    coroutines_are_objects = True
    inlined_defs = ('notify',)
    ignore_stmts = (r"fut\.data\['t2'\] = .*",)
    canaries = (('resolved with something else than its own outcome', 'loop.call_soon_threadsafe(fut.set_result, y)', 'loop.call_soon_threadsafe(fut.set_result, uid)', 'own outcome'),
                ('a falsy result (0, empty list, None) is never delivered', '            if not fut.cancelled():\n                if isinstance(y, RemoteException):', '            if not fut.cancelled() and y:\n                if isinstance(y, RemoteException):', 'exactly one resolution'),
                ('exception scheduled as a result', 'loop.call_soon_threadsafe(fut.set_exception, y)', 'loop.call_soon_threadsafe(fut.set_result, y)', 'own outcome'),
                ('slot not returned for abandoned requests', '            f = asyncio.run_coroutine_threadsafe(notify(), loop)', '            if fut.cancelled():\n                continue\n            f = asyncio.run_coroutine_threadsafe(notify(), loop)', 'one notification'),
                ('resolution performed directly in the gather thread (raises when the caller cancelled)', 'loop.call_soon_threadsafe(fut.set_result, y)', 'fut.set_result(y)', ''))

    def setup(self, ex):
        st = St()
        self.qout = QueueReader(ex, 'q_out')
        self.qout.init(st)
        self.ledger = SharedMap(ex, 'ledger').init(st, z3.Const('ledger0', z3.ArraySort(Val, Val)), z3.Int('n0'))
        self.notifs = SharedMap(ex, 'notifications').init(st)
        class CondModel(Obj):
            """asyncio.Condition used only by the scheduled coroutine: `async with cond: cond.notify()` wakes one waiting enqueuer"""

            def havoc(self_, e, s):
                pass

            def cm_enter(self_, e, s, node):
                s = s.fork()
                s.ghost['cond_held'] = True
                return [('ok', s, self_)]

            def cm_exit(self_, e, s, node, outcome):
                s = s.fork()
                s.ghost['cond_held'] = False
                return [('ok', s, False)]

            def m_notify(self_, e, s, a, k, n):
                e.oblige(s, f'line {n.lineno}: the condition is notified while holding it', z3.BoolVal(bool(s.ghost.get('cond_held'))))
                s = s.fork()
                s.ghost['notified_this'] = s.ghost['notified_this'] + 1
                return [('ok', s, NONE)]
        self.cap = z3.Int('capacity')
        st.assume(self.cap >= 1)
        self.me = Rec(ex, 'self', immutable=True).init(st, _q_out=self.qout, _uid_to_futures=self.ledger, _pipeline_notfull=CondModel(ex, 'cond'), _pipeline_notfull_notifications=self.notifs, _capacity=self.cap)
        st.env['self'] = self.me
        ex.globals['perf_counter'] = GhostClock()
        st.ghost['clock'] = z3.RealVal(0)
        ex.globals['RemoteException'] = ExcClass('RemoteException')
        st.ghost['none_got'] = z3.BoolVal(False)
        self.fut = SharedFuture(ex, 'fut', other_may_cancel=True)
        self.fut.init(st, fresh('fut_state0', z3.IntSort()))
        self.exc_of = z3.Function('RemoteException_exc', Val, Val)
        ex.sym_models['y'] = self
        outer = self
        st.ghost['sched'] = ()
        st.ghost['notified_this'] = z3.IntVal(0)
        st.ghost['popped_this'] = z3.BoolVal(False)

        class FutProxy:
            def getattr(self_, ex2, st2, base, attr, node):
                from pyvc.core import BoundMethod
                ex2.oblige(st2, f'line {node.lineno}: the object acted upon is the future popped for the received uid', base == outer.fut.val())
                if attr == 'data':
                    from pyvc.models import FutData
                    return [('ok', st2, FutData())]
                return [('ok', st2, BoundMethod(outer.fut, attr))]
        ex.sym_models['fut'] = FutProxy()

        def call_soon(e, s, a, k, n):
            from pyvc.core import BoundMethod
            s = s.fork()
            m = unbox_handle(e, a[0])
            ok = isinstance(m, BoundMethod) and m.obj is self.fut and m.name in ('set_result', 'set_exception') and len(a) == 2
            e.oblige(s, f'line {n.lineno}: what is scheduled on the loop is set_result/set_exception of the future popped for this uid', z3.BoolVal(bool(ok)))
            if ok:
                s.ghost['sched'] = s.ghost['sched'] + ((m.name, box(e, a[1])),)
            return [('ok', s, NONE)]
        st.env['loop'] = Rec(ex, 'loop', immutable=True, methods={'call_soon_threadsafe': Fn(call_soon, trusted='loop.call_soon_threadsafe never raises while the loop is open; the callback runs later on the loop, its exceptions go to the loop exception handler')})

        def run_coro(e, s, a, k, n):
            # the coroutine runs LATER on the loop: the caller may have cancelled its future meanwhile (the future model applies that interference at
            # every access); an exception inside it ends it there and goes to the concurrent future nobody reads -- nothing propagates to this thread
            from pyvc.core import CoroutineObj
            co = unbox_handle(e, a[0])
            e.oblige(s, f'line {n.lineno}: what is scheduled is a local coroutine, on the server\'s loop', z3.BoolVal(isinstance(co, CoroutineObj) and unbox_handle(e, a[1]) is st.env['loop']))
            if not isinstance(co, CoroutineObj):
                return [('ok', s, Rec(e, 'cf', immutable=True, methods={'add_done_callback': Nop()}))]
            before = s.ghost['notified_this']
            outs = []
            for kind, s2, v in e.inline(s.fork(), co.clo, co.args, co.kwargs, n):
                e.oblige(s2, f'line {n.lineno}: [C06/C07] the scheduled coroutine notifies the freed slot exactly once on EVERY path -- also when the caller has cancelled its future in the meantime '
                             '(an exception inside the coroutine would end it before the notification: a waiting enqueuer would never be woken)',
                         z3.And(z3.BoolVal(kind == 'ok'), s2.ghost['notified_this'] == before + 1))
                s2 = s2.fork()
                s2.ghost['notified_this'] = before + 1 if kind != 'ok' else s2.ghost['notified_this']
                outs.append(('ok', s2, Rec(e, 'cf', immutable=True, methods={'add_done_callback': Nop()})))
            return outs
        ex.globals['asyncio.run_coroutine_threadsafe'] = Fn(run_coro)
        return st

    def getattr(self, ex, st, base, attr, node):
        if attr == 'exc':
            e = self.exc_of(base)
            st = st.fork().assume(V.isinst(e, 'BaseException'), *V.cls_facts(e))
            return [('ok', st, e)]
        raise Unsupported(f'y.{attr}')

    def interfere(self, ex, st, m, node):
        if m is not self.ledger:
            return
        A1 = fresh('ledger', z3.ArraySort(Val, Val))
        if 'cur_uid' in st.ghost:
            st.assume(z3.Select(A1, st.ghost['cur_uid']) == z3.Select(m.arr(st), st.ghost['cur_uid']))
        m.set(st, 'arr', A1)
        m.set(st, 'size', fresh('ledger_size', z3.IntSort()))

    def on_get(self, ex, st, q, k, z, node):
        ex.oblige(st, f'line {node.lineno}: nothing is read after the end marker', z3.Not(st.ghost['none_got']))
        s1 = st.fork().assume(z == NONE)
        s1.ghost['none_got'] = z3.BoolVal(True)
        s2 = st.fork()
        uid, y = fresh('uid'), fresh('y')
        s2.assume(V.is_intv(uid))       # request ids are the ints minted by _enqueue (next(itertools.count())), carried unchanged through every stage (worker / servlet units)
        s2.assume(z == V.tup(V.seq_of([uid, y])), *V.cls_facts(y), *V.cls_facts(z))
        s2.ghost['cur_uid'] = uid
        s2.ghost['cur_y'] = y
        present = fresh('entry_present', z3.BoolSort())
        s2.assume(z3.Select(self.ledger.arr(s2), uid) == z3.If(present, self.fut.val(), Absent))
        self.fut.set(s2, 'state', fresh('fut_state', z3.IntSort()))
        s2.assume(z3.Or(self.fut.state(s2) == PENDING, self.fut.state(s2) == CANCELLED))
        s2.ghost['sched'] = ()
        s2.ghost['popped_this'] = z3.BoolVal(False)
        s2.ghost['notified_this'] = z3.IntVal(0)
        s2.ghost['seen_cancelled'] = None
        s2.ghost['cancelled_seen'] = ()
        return [s1, s2]

    def after_map_write(self, ex, st, m, kind, k, v, node):
        if m is self.ledger:
            ex.oblige(st, f'line {node.lineno}: [C06] the gather thread removes exactly the entry of the uid it received', z3.And(z3.BoolVal(kind == 'pop'), k == st.ghost['cur_uid']))
            st.ghost['popped_this'] = z3.BoolVal(True)

    @property
    def loops(self):
        def back(s, ex):
            y = s.ghost['cur_y']
            yy = z3.If(V.isinst(y, 'RemoteException'), self.exc_of(y), y)
            popped = s.ghost['popped_this']
            sched = s.ghost['sched']
            ex.oblige(s, 'iteration: [C06] every popped entry gives its slot back: exactly one notification per pop, for every outcome kind incl. cancelled futures', s.ghost['notified_this'] == z3.If(popped, 1, 0))
            if len(sched) == 0:
                # nothing scheduled: only when the entry was missing, or the future WAS FOUND CANCELLED (some cancelled() call of this iteration answered True) --
                # never because of what the outcome is (a falsy result -- 0, '', [], None -- is an outcome like any other)
                seen = s.ghost.get('cancelled_seen', ())
                g = z3.Implies(popped, z3.Or(*seen) if seen else z3.BoolVal(False))
            elif len(sched) == 1:
                g = z3.And(popped, sched[0][1] == yy, z3.BoolVal(sched[0][0] == 'set_exception') == V.isinst(yy, 'BaseException'))
            else:
                g = z3.BoolVal(False)
            ex.oblige(s, 'iteration: [C02/C04] exactly one resolution is scheduled -- none only when the future was found cancelled or its entry was missing --, for the future of that uid, with its own outcome, whatever its value (exception as exception, RemoteException unwrapped)', g)
        sp = LoopSpec(inv=lambda s, ex: z3.Not(s.ghost['none_got']), keep=('q_out', 'pipeline', 'pipeline_notfull', 'notifications', 'notify'))
        sp.on_backedge = back
        return {0: sp}

    def post(self, ex, outs):
        for k, s, p in outs:
            if k == 'raise':
                ex.oblige(s, 'exit: [C07] no exception escapes the gather loop, whatever the caller does to its future (cancel at any moment)', False)
            else:
                ex.oblige(s, 'exit: only on the end marker', s.ghost['none_got'])


# ================================================================ public entry points: thin wrappers (C02: own input -> own result)
class CallUnit(Unit):
    """Server.call(x): the result of waiting on the future that _enqueue returned for THIS x (with the caller's timeout / backpressure)."""
    prop = 'C02'
    file = F
    qual = 'Server.call'
    is_async = False
    assumed_contracts = ('self._enqueue: unit Server._enqueue', 'self._wait_for_result: unit Server._wait_for_result')
    canaries = (('waits on a future of another call', 'return self._wait_for_result(fut)', 'return self._wait_for_result(self._enqueue(None, timeout, backpressure))', ''),
                ('backpressure flag dropped', 'fut = self._enqueue(x, timeout, backpressure)', 'fut = self._enqueue(x, timeout, True)', ''))

    def setup(self, ex):
        st = St()
        self.x, self.timeout, self.bp = z3.Const('x', Val), z3.Const('timeout', Val), z3.Const('backpressure', Val)
        self.fut_of = z3.Function('future_of_enqueue', Val, Val, Val, Val)
        self.wait_of = z3.Function('wait_for_result', Val, Val)
        st.ghost['enq'] = ()
        st.ghost['waits'] = ()

        def enqueue(e, s, a, k, n):
            s = s.fork()
            args = [box(e, v) for v in a] + [box(e, k[kk]) for kk in ('timeout', 'backpressure') if kk in k]
            s.ghost['enq'] = s.ghost['enq'] + (tuple(args),)
            exc = fresh('enqueue_exc')
            s2 = s.fork().assume(V.isinst(exc, 'Exception'), *V.cls_facts(exc))
            return [('ok', s, self.fut_of(*args)) if len(args) == 3 else ('ok', s, fresh('bad_future')), ('raise', s2, exc)]

        def wait(e, s, a, k, n):
            s = s.fork()
            s.ghost['waits'] = s.ghost['waits'] + (box(e, a[0]),)
            exc = fresh('wait_exc')
            s2 = s.fork().assume(V.isinst(exc, 'BaseException'), *V.cls_facts(exc))
            return [('ok', s, self.wait_of(box(e, a[0]))), ('raise', s2, exc)]
        st.env.update(self=Rec(ex, 'self', immutable=True, methods={'_enqueue': Fn(enqueue), '_wait_for_result': Fn(wait)}), x=self.x, timeout=self.timeout, backpressure=self.bp)
        return st

    def post(self, ex, outs):
        f = self.fut_of(self.x, self.timeout, self.bp)
        for k, s, p in outs:
            enq, waits = s.ghost['enq'], s.ghost['waits']
            ok = len(enq) == 1 and len(enq[0]) == 3
            own = z3.And(enq[0][0] == self.x, enq[0][1] == self.timeout, enq[0][2] == self.bp) if ok else z3.BoolVal(False)
            if k in ('normal', 'return'):
                ex.oblige(s, 'exit: enqueues its own x once (own timeout, own backpressure flag) and returns the outcome of waiting on exactly that future',
                          z3.And(own, z3.BoolVal(len(waits) == 1), waits[0] == f, box(ex, p) == self.wait_of(f)) if len(waits) == 1 else z3.BoolVal(False))
            else:
                ex.oblige(s, 'exit(raise): only what its own enqueue / its own wait raised', z3.And(own, z3.BoolVal(len(waits) <= 1), waits[0] == f if waits else z3.BoolVal(True)))


class ACallUnit(CallUnit):
    qual = 'AsyncServer.call'
    canaries = (('waits on a future of another call', 'return await self._wait_for_result(fut)', 'return await self._wait_for_result(await self._enqueue(None, timeout=timeout, backpressure=backpressure))', ''),)


class StreamUnit(Unit):
    """Server.stream: delegates to fifo_stream(data_stream, self._enqueue, ...) -- order and pairing are fifo_stream's contract (C01) --
    with its own flags, the server's capacity as look-ahead bound, and backpressure off (a full server makes the stream wait, not fail)."""
    prop = 'C02'
    file = F
    qual = 'Server.stream'
    fifo_name = 'fifo_stream'
    ignore_calls = ()
    assumed_contracts = ('fifo_stream(...): units C01:fifo_stream[*]', 'self._enqueue: unit Server._enqueue')
    canaries = (('stream fails fast on a full server', 'backpressure=False,', 'backpressure=True,', ''),
                ('return_x / return_exceptions swapped', 'return_x=return_x,\n            return_exceptions=return_exceptions,', 'return_x=return_exceptions,\n            return_exceptions=return_x,', ''),
                ('requests enqueued through another function', 'self._enqueue,', 'self._wait_for_result,', ''))

    def setup(self, ex):
        st = St()
        self.data, self.rx, self.rexc, self.timeout, self.pre = z3.Const('data_stream', Val), z3.Bool('return_x'), z3.Bool('return_exceptions'), z3.Const('timeout', Val), z3.Const('preprocessor', Val)
        self.cap = z3.Int('capacity')
        self.enq = z3.Const('bound_method_self._enqueue', Val)
        self.other = z3.Const('bound_method_self._wait_for_result', Val)
        me = Rec(ex, 'self', immutable=True).init(st, _enqueue=self.enq, _wait_for_result=self.other, capacity=self.cap, _capacity=self.cap,
                                                  __class__=Rec(ex, 'cls', immutable=True).init(st, __name__=z3.StringVal('Server')))
        st.env.update(self=me, data_stream=self.data, return_x=self.rx, return_exceptions=self.rexc, timeout=self.timeout, preprocessor=self.pre)
        st.ghost['fifo'] = ()
        from contracts.c01 import FifoGen

        def fifo(e, s, a, k, n):
            s = s.fork()
            s.ghost['fifo'] = s.ghost['fifo'] + ((list(a), dict(k)),)
            g = FifoGen(e, a, k)
            self.gen = g
            return [('ok', s, g)]
        ex.globals[self.fifo_name] = Fn(fifo, name=self.fifo_name)
        return st

    def post(self, ex, outs):
        for k, s, p in outs:
            calls = s.ghost['fifo']
            if len(calls) != 1:
                ex.oblige(s, f'exit: delegates exactly once to {self.fifo_name}', False)
                continue
            a, kw = calls[0]
            ok = len(a) == 2 and {'return_x', 'return_exceptions', 'capacity', 'timeout', 'backpressure', 'preprocessor'} <= set(kw)
            ex.oblige(s, f'exit({k}): delegates once to {self.fifo_name}(its own data stream, self._enqueue, ...) with its own flags/timeout/preprocessor, capacity == the server\'s capacity, backpressure=False',
                      z3.And(box(ex, a[0]) == self.data, box(ex, a[1]) == self.enq, kw['return_x'] == self.rx, kw['return_exceptions'] == self.rexc, box(ex, kw['capacity']) == V.intv(self.cap),
                             box(ex, kw['timeout']) == self.timeout, box(ex, kw['preprocessor']) == self.pre, box(ex, kw['backpressure']) == V.boolv(z3.BoolVal(False))) if ok else z3.BoolVal(False))
            if k in ('normal', 'return') and not getattr(self, 'yields', False):
                ex.oblige(s, 'exit: returns that generator itself', z3.BoolVal(unbox_handle(ex, p) is getattr(self, 'gen', None)))


class AStreamUnit(StreamUnit):
    """AsyncServer.stream: `async for z in async_fifo_stream(...): yield z` -- every element, in order, nothing else."""
    qual = 'AsyncServer.stream'
    fifo_name = 'async_fifo_stream'
    yields = True
    consumer_may_stop = False
    canaries = (('stream fails fast on a full server', 'backpressure=False,', 'backpressure=True,', ''),
                ('elements dropped', '            yield z', '            pass', 'every element'))

    def setup(self, ex):
        st = super().setup(ex)
        st.ghost['out'] = V.EMPTY
        self.src = z3.Function('fifo_out_at', z3.IntSort(), Val)
        unit = self

        class AGen(Obj):
            """the async generator returned by async_fifo_stream: yields fifo_out_at(0), fifo_out_at(1), ... then ends or raises"""

            def havoc(self_, e, s):
                pass

            def iter_start(self_, e, s, node):
                s = s.fork()
                s.ghost['gi'] = z3.IntVal(0)
                return [('ok', s, self_)]

            def havoc_index(self_, s):
                i = fresh('gi', z3.IntSort())
                s.assume(i >= 0)
                s.ghost['gi'] = i

            def idx(self_, s):
                return s.ghost['gi']

            def pull(self_, e, s, node):
                i = s.ghost['gi']
                s1 = s.fork()
                s1.ghost['gi'] = i + 1
                s2 = s.fork()
                s2.ghost['ended'] = i
                exc = fresh('fifo_exc')
                s3 = s.fork().assume(V.isinst(exc, 'BaseException'), *V.cls_facts(exc))
                return [('item', s1, unit.src(i)), ('stop', s2, None), ('raise', s3, exc)]
        self.agen = AGen(ex, 'async_fifo_stream(...)')

        def fifo(e, s, a, k, n):
            s = s.fork()
            s.ghost['fifo'] = s.ghost['fifo'] + ((list(a), dict(k)),)
            return [('ok', s, self.agen)]
        ex.globals[self.fifo_name] = Fn(fifo, name=self.fifo_name)
        return st

    @property
    def loops(self):
        def inv(s, ex):
            i = s.ghost['gi']
            out = s.ghost['out']
            j = z3.Int('any_pos')
            return z3.And(z3.Length(out) == i, z3.Implies(z3.And(j >= 0, j < i), out[j] == self.src(j)))
        return {0: LoopSpec(inv=inv)}

    def post(self, ex, outs):
        super().post(ex, outs)
        for k, s, p in outs:
            if k in ('normal', 'return'):
                j = z3.Int('any_pos')
                out = s.ghost['out']
                n = s.ghost.get('ended', z3.IntVal(-1))
                ex.oblige(s, 'exit: yielded every element of async_fifo_stream, in order, and nothing else', z3.And(z3.Length(out) == n, z3.Implies(z3.And(j >= 0, j < n), out[j] == self.src(j))))


class AWaitUnit(WaitUnit):
    """AsyncServer._wait_for_result: awaits its own future until its own deadline; on time-out cancels it and raises TimeoutError to its own caller;
    when the caller itself is cancelled the future is cancelled too (the late result is discarded by the gather thread)."""
    qual = 'AsyncServer._wait_for_result'
    canaries = (('timed-out request not cancelled', "            t0 = fut.data['t0']\n            fut.cancel()\n", "            t0 = fut.data['t0']\n", 'cancelled'),
                ('future left pending when the caller is cancelled', '        except asyncio.CancelledError:\n            fut.cancel()\n', '        except asyncio.CancelledError:\n', 'cancelled'))

    def setup(self, ex):
        st = super().setup(ex)
        fut = st.env['fut']

        def wait_for(e, s, a, k, n):
            outs = []
            ok = unbox_handle(e, a[0]) is fut
            e.oblige(s, f'line {n.lineno}: waits on its own future', z3.BoolVal(ok))
            s1 = s.fork().assume(self.ok)
            outs.append(('ok', s1, self.val))
            s2 = s.fork().assume(z3.Not(self.ok))
            outs.append(('raise', s2, self.exc))
            s3 = s.fork()
            s3.ghost['timed_out'] = z3.BoolVal(True)
            outs.append(e.raise_new(s3, 'TimeoutError'))
            s4 = s.fork()
            s4.ghost['caller_cancelled'] = z3.BoolVal(True)
            outs.append(e.raise_new(s4, 'asyncio.CancelledError'))
            return outs
        ex.globals['asyncio.wait_for'] = Fn(wait_for, trusted='asyncio.wait_for(fut, t): the outcome of fut, TimeoutError at the deadline, or CancelledError when the waiting task is cancelled')
        fut.methods['result'] = Fn(lambda e, s, a, k, n: [x for x in (('ok', s.fork().assume(self.ok), self.val), ('raise', s.fork().assume(z3.Not(self.ok)), self.exc)) if e.feasible(x[1])])
        ex.globals['asyncio.TimeoutError'] = ExcClass('TimeoutError')
        ex.globals['TimeoutError'] = ExcClass('TimeoutError')
        st.ghost['caller_cancelled'] = z3.BoolVal(False)
        st.assume(z3.Not(V.isinst(self.exc, 'asyncio.CancelledError')))
        return st

    def post(self, ex, outs):
        for k, s, p in outs:
            if k in ('normal', 'return'):
                ex.oblige(s, 'exit(return): the request\'s own result', z3.And(self.ok, box(ex, p) == self.val, z3.Not(s.ghost['cancel_called'])))
            else:
                own = z3.And(z3.Not(self.ok), p == self.exc, z3.Not(s.ghost['timed_out']), z3.Not(s.ghost['caller_cancelled']))
                late = z3.And(s.ghost['timed_out'], V.isinst(p, 'TimeoutError'), s.ghost['cancel_called'])
                gone = z3.And(s.ghost['caller_cancelled'], V.isinst(p, 'asyncio.CancelledError'), s.ghost['cancel_called'])
                ex.oblige(s, 'exit(raise): the request\'s own exception; or -- only when its deadline passed -- TimeoutError after the future was cancelled; or the caller\'s own cancellation, after the future was cancelled',
                          z3.Or(own, late, gone))


UNITS_ENTRY = [CallUnit, ACallUnit, StreamUnit, AStreamUnit]

UNITS_C06 = [EnqueueUnit, AEnqueueUnit, BacklogUnit, GatherUnit, AGatherUnit, NotifyUnit, C06Lemma]
UNITS_C07 = [GatherUnit, WaitUnit, AGatherUnit, AWaitUnit]
