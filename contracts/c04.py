"""C04 — a failing request fails alone, with its original error."""
from contracts.worker import UNITS_SINGLE, UNITS_BATCH, ASSUMPTIONS as W_ASSUMPTIONS
from contracts.server import GatherUnit
from contracts.servlet import UNITS_FORWARD
from contracts.c15 import UNITS as C15_UNITS
UNITS = list(UNITS_SINGLE) + list(UNITS_BATCH) + list(UNITS_FORWARD) + [GatherUnit] + list(C15_UNITS)
ASSUMPTIONS = tuple(W_ASSUMPTIONS)
NOT_DECIDED = ('EnsembleServlet._dequeue fail_fast / all-failed rules: bounded stand-in (runtime battery over all arrival orders of 3 members)',
               'traceback text content beyond "contains what format_exception returned" (C15)')
BOUNDED = [{'function': 'EnsembleServlet._dequeue', 'method': 'runtime scenario replay/scenarios/c02_server_battery.py', 'bound': '6 arrival orders x 6 failing-member sets x fail_fast on/off', 'counted_as_proved': False}]
SCENARIOS = [('', 'replay/scenarios/c02_server_battery.py')]
ALWAYS_RUN_SCENARIOS = True      # the ensemble rules are decided only by the bounded stand-in (about 15 s)
