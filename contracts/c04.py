"""C04 — a failing request fails alone, with its original error."""
from contracts.worker import UNITS_SINGLE, UNITS_BATCH, ASSUMPTIONS as W_ASSUMPTIONS
from contracts.server import GatherUnit, AGatherUnit
from contracts.servlet import UNITS_FORWARD, UNITS_DEQUEUE
from contracts.c15 import UNITS as C15_UNITS
from contracts.ctors import SERVLET_CTORS
UNITS = [u for u in SERVLET_CTORS if u.qual == 'EnsembleServlet.__init__'] + list(UNITS_SINGLE) + list(UNITS_BATCH) + list(UNITS_FORWARD) + list(UNITS_DEQUEUE) + [GatherUnit, AGatherUnit] + list(C15_UNITS)
ASSUMPTIONS = tuple(W_ASSUMPTIONS)
NOT_DECIDED = ('traceback text content beyond "contains what format_exception returned" (C15)',)
BOUNDED = list(__import__('contracts.c15', fromlist=['BOUNDED']).BOUNDED)        # the EnsembleError constructor/pickling branch of C15 (shared units)
SCENARIOS = [('', 'replay/scenarios/c02_server_battery.py'), ('', 'replay/scenarios/c15_hops.py')]
ALWAYS_RUN_SCENARIOS = True      # C15's EnsembleError branch is decided only by the bounded stand-in; the battery is fast
