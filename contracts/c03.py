"""C03 — stream pipelines equal their sequential meaning (one stream contract per operator)."""
import z3

from pyvc import vals as V
from pyvc.vals import Val, SeqV, NONE, fresh
from pyvc.unit import Unit, LoopSpec
from pyvc.models import (Source, UFunc, SpecFn, Rec, Deque, DequeCtor, seqof, snoc, Fn)
from pyvc.core import St, Module, box, as_seq, Unsupported

F = 'streamer/_streamer.py'


class StreamOp(Unit):
    """Common shape: `self._instream` is an arbitrary (possibly failing) source; ghost `out` collects yields."""
    prop = 'C03'
    file = F
    consumer_may_stop = True
    src_may_raise = 'BaseException'
    lookahead = 1            # at every yield: pulled - yielded <= lookahead (after the yield is counted)

    def mk_self(self, ex, st, **fields):
        self.src = Source(ex, 'src', may_raise=self.src_may_raise, fns=self.fns())
        self.src.init(st)
        me = Rec(ex, 'self', immutable=True).init(st, _instream=self.src, **fields)
        st.env['self'] = me
        st.ghost['out'] = V.EMPTY
        for f in self.fns():
            st.assume(*f.base_facts())
        return me

    def fns(self):
        return ()

    def seen(self, s):
        return self.src.seen(s)

    def out(self, s):
        return s.ghost['out']

    def live(self, s):
        return z3.And(z3.Not(self.src.done(s)), z3.Not(self.src.failed(s)))


# ---------------------------------------------------------------- map
class MapperIter(StreamOp):
    qual = 'Mapper.__iter__'
    canaries = (
        ('yield the element instead of func(element)', 'yield func(v)', 'yield v', 'invariant preserved'),
        ('apply func twice', 'yield func(v)', 'yield func(func(v))', 'invariant preserved'),
    )

    def fns(self):
        if not hasattr(self, '_fns'):
            self.f = UFunc('f', 1, raises='Exception', with_kw=False)
            self.smap = SpecFn('smap_f', lambda acc, x: z3.Concat(acc, z3.Unit(self.f.f(x))))
            self._fns = (self.smap,)
        return self._fns

    def setup(self, ex):
        st = St()
        self.fns()
        self.mk_self(ex, st, func=self.f)
        return st

    @property
    def loops(self):
        return {0: LoopSpec(inv=lambda s, ex: z3.And(self.live(s), self.out(s) == self.smap(self.seen(s)),
                                                     z3.Length(self.out(s)) == z3.Length(self.seen(s))))}

    def after_yield(self, ex, st, val, node):
        ex.oblige(st, f'line {node.lineno}: laziness: pulled - yielded <= 0 once the element is handed out',
                  z3.Length(self.seen(st)) <= z3.Length(self.out(st)))

    def post(self, ex, outs):
        for k, s, p in outs:
            if k in ('normal', 'return'):
                ex.oblige(s, 'exit(exhausted): out == map(f, input) and the source is exhausted',
                          z3.And(self.out(s) == self.smap(self.seen(s)), self.src.done(s)))
            elif k == 'raise':
                seen, out = self.seen(s), self.out(s)
                x = V.last(seen)
                from_src = z3.And(self.src.failed(s), p == s.ghost.get('src.error', p), out == self.smap(seen))
                from_f = z3.And(z3.Length(seen) > 0, z3.Not(self.f.ok(x)), p == self.f.exc(x),
                                z3.Concat(out, z3.Unit(self.f.f(x))) == self.smap(seen))
                stopped = z3.And(V.isinst(p, 'GeneratorExit'), z3.PrefixOf(out, self.smap(seen)),
                                 z3.Length(self.smap(seen)) - z3.Length(out) <= 1)
                ex.oblige(s, 'exit(raise): all earlier outputs were produced; the error is the source\'s or f\'s own, or the consumer stopped',
                          z3.Or(from_src, from_f, stopped))


# ---------------------------------------------------------------- filter
class FilterIter(StreamOp):
    qual = 'Filter.__iter__'
    canaries = (
        ('negated predicate', 'if func(v):', 'if not func(v):', 'invariant preserved'),
    )

    def fns(self):
        if not hasattr(self, '_fns'):
            self.f = UFunc('p', 1, raises='Exception', with_kw=False)
            self.sfil = SpecFn('sfilter_p', lambda acc, x: z3.If(V.truthy(self.f.f(x)), z3.Concat(acc, z3.Unit(x)), acc))
            self._fns = (self.sfil,)
        return self._fns

    def setup(self, ex):
        st = St()
        self.fns()
        self.mk_self(ex, st, func=self.f)
        return st

    @property
    def loops(self):
        return {0: LoopSpec(inv=lambda s, ex: z3.And(self.live(s), self.out(s) == self.sfil(self.seen(s))))}

    def after_yield(self, ex, st, val, node):
        ex.oblige(st, f'line {node.lineno}: the yielded element is the one just pulled (nothing buffered)',
                  val == V.last(self.seen(st)))

    def post(self, ex, outs):
        for k, s, p in outs:
            if k in ('normal', 'return'):
                ex.oblige(s, 'exit(exhausted): out == filter(p, input) and the source is exhausted',
                          z3.And(self.out(s) == self.sfil(self.seen(s)), self.src.done(s)))


# ---------------------------------------------------------------- head
class HeaderIter(StreamOp):
    qual = 'Header.__iter__'
    canaries = (
        ('off by one: n > nn', 'if n >= nn:', 'if n > nn:', 'out == input[:n]'),
        ('count not advanced', 'n += 1', 'n += 0', 'pulls at most n+1'),
    )

    def setup(self, ex):
        st = St()
        self.n = z3.Int('head_n')
        st.assume(self.n > 0)          # asserted by Header.__init__
        self.mk_self(ex, st, n=self.n)
        return st

    @property
    def loops(self):
        def inv(s, ex):
            return z3.And(self.live(s), s.env['nn'] == self.n, s.env['n'] == z3.Length(self.out(s)), self.out(s) == self.seen(s),
                          s.env['n'] <= self.n)
        return {0: LoopSpec(inv=inv)}

    def post(self, ex, outs):
        for k, s, p in outs:
            if k in ('normal', 'return'):
                seen, out = self.seen(s), self.out(s)
                ex.oblige(s, 'exit: out == input[:n]',
                          out == z3.SubSeq(seen, 0, z3.If(z3.Length(seen) < self.n, z3.Length(seen), self.n)))
                ex.oblige(s, 'exit: pulls at most n+1 elements (stops pulling after n+1)', z3.Length(seen) <= self.n + 1)
                ex.oblige(s, 'exit: either n outputs or the source is exhausted', z3.Or(z3.Length(out) == self.n, self.src.done(s)))


# ---------------------------------------------------------------- tail
class TailerIter(StreamOp):
    qual = 'Tailer.__iter__'
    canaries = (
        ('keeps n+1', 'deque(maxlen=self.n)', 'deque(maxlen=self.n + 1)', 'last n'),
        ('unbounded deque', 'deque(maxlen=self.n)', 'deque()', 'last n'),
    )

    def setup(self, ex):
        st = St()
        self.n = z3.Int('tail_n')
        st.assume(self.n > 0)
        self.mk_self(ex, st, n=self.n)
        ex.globals['deque'] = DequeCtor()
        return st

    # "out is the last n elements of the input"  <=>  input == dropped ++ out  and  len(out) == min(n, len(input)),
    # with the ghost `dropped` (what the bounded deque discarded) as the witness of the prefix.
    @property
    def loops(self):
        def inv(s, ex):
            d = s.env['data']
            q, dr = d.get(s, 'q'), d.get(s, 'dropped')
            return z3.And(self.live(s), z3.Concat(dr, q) == self.seen(s), z3.Length(q) <= self.n,
                          z3.Implies(z3.Length(dr) > 0, z3.Length(q) == self.n), self.out(s) == V.EMPTY)
        return {0: LoopSpec(inv=inv, keep=('data',))}

    def post(self, ex, outs):
        for k, s, p in outs:
            if k in ('normal', 'return'):
                d = s.env['data']
                seen, out = self.seen(s), self.out(s)
                L = z3.Length(seen)
                ex.oblige(s, 'exit: out == last n elements of the input (input == prefix ++ out, len(out) == min(n, len(input)))',
                          z3.And(seen == z3.Concat(d.get(s, 'dropped'), out), z3.Length(out) == z3.If(L < self.n, L, self.n)))
                ex.oblige(s, 'exit: the source is exhausted', self.src.done(s))


# ---------------------------------------------------------------- batch
class BatcherIter(StreamOp):
    qual = 'Batcher.__iter__'
    canaries = (
        ('drops the last partial batch', '        if batch:\n            yield batch', '        if batch:\n            pass', 'flatten(out) == input'),
        ('batch of size+1', 'if len(batch) == batch_size:', 'if len(batch) == batch_size + 1:', 'has 1..n'),
        ('batch not reset', '                yield batch\n                batch = []', '                yield batch', 'invariant preserved'),
    )

    def fns(self):
        if not hasattr(self, '_fns'):
            self.bs = z3.Int('batch_size')
            self.sflat = SpecFn('sflatten', lambda acc, v: z3.Concat(acc, seqof(v)))
            self.allfull = SpecFn('allfull', lambda acc, v: z3.And(acc, z3.Length(seqof(v)) == self.bs),
                                  result_sort=z3.BoolSort(), empty=z3.BoolVal(True))
            self._fns = ()
        return self._fns

    def setup(self, ex):
        st = St()
        self.fns()
        st.assume(self.bs > 0)
        self.mk_self(ex, st, _batch_size=self.bs)
        st.assume(*self.sflat.base_facts(), *self.allfull.base_facts())
        return st

    def on_yield(self, ex, st, val, node):
        ex.oblige(st, f'line {node.lineno}: every batch yielded before this one is full', self.allfull(st.ghost['out']))
        st.ghost['out'] = snoc(st, st.ghost['out'], val, (self.sflat, self.allfull))
        n = z3.Length(seqof(val))
        ex.oblige(st, f'line {node.lineno}: yielded batch has 1..n elements', z3.And(n >= 1, n <= self.bs, V.is_lst(val)))
        ex.oblige(st, f'line {node.lineno}: look-ahead: nothing pulled beyond the yielded batches',
                  self.sflat(st.ghost['out']) == self.seen(st))

    @property
    def loops(self):
        def inv(s, ex):
            return z3.And(self.live(s), self.allfull(self.out(s)), z3.Concat(self.sflat(self.out(s)), s.env['batch']) == self.seen(s),
                          z3.Length(s.env['batch']) < self.bs, s.env['batch_size'] == self.bs)
        return {0: LoopSpec(inv=inv)}

    def post(self, ex, outs):
        for k, s, p in outs:
            if k in ('normal', 'return'):
                out = self.out(s)
                ex.oblige(s, 'exit: flatten(out) == input (partition of the whole input, in order)', self.sflat(out) == self.seen(s))
                ex.oblige(s, 'exit: the source is exhausted', self.src.done(s))

    def exit_covers(self, ex, outs):
        super().exit_covers(ex, outs)


# ---------------------------------------------------------------- unbatch
class UnbatcherIter(StreamOp):
    qual = 'Unbatcher.__iter__'
    canaries = (
        ('yields the batch itself', 'yield from x', 'yield x', 'invariant preserved'),
    )

    def fns(self):
        if not hasattr(self, '_fns'):
            self.sflat = SpecFn('sflatten', lambda acc, v: z3.Concat(acc, seqof(v)))
            self._fns = (self.sflat,)
        return self._fns

    def setup(self, ex):
        st = St()
        self.fns()
        self.mk_self(ex, st)
        # precondition of unbatch: input elements are lists/tuples (documented; general iterables are out of the model)
        self.src.elem_facts = lambda x: [z3.Or(V.is_lst(x), V.is_tup(x))]
        return st

    @property
    def loops(self):
        return {0: LoopSpec(inv=lambda s, ex: z3.And(self.live(s), self.out(s) == self.sflat(self.seen(s))))}

    def post(self, ex, outs):
        for k, s, p in outs:
            if k in ('normal', 'return'):
                ex.oblige(s, 'exit: out == concatenation of the input lists', self.out(s) == self.sflat(self.seen(s)))
                ex.oblige(s, 'exit: the source is exhausted', self.src.done(s))


UNITS = [MapperIter, FilterIter, HeaderIter, TailerIter, BatcherIter, UnbatcherIter]


# ---------------------------------------------------------------- shuffle (permutation = multiset equality, pointwise in an arbitrary w)
class ShuffleLemmas:
    w = z3.Const('any_w', Val)
    cnt = SpecFn('cnt_w', lambda acc, x: acc + z3.If(x == z3.Const('any_w', Val), 1, 0), result_sort=z3.IntSort(),
                 empty=z3.IntVal(0)).hom(lambda p, q: p + q)


from pyvc.unit import LemmaUnit


class CountLemmas(LemmaUnit):
    prop = 'C03'
    qual = 'lemma(count)'

    def lemmas(self):
        L = ShuffleLemmas
        yield from L.cnt.hom_obligations()
        s = z3.Const('lem_s', SeqV)
        i = z3.Int('lem_i')
        n = z3.Length(s)
        yield ('sequence split: s == s[:i] ++ [s[i]] ++ s[i+1:] for 0 <= i < len(s)', [i >= 0, i < n],
               s == z3.Concat(z3.SubSeq(s, 0, i), z3.Unit(s[i]), z3.SubSeq(s, i + 1, n - i - 1)))


class RandRange(Fn):
    trusted = 'random.randrange(n) returns an int in [0, n)'

    def __init__(self):
        def f(ex, st, args, kwargs, node):
            from pyvc.core import as_int
            n = as_int(ex, st, args[0])
            r = fresh('rand', z3.IntSort())
            return [('ok', st.fork().assume(r >= 0, r < n), r)]
        super().__init__(f, trusted=self.trusted, name='random.randrange')


class ShufflerIter(StreamOp):
    qual = 'Shuffler.__iter__'
    trusted = ('random.shuffle(list) permutes the list in place (same multiset, same length)',)
    assumed_contracts = ('count/split lemmas: proved by unit C03:lemma(count)',)
    canaries = (
        ('loses the replaced element', '                yield y', '                pass', 'invariant preserved'),
        ('overwrites without yielding the old one', 'y = buffer[idx]', 'y = x', 'invariant preserved'),
        ('final buffer not flushed', 'yield from buffer', 'pass', 'permutation'),
    )

    def setup(self, ex):
        st = St()
        self.bsz = z3.Int('buffer_size')
        st.assume(self.bsz > 0)
        self.cnt = ShuffleLemmas.cnt
        st.assume(*self.cnt.base_facts())
        self.mk_self(ex, st, _buffersize=self.bsz)
        ex.globals['random'] = Module('random')
        ex.globals['random.randrange'] = RandRange()
        return st

    def fns(self):
        return (ShuffleLemmas.cnt,)

    def on_call(self, ex, st, e, src):
        if src == 'random.shuffle':
            (k, s, v), = ex.ev(e.args[0], st)
            nm = e.args[0].id
            new = fresh('shuffled', SeqV)
            s = s.fork().assume(z3.Length(new) == z3.Length(v), self.cnt(new) == self.cnt(v))
            s.env[nm] = new
            return [('ok', s, NONE)]
        return None

    def on_seq_store(self, ex, st, old, i, x, new):
        n = z3.Length(old)
        A, B = z3.SubSeq(old, 0, i), z3.SubSeq(old, i + 1, n - i - 1)
        oi = old[i]
        c = self.cnt
        st.assume(old == z3.Concat(A, z3.Unit(oi), B))           # lemma "sequence split"
        for e in (x, oi):
            st.assume(c.concat_fact(A, z3.Concat(z3.Unit(e), B)), c.concat_fact(z3.Unit(e), B))
            st.assume(*c.snoc_facts(V.EMPTY, e, z3.Unit(e)))
        st.assume(new == z3.Concat(A, z3.Concat(z3.Unit(x), B)))

    def on_yield(self, ex, st, val, node):
        st.ghost['out'] = snoc(st, st.ghost['out'], val, (self.cnt,))

    def on_seq_append(self, ex, st, old, x, new):
        st.assume(*self.cnt.snoc_facts(old, x, new))

    def on_yield_from_seq(self, ex, st, seq, node):
        st.assume(self.cnt.concat_fact(st.ghost['out'], seq))
        return super().on_yield_from_seq(ex, st, seq, node)

    @property
    def loops(self):
        def inv(s, ex):
            b = s.env['buffer']
            return z3.And(self.live(s), s.env['buffersize'] == self.bsz, z3.Length(b) <= self.bsz,
                          self.cnt(self.out(s)) + self.cnt(b) == self.cnt(self.seen(s)),
                          z3.Length(self.out(s)) + z3.Length(b) == z3.Length(self.seen(s)))
        return {0: LoopSpec(inv=inv, keep=('randrange',))}

    def post(self, ex, outs):
        for k, s, p in outs:
            if k in ('normal', 'return'):
                ex.oblige(s, 'exit: out is a permutation of the input (same length; same count of an arbitrary value w)',
                          z3.And(self.cnt(self.out(s)) == self.cnt(self.seen(s)), z3.Length(self.out(s)) == z3.Length(self.seen(s)),
                                 self.src.done(s)))


UNITS += [CountLemmas, ShufflerIter]
