"""C03 — stream pipelines equal their sequential meaning (one stream contract per operator)."""
import z3

from pyvc import vals as V
from pyvc.vals import Val, SeqV, NONE, fresh
from pyvc.unit import Unit, LoopSpec
from pyvc.models import (Source, UFunc, SpecFn, Rec, Deque, DequeCtor, seqof, snoc, Fn)
from pyvc.core import St, Module, box, as_seq, Unsupported

F = 'streamer/_streamer.py'


class StreamOp(Unit):
    """Common shape: `self._instream` is an arbitrary (possibly failing) source; ghost `out` collects yields."""
    prop = 'C03'
    file = F
    consumer_may_stop = True
    src_may_raise = 'BaseException'
    lookahead = 1            # at every yield: pulled - yielded <= lookahead (after the yield is counted)

    def mk_self(self, ex, st, **fields):
        self.src = Source(ex, 'src', may_raise=self.src_may_raise, fns=self.fns())
        self.src.init(st)
        me = Rec(ex, 'self', immutable=True).init(st, _instream=self.src, **fields)
        st.env['self'] = me
        st.ghost['out'] = V.EMPTY
        for f in self.fns():
            st.assume(*f.base_facts())
        return me

    def fns(self):
        return ()

    def seen(self, s):
        return self.src.seen(s)

    def out(self, s):
        return s.ghost['out']

    def live(self, s):
        return z3.And(z3.Not(self.src.done(s)), z3.Not(self.src.failed(s)))


# ---------------------------------------------------------------- map
class MapperIter(StreamOp):
    qual = 'Mapper.__iter__'
    canaries = (
        ('yield the element instead of func(element)', 'yield func(v)', 'yield v', 'invariant preserved'),
        ('apply func twice', 'yield func(v)', 'yield func(func(v))', 'invariant preserved'),
    )

    def fns(self):
        if not hasattr(self, '_fns'):
            self.f = UFunc('f', 1, raises='Exception', with_kw=False)
            self.smap = SpecFn('smap_f', lambda acc, x: z3.Concat(acc, z3.Unit(self.f.f(x))))
            self._fns = (self.smap,)
        return self._fns

    def setup(self, ex):
        st = St()
        self.fns()
        self.mk_self(ex, st, func=self.f)
        return st

    @property
    def loops(self):
        return {0: LoopSpec(inv=lambda s, ex: z3.And(self.live(s), self.out(s) == self.smap(self.seen(s)),
                                                     z3.Length(self.out(s)) == z3.Length(self.seen(s))))}

    def after_yield(self, ex, st, val, node):
        ex.oblige(st, f'line {node.lineno}: laziness: pulled - yielded <= 0 once the element is handed out',
                  z3.Length(self.seen(st)) <= z3.Length(self.out(st)))

    def post(self, ex, outs):
        for k, s, p in outs:
            if k in ('normal', 'return'):
                ex.oblige(s, 'exit(exhausted): out == map(f, input) and the source is exhausted',
                          z3.And(self.out(s) == self.smap(self.seen(s)), self.src.done(s)))
            elif k == 'raise':
                seen, out = self.seen(s), self.out(s)
                x = V.last(seen)
                from_src = z3.And(self.src.failed(s), p == s.ghost.get('src.error', p), out == self.smap(seen))
                from_f = z3.And(z3.Length(seen) > 0, z3.Not(self.f.ok(x)), p == self.f.exc(x),
                                z3.Concat(out, z3.Unit(self.f.f(x))) == self.smap(seen))
                stopped = z3.And(V.isinst(p, 'GeneratorExit'), z3.PrefixOf(out, self.smap(seen)),
                                 z3.Length(self.smap(seen)) - z3.Length(out) <= 1)
                ex.oblige(s, 'exit(raise): all earlier outputs were produced; the error is the source\'s or f\'s own, or the consumer stopped',
                          z3.Or(from_src, from_f, stopped))


# ---------------------------------------------------------------- filter
class FilterIter(StreamOp):
    qual = 'Filter.__iter__'
    canaries = (
        ('negated predicate', 'if func(v):', 'if not func(v):', 'invariant preserved'),
    )

    def fns(self):
        if not hasattr(self, '_fns'):
            self.f = UFunc('p', 1, raises='Exception', with_kw=False)
            self.sfil = SpecFn('sfilter_p', lambda acc, x: z3.If(V.truthy(self.f.f(x)), z3.Concat(acc, z3.Unit(x)), acc))
            self._fns = (self.sfil,)
        return self._fns

    def setup(self, ex):
        st = St()
        self.fns()
        self.mk_self(ex, st, func=self.f)
        return st

    @property
    def loops(self):
        return {0: LoopSpec(inv=lambda s, ex: z3.And(self.live(s), self.out(s) == self.sfil(self.seen(s))))}

    def after_yield(self, ex, st, val, node):
        ex.oblige(st, f'line {node.lineno}: the yielded element is the one just pulled (nothing buffered)',
                  val == V.last(self.seen(st)))

    def post(self, ex, outs):
        for k, s, p in outs:
            if k in ('normal', 'return'):
                ex.oblige(s, 'exit(exhausted): out == filter(p, input) and the source is exhausted',
                          z3.And(self.out(s) == self.sfil(self.seen(s)), self.src.done(s)))


# ---------------------------------------------------------------- head
class HeaderIter(StreamOp):
    qual = 'Header.__iter__'
    canaries = (
        ('off by one: n > nn', 'if n >= nn:', 'if n > nn:', 'out == input[:n]'),
        ('count not advanced', 'n += 1', 'n += 0', 'pulls at most n+1'),
    )

    def setup(self, ex):
        st = St()
        self.n = z3.Int('head_n')
        st.assume(self.n > 0)          # asserted by Header.__init__
        self.mk_self(ex, st, n=self.n)
        return st

    @property
    def loops(self):
        def inv(s, ex):
            return z3.And(self.live(s), s.env['nn'] == self.n, s.env['n'] == z3.Length(self.out(s)), self.out(s) == self.seen(s),
                          s.env['n'] <= self.n)
        return {0: LoopSpec(inv=inv)}

    def post(self, ex, outs):
        for k, s, p in outs:
            if k in ('normal', 'return'):
                seen, out = self.seen(s), self.out(s)
                ex.oblige(s, 'exit: out == input[:n]',
                          out == z3.SubSeq(seen, 0, z3.If(z3.Length(seen) < self.n, z3.Length(seen), self.n)))
                ex.oblige(s, 'exit: pulls at most n+1 elements (stops pulling after n+1)', z3.Length(seen) <= self.n + 1)
                ex.oblige(s, 'exit: either n outputs or the source is exhausted', z3.Or(z3.Length(out) == self.n, self.src.done(s)))


# ---------------------------------------------------------------- tail
class TailerIter(StreamOp):
    qual = 'Tailer.__iter__'
    canaries = (
        ('keeps n+1', 'deque(maxlen=self.n)', 'deque(maxlen=self.n + 1)', 'last n'),
        ('unbounded deque', 'deque(maxlen=self.n)', 'deque()', 'last n'),
    )

    def setup(self, ex):
        st = St()
        self.n = z3.Int('tail_n')
        st.assume(self.n > 0)
        self.mk_self(ex, st, n=self.n)
        ex.globals['deque'] = DequeCtor()
        return st

    # "out is the last n elements of the input"  <=>  input == dropped ++ out  and  len(out) == min(n, len(input)),
    # with the ghost `dropped` (what the bounded deque discarded) as the witness of the prefix.
    @property
    def loops(self):
        def inv(s, ex):
            d = s.env['data']
            q, dr = d.get(s, 'q'), d.get(s, 'dropped')
            return z3.And(self.live(s), z3.Concat(dr, q) == self.seen(s), z3.Length(q) <= self.n,
                          z3.Implies(z3.Length(dr) > 0, z3.Length(q) == self.n), self.out(s) == V.EMPTY)
        return {0: LoopSpec(inv=inv, keep=('data',))}

    def post(self, ex, outs):
        for k, s, p in outs:
            if k in ('normal', 'return'):
                d = s.env['data']
                seen, out = self.seen(s), self.out(s)
                L = z3.Length(seen)
                ex.oblige(s, 'exit: out == last n elements of the input (input == prefix ++ out, len(out) == min(n, len(input)))',
                          z3.And(seen == z3.Concat(d.get(s, 'dropped'), out), z3.Length(out) == z3.If(L < self.n, L, self.n)))
                ex.oblige(s, 'exit: the source is exhausted', self.src.done(s))


# ---------------------------------------------------------------- batch
class BatcherIter(StreamOp):
    qual = 'Batcher.__iter__'
    canaries = (
        ('drops the last partial batch', '        if batch:\n            yield batch', '        if batch:\n            pass', 'flatten(out) == input'),
        ('batch of size+1', 'if len(batch) == batch_size:', 'if len(batch) == batch_size + 1:', 'has 1..n'),
        ('batch not reset', '                yield batch\n                batch = []', '                yield batch', 'invariant preserved'),
    )

    def fns(self):
        if not hasattr(self, '_fns'):
            self.bs = z3.Int('batch_size')
            self.sflat = SpecFn('sflatten', lambda acc, v: z3.Concat(acc, seqof(v)))
            self.allfull = SpecFn('allfull', lambda acc, v: z3.And(acc, z3.Length(seqof(v)) == self.bs),
                                  result_sort=z3.BoolSort(), empty=z3.BoolVal(True))
            self._fns = ()
        return self._fns

    def setup(self, ex):
        st = St()
        self.fns()
        st.assume(self.bs > 0)
        self.mk_self(ex, st, _batch_size=self.bs)
        st.assume(*self.sflat.base_facts(), *self.allfull.base_facts())
        return st

    def on_yield(self, ex, st, val, node):
        ex.oblige(st, f'line {node.lineno}: every batch yielded before this one is full', self.allfull(st.ghost['out']))
        st.ghost['out'] = snoc(st, st.ghost['out'], val, (self.sflat, self.allfull))
        n = z3.Length(seqof(val))
        ex.oblige(st, f'line {node.lineno}: yielded batch has 1..n elements', z3.And(n >= 1, n <= self.bs, V.is_lst(val)))
        ex.oblige(st, f'line {node.lineno}: look-ahead: nothing pulled beyond the yielded batches',
                  self.sflat(st.ghost['out']) == self.seen(st))

    @property
    def loops(self):
        def inv(s, ex):
            return z3.And(self.live(s), self.allfull(self.out(s)), z3.Concat(self.sflat(self.out(s)), s.env['batch']) == self.seen(s),
                          z3.Length(s.env['batch']) < self.bs, s.env['batch_size'] == self.bs)
        return {0: LoopSpec(inv=inv)}

    def post(self, ex, outs):
        for k, s, p in outs:
            if k in ('normal', 'return'):
                out = self.out(s)
                ex.oblige(s, 'exit: flatten(out) == input (partition of the whole input, in order)', self.sflat(out) == self.seen(s))
                ex.oblige(s, 'exit: the source is exhausted', self.src.done(s))

    def exit_covers(self, ex, outs):
        super().exit_covers(ex, outs)


# ---------------------------------------------------------------- unbatch
class UnbatcherIter(StreamOp):
    qual = 'Unbatcher.__iter__'
    canaries = (
        ('yields the batch itself', 'yield from x', 'yield x', 'invariant preserved'),
    )

    def fns(self):
        if not hasattr(self, '_fns'):
            self.sflat = SpecFn('sflatten', lambda acc, v: z3.Concat(acc, seqof(v)))
            self._fns = (self.sflat,)
        return self._fns

    def setup(self, ex):
        st = St()
        self.fns()
        self.mk_self(ex, st)
        # precondition of unbatch: input elements are lists/tuples (documented; general iterables are out of the model)
        self.src.elem_facts = lambda x: [z3.Or(V.is_lst(x), V.is_tup(x))]
        return st

    @property
    def loops(self):
        return {0: LoopSpec(inv=lambda s, ex: z3.And(self.live(s), self.out(s) == self.sflat(self.seen(s))))}

    def post(self, ex, outs):
        for k, s, p in outs:
            if k in ('normal', 'return'):
                ex.oblige(s, 'exit: out == concatenation of the input lists', self.out(s) == self.sflat(self.seen(s)))
                ex.oblige(s, 'exit: the source is exhausted', self.src.done(s))


UNITS = [MapperIter, FilterIter, HeaderIter, TailerIter, BatcherIter, UnbatcherIter]


# ---------------------------------------------------------------- shuffle (permutation = multiset equality, pointwise in an arbitrary w)
class ShuffleLemmas:
    w = z3.Const('any_w', Val)
    cnt = SpecFn('cnt_w', lambda acc, x: acc + z3.If(x == z3.Const('any_w', Val), 1, 0), result_sort=z3.IntSort(),
                 empty=z3.IntVal(0)).hom(lambda p, q: p + q)


from pyvc.unit import LemmaUnit


class CountLemmas(LemmaUnit):
    prop = 'C03'
    qual = 'lemma(count)'
    isolated = True          # the "sequence split" lemma is a search of z3's sequence solver: solved in a context of its own (DESIGN 8.18)

    def lemmas(self):
        L = ShuffleLemmas
        yield from L.cnt.hom_obligations()
        s = z3.Const('lem_s', SeqV)
        i = z3.Int('lem_i')
        n = z3.Length(s)
        yield ('sequence split: s == s[:i] ++ [s[i]] ++ s[i+1:] for 0 <= i < len(s)', [i >= 0, i < n],
               s == z3.Concat(z3.SubSeq(s, 0, i), z3.Unit(s[i]), z3.SubSeq(s, i + 1, n - i - 1)))


class RandRange(Fn):
    trusted = 'random.randrange(n) returns an int in [0, n)'

    def __init__(self):
        def f(ex, st, args, kwargs, node):
            from pyvc.core import as_int
            n = as_int(ex, st, args[0])
            r = fresh('rand', z3.IntSort())
            return [('ok', st.fork().assume(r >= 0, r < n), r)]
        super().__init__(f, trusted=self.trusted, name='random.randrange')


class ShufflerIter(StreamOp):
    qual = 'Shuffler.__iter__'
    trusted = ('random.shuffle(list) permutes the list in place (same multiset, same length)',)
    assumed_contracts = ('count/split lemmas: proved by unit C03:lemma(count)',)
    canaries = (
        ('loses the replaced element', '                yield y', '                pass', 'invariant preserved'),
        ('overwrites without yielding the old one', 'y = buffer[idx]', 'y = x', 'invariant preserved'),
        ('final buffer not flushed', 'yield from buffer', 'pass', 'permutation'),
    )

    def setup(self, ex):
        st = St()
        self.bsz = z3.Int('buffer_size')
        st.assume(self.bsz > 0)
        self.cnt = ShuffleLemmas.cnt
        st.assume(*self.cnt.base_facts())
        self.mk_self(ex, st, _buffersize=self.bsz)
        ex.globals['random'] = Module('random')
        ex.globals['random.randrange'] = RandRange()
        return st

    def fns(self):
        return (ShuffleLemmas.cnt,)

    def on_call(self, ex, st, e, src):
        if src == 'random.shuffle':
            (k, s, v), = ex.ev(e.args[0], st)
            nm = e.args[0].id
            new = fresh('shuffled', SeqV)
            s = s.fork().assume(z3.Length(new) == z3.Length(v), self.cnt(new) == self.cnt(v))
            s.env[nm] = new
            return [('ok', s, NONE)]
        return None

    def on_seq_store(self, ex, st, old, i, x, new):
        n = z3.Length(old)
        A, B = z3.SubSeq(old, 0, i), z3.SubSeq(old, i + 1, n - i - 1)
        oi = old[i]
        c = self.cnt
        st.assume(old == z3.Concat(A, z3.Unit(oi), B))           # lemma "sequence split"
        for e in (x, oi):
            st.assume(c.concat_fact(A, z3.Concat(z3.Unit(e), B)), c.concat_fact(z3.Unit(e), B))
            st.assume(*c.snoc_facts(V.EMPTY, e, z3.Unit(e)))
        st.assume(new == z3.Concat(A, z3.Concat(z3.Unit(x), B)))

    def on_yield(self, ex, st, val, node):
        st.ghost['out'] = snoc(st, st.ghost['out'], val, (self.cnt,))

    def on_seq_append(self, ex, st, old, x, new):
        st.assume(*self.cnt.snoc_facts(old, x, new))

    def on_yield_from_seq(self, ex, st, seq, node):
        st.assume(self.cnt.concat_fact(st.ghost['out'], seq))
        return super().on_yield_from_seq(ex, st, seq, node)

    @property
    def loops(self):
        def inv(s, ex):
            b = s.env['buffer']
            return z3.And(self.live(s), s.env['buffersize'] == self.bsz, z3.Length(b) <= self.bsz,
                          self.cnt(self.out(s)) + self.cnt(b) == self.cnt(self.seen(s)),
                          z3.Length(self.out(s)) + z3.Length(b) == z3.Length(self.seen(s)))
        return {0: LoopSpec(inv=inv, keep=('randrange',))}

    def post(self, ex, outs):
        for k, s, p in outs:
            if k in ('normal', 'return'):
                ex.oblige(s, 'exit: out is a permutation of the input (same length; same count of an arbitrary value w)',
                          z3.And(self.cnt(self.out(s)) == self.cnt(self.seen(s)), z3.Length(self.out(s)) == z3.Length(self.seen(s)),
                                 self.src.done(s)))


UNITS += [CountLemmas, ShufflerIter]


# ================================================================ constructors (__init__) of the operator classes
import ast as _ast
from pyvc.core import ClassCtor, KwPack, NOKW, Closure

partial_ = z3.Function('functools_partial', Val, Val, Val)       # functools.partial(f, **kw) as a value


def _partial_model():
    def f(ex, st, args, kwargs, node):
        pack = kwargs.get('**')
        if len(args) != 1 or not isinstance(pack, KwPack) or len(kwargs) != 1:
            raise Unsupported('functools.partial shape')
        return [('ok', st, partial_(box(ex, args[0]), pack.val))]
    return Fn(f, trusted='functools.partial(f, **kw)(x) == f(x, **kw)', name='functools.partial')


class InitUnit(Unit):
    """__init__ of an operator class: stores its arguments (the operator's __iter__ contract reads them back)."""
    prop = 'C03'
    file = F
    fields = {}          # attribute -> parameter name (stored unchanged)
    partial_field = None  # (attribute, param): stored as partial(param, **kwargs) if kwargs else param
    int_params = ()      # parameters that are ints (so `assert n > 0` can be evaluated)
    requires = None      # (P) -> z3 Bool over int params: the documented precondition (assert statements)
    assert_mode = 'raise'

    def setup(self, ex):
        st = St()
        self.me = Rec(ex, 'self')
        st.env['self'] = self.me
        fn, _, _ = self.load()
        self.P = {}
        a = fn.args
        for p in a.posonlyargs + a.args + a.kwonlyargs:
            if p.arg == 'self':
                continue
            if p.arg in self.int_params:
                self.P[p.arg] = z3.Int('p_' + p.arg)
            else:
                self.P[p.arg] = z3.Const('p_' + p.arg, Val)
            st.env[p.arg] = self.P[p.arg]
        if a.kwarg is not None:
            self.kw = KwPack(z3.Const('p_kwargs', Val))
            st.env[a.kwarg.arg] = self.kw
        ex.globals['functools'] = Module('functools')
        ex.globals['functools.partial'] = _partial_model()
        return st

    def post(self, ex, outs):
        for k, s, p in outs:
            if k in ('normal', 'return'):
                conds = []
                for attr, par in self.fields.items():
                    conds.append(box(ex, self.me.get(s, attr)) == box(ex, self.P[par]))
                if self.partial_field:
                    attr, par = self.partial_field
                    conds.append(box(ex, self.me.get(s, attr)) == z3.If(self.kw.val != NOKW, partial_(self.P[par], self.kw.val), self.P[par]))
                if self.requires is not None:
                    conds.append(self.requires(self.P))
                ex.oblige(s, 'exit: stores its arguments unchanged (callable bound with its kwargs); precondition held', z3.And(conds))
            elif k == 'raise':
                ok = self.requires(self.P) if self.requires is not None else z3.BoolVal(True)
                ex.oblige(s, 'exit(raise): only AssertionError, and only when the documented precondition is violated',
                          z3.And(V.isinst(p, 'AssertionError'), z3.Not(ok)))


def mk_init(cls, fields, partial_field=None, int_params=(), requires=None, canaries=()):
    return type(cls + 'Init', (InitUnit,), dict(qual=f'{cls}.__init__', fields=fields, partial_field=partial_field,
                                                 int_params=int_params, requires=staticmethod(requires) if requires else None,
                                                 canaries=canaries))


MapperInit = mk_init('Mapper', {'_instream': 'instream'}, ('func', 'func'),
                     canaries=(('kwargs dropped', 'functools.partial(func, **kwargs) if kwargs else func', 'func', 'stores its arguments'),))
FilterInit = mk_init('Filter', {'_instream': 'instream'}, ('func', 'func'))
HeaderInit = mk_init('Header', {'_instream': 'instream', 'n': 'n'}, int_params=('n',), requires=lambda P: P['n'] > 0,
                     canaries=(('stores n+1', 'self.n = n', 'self.n = n + 1', 'stores its arguments'),))
TailerInit = mk_init('Tailer', {'_instream': 'instream', 'n': 'n'}, int_params=('n',), requires=lambda P: P['n'] > 0)
GrouperInit = mk_init('Grouper', {'_instream': 'instream'}, ('key', 'key'))
BatcherInit = mk_init('Batcher', {'_instream': 'instream', '_batch_size': 'batch_size'}, int_params=('batch_size',),
                      requires=lambda P: P['batch_size'] > 0)
UnbatcherInit = mk_init('Unbatcher', {'_instream': 'instream'})
ShufflerInit = mk_init('Shuffler', {'_instream': 'instream', '_buffersize': 'buffer_size'}, int_params=('buffer_size',),
                       requires=lambda P: P['buffer_size'] > 0)
BufferInit = mk_init('Buffer', {'_instream': 'instream', 'maxsize': 'maxsize', '_externally_stopped': 'to_stop'}, int_params=('maxsize',),
                     requires=lambda P: z3.And(P['maxsize'] >= 1, P['maxsize'] <= 10000))


# ================================================================ builders: append exactly one lazy streamlet, consume nothing
OPS = ('Mapper', 'Filter', 'Shuffler', 'Header', 'Tailer', 'Grouper', 'Batcher', 'Unbatcher', 'Buffer', 'Parmapper', 'ParmapperAsync')
is_coro = z3.Function('inspect_iscoroutinefunction', Val, z3.BoolSort())
call_method = z3.Function('self_method_call', z3.StringSort(), Val, Val)      # result of self.<m>(arg) for delegating builders


class BuilderUnit(Unit):
    """Stream.<op>(...): ghost: the source is an opaque value inside streamlets[0]; nothing here can pull from it
    (any attempt to iterate/len/list a streamlet is an unsupported or failing operation)."""
    prop = 'C03'
    file = F
    expect = None        # (self, C, last, P, kw) -> expected new streamlet term
    delegates = None     # name of the Stream method this builder returns a call of (filter/map)

    def setup(self, ex):
        st = St()
        self.sl0 = z3.Const('streamlets0', SeqV)
        st.assume(z3.Length(self.sl0) >= 1)
        self.C = {n: ClassCtor(n) for n in OPS}
        for n, c in self.C.items():
            ex.globals[n] = c
        methods = {}
        for m in ('map', 'filter'):
            def mk(m):
                def f(ex2, st2, args, kwargs, node):
                    if len(args) != 1 or kwargs:
                        raise Unsupported('delegation shape')
                    st2 = st2.fork()
                    st2.ghost['delegated'] = st2.ghost.get('delegated', ()) + ((m, box(ex2, args[0])),)
                    return [('ok', st2, call_method(z3.StringVal(m), box(ex2, args[0])))]
                return Fn(f, name='Stream.' + m)
            methods[m] = mk(m)
        self.me = Rec(ex, 'self', methods=methods).init(st, streamlets=self.sl0)
        st.env['self'] = self.me
        fn, _, _ = self.load()
        self.P = {}
        a = fn.args
        for p in a.posonlyargs + a.args + a.kwonlyargs:
            if p.arg == 'self':
                continue
            self.P[p.arg] = z3.Const('p_' + p.arg, Val)
            st.env[p.arg] = self.P[p.arg]
        self.kw = None
        if a.kwarg is not None:
            self.kw = KwPack(z3.Const('p_kwargs', Val))
            st.env[a.kwarg.arg] = self.kw
        ex.globals['inspect'] = Module('inspect')
        ex.globals['inspect.iscoroutinefunction'] = Fn(lambda ex2, st2, args, kwargs, node: [('ok', st2, is_coro(box(ex2, args[0])))],
                                                       trusted='inspect.iscoroutinefunction is a pure predicate of its argument')
        ex.globals['random'] = Module('random')
        ex.globals['remote_exception'] = Module('remote_exception')
        ex.globals['traceback'] = Module('traceback')
        ex.globals['NOTSET'] = z3.Const('NOTSET', Val)
        self.extra_setup(ex, st)
        return st

    def extra_setup(self, ex, st):
        pass

    def post(self, ex, outs):
        for k, s, p in outs:
            if k == 'raise':
                self.post_raise(ex, s, p)
                continue
            if k not in ('normal', 'return'):
                continue
            sl = self.me.get(s, 'streamlets')
            if self.delegates:
                d = s.ghost.get('delegated', ())
                ex.oblige(s, f'exit: returns self.{self.delegates}(<helper>) exactly once and touches nothing else',
                          z3.And(z3.BoolVal(len(d) == 1 and d[0][0] == self.delegates), sl == self.sl0,
                                 box(ex, p) == call_method(z3.StringVal(self.delegates), d[0][1]) if d else z3.BoolVal(False)))
                self.post_delegate(ex, s, d[0][1] if d else None)
            else:
                want = self.expect(self.C, V.last(self.sl0), self.P, self.kw)
                ex.oblige(s, 'exit: appends exactly one lazy streamlet wrapping the previous one; returns self; consumes nothing',
                          z3.And(sl == z3.Concat(self.sl0, z3.Unit(want)), box(ex, p) == self.me.val()))

    def post_raise(self, ex, s, p):
        ex.oblige(s, 'exit(raise): builder does not raise', False)

    def post_delegate(self, ex, s, helper):
        pass


def mk_builder(name, expect=None, delegates=None, canaries=(), base=BuilderUnit, **extra):
    d = dict(qual=f'Stream.{name}', delegates=delegates, canaries=canaries, **extra)
    if expect:
        d['expect'] = staticmethod(expect)
    return type('Build_' + name, (base,), d)


def T(C, name, args, kw=None, **kwargs):
    """expected constructor term"""
    k = dict(kwargs)
    if kw is not None:
        k['**'] = kw
    return C[name].term(None, list(args), k)


B_map = mk_builder('map', lambda C, last, P, kw: T(C, 'Mapper', [last, P['func']], kw),
                   canaries=(('wraps the source instead of the previous streamlet', 'Mapper(self.streamlets[-1], func, **kwargs)', 'Mapper(self.streamlets[0], func, **kwargs)', 'appends exactly one'),
                             ('consumes the source while building', 'self.streamlets.append(Mapper(self.streamlets[-1], func, **kwargs))',
                              'self.streamlets.append(Mapper(list(self.streamlets[-1]), func, **kwargs))', '')))
B_filter = mk_builder('filter', lambda C, last, P, kw: T(C, 'Filter', [last, P['func']], kw))
B_shuffle = mk_builder('shuffle', lambda C, last, P, kw: T(C, 'Shuffler', [last], buffer_size=P['buffer_size']))
B_head = mk_builder('head', lambda C, last, P, kw: T(C, 'Header', [last, P['n']]))
B_tail = mk_builder('tail', lambda C, last, P, kw: T(C, 'Tailer', [last, P['n']]),
                    canaries=(('tail builds a Header', 'Tailer(self.streamlets[-1], n)', 'Header(self.streamlets[-1], n)', 'appends exactly one'),))
B_groupby = mk_builder('groupby', lambda C, last, P, kw: T(C, 'Grouper', [last, P['key']], kw))
B_batch = mk_builder('batch', lambda C, last, P, kw: T(C, 'Batcher', [last, P['batch_size']]))
B_unbatch = mk_builder('unbatch', lambda C, last, P, kw: T(C, 'Unbatcher', [last]))
B_buffer = mk_builder('buffer', lambda C, last, P, kw: T(C, 'Buffer', [last, P['maxsize']]))
B_parmap = mk_builder('parmap', lambda C, last, P, kw: z3.If(
    is_coro(P['func']),
    T(C, 'ParmapperAsync', [last, P['func']], kw, concurrency=P['concurrency'], return_x=P['return_x'], return_exceptions=P['return_exceptions']),
    T(C, 'Parmapper', [last, P['func']], kw, concurrency=P['concurrency'], return_x=P['return_x'], return_exceptions=P['return_exceptions'])),
    canaries=(('return_x and return_exceptions swapped', 'return_x=return_x,\n                return_exceptions=return_exceptions,',
               'return_x=return_exceptions,\n                return_exceptions=return_x,', 'appends exactly one'),))


# ---- Stream core
class StreamInit(Unit):
    prop = 'C03'
    file = F
    qual = 'Stream.__init__'

    def setup(self, ex):
        st = St()
        self.me = Rec(ex, 'self')
        st.env['self'] = self.me
        self.ins = z3.Const('instream', Val)
        st.env['instream'] = self.ins
        return st

    def post(self, ex, outs):
        for k, s, p in outs:
            if k in ('normal', 'return'):
                ex.oblige(s, 'exit: streamlets == [instream] (nothing consumed)', self.me.get(s, 'streamlets') == z3.Unit(self.ins))
            else:
                ex.oblige(s, 'exit: does not raise', False)


iter_of = z3.Function('iter_of', Val, Val)       # streamlet.__iter__()


class IterModel:
    """sym model: calling .__iter__() on an opaque streamlet value returns iter_of(streamlet)"""

    def getattr(self, ex, st, base, attr, node):
        from pyvc.core import SymMethod
        if attr == '__iter__':
            return [('ok', st, SymMethod(self, base, attr))]
        raise Unsupported(f'streamlet.{attr}')

    def call(self, ex, st, recv, name, args, kwargs, node):
        return [('ok', st, iter_of(recv))]


class StreamIter(Unit):
    prop = 'C03'
    file = F
    qual = 'Stream.__iter__'
    canaries = (('iterates the source, not the pipeline', 'self.streamlets[-1].__iter__()', 'self.streamlets[0].__iter__()', 'iterates the last streamlet'),)

    def setup(self, ex):
        st = St()
        self.sl0 = z3.Const('streamlets0', SeqV)
        st.assume(z3.Length(self.sl0) >= 1)
        self.me = Rec(ex, 'self', immutable=True).init(st, streamlets=self.sl0)
        st.env['self'] = self.me
        ex.sym_models['self.streamlets[-1]'] = IterModel()
        ex.sym_models['self.streamlets[0]'] = IterModel()
        return st

    def post(self, ex, outs):
        for k, s, p in outs:
            if k in ('normal', 'return'):
                ex.oblige(s, 'exit: iterates the last streamlet (the whole pipeline)', box(ex, p) == iter_of(V.last(self.sl0)))
            else:
                ex.oblige(s, 'exit: does not raise', False)


class StreamAsSource(Source):
    """`self` of Stream.collect/drain as an iterable: iterating it is iterating the pipeline (Stream.__iter__ contract)."""


class StreamDrain(StreamOp):
    qual = 'Stream.drain'
    consumer_may_stop = False
    assumed_contracts = ('iter(self) yields the pipeline output: unit C03:Stream.__iter__',)
    canaries = (('counts twice', 'n += 1', 'n += 2', 'invariant preserved'),)

    def setup(self, ex):
        st = St()
        self.src = Source(ex, 'src', may_raise='BaseException')
        self.src.init(st)
        st.env['self'] = self.src
        st.ghost['out'] = V.EMPTY
        return st

    @property
    def loops(self):
        return {0: LoopSpec(inv=lambda s, ex: z3.And(self.live(s), s.env['n'] == z3.Length(self.seen(s))))}

    def post(self, ex, outs):
        for k, s, p in outs:
            if k in ('normal', 'return'):
                ex.oblige(s, 'exit: returns the number of elements of the pipeline output, having consumed all of it',
                          z3.And(p == z3.Length(self.seen(s)), self.src.done(s)))
            elif k == 'raise':
                ex.oblige(s, 'exit(raise): only the pipeline\'s own error', z3.And(self.src.failed(s), p == s.ghost['src.error']))


class SourceToList(Source):
    def to_list(self, ex, st, node):
        """list(iterable): trusted builtin — pulls until exhaustion (or the iterable's error)."""
        s1 = st.fork()
        allv = fresh('all', SeqV)
        s1.ghost[self.key + '.seen'] = allv
        s1.ghost[self.key + '.done'] = z3.BoolVal(True)
        outs = [('ok', s1, allv)]
        if self.may_raise:
            s2 = st.fork()
            e = fresh('e_src')
            s2.assume(V.isinst(e, self.may_raise))
            s2.ghost[self.key + '.failed'] = z3.BoolVal(True)
            s2.ghost[self.key + '.error'] = e
            outs.append(('raise', s2, e))
        return outs


class StreamCollect(StreamOp):
    qual = 'Stream.collect'
    consumer_may_stop = False
    trusted = ('list(iterable) returns all elements the iterable yields, in order',)
    canaries = (('drops the first element', 'return list(self)', 'return list(self)[1:]', 'returns all elements'),)

    def setup(self, ex):
        st = St()
        self.src = SourceToList(ex, 'src', may_raise='BaseException')
        self.src.init(st)
        st.env['self'] = self.src
        st.ghost['out'] = V.EMPTY
        return st

    def post(self, ex, outs):
        for k, s, p in outs:
            if k in ('normal', 'return'):
                ex.oblige(s, 'exit: returns all elements of the pipeline output in order', z3.And(box(ex, p) == V.lst(self.seen(s)), self.src.done(s)))


# ---- groupby: delegation to itertools.groupby (trusted) with the same source and key
gb = z3.Function('itertools_groupby', Val, Val, Val)


class GroupbyObj(Rec):
    def __init__(self, ex, term):
        super().__init__(ex, 'groupby')
        self.term = term

    def yield_from(self, ex, st, node):
        st = st.fork()
        st.ghost['yielded_from'] = st.ghost.get('yielded_from', ()) + (self.term,)
        return [('ok', st, NONE)]


class GrouperIter(Unit):
    prop = 'C03'
    file = F
    qual = 'Grouper.__iter__'
    trusted = ('itertools.groupby(iterable, key): consecutive elements with equal key form one (key, group) pair, lazily',)
    canaries = (('key function dropped', 'itertools.groupby(self._instream, self.key)', 'itertools.groupby(self._instream)', 'delegates'),)

    def setup(self, ex):
        st = St()
        self.ins, self.key = z3.Const('instream', Val), z3.Const('key', Val)
        st.env['self'] = Rec(ex, 'self', immutable=True).init(st, _instream=self.ins, key=self.key)
        ex.globals['itertools'] = Module('itertools')

        def f(ex2, st2, args, kwargs, node):
            if len(args) == 2 and not kwargs:
                return [('ok', st2, GroupbyObj(ex2, gb(box(ex2, args[0]), box(ex2, args[1]))))]
            if len(args) == 1 and not kwargs:
                return [('ok', st2, GroupbyObj(ex2, gb(box(ex2, args[0]), NONE)))]
            raise Unsupported('groupby shape')
        ex.globals['itertools.groupby'] = Fn(f, trusted=self.trusted[0])
        return st

    def post(self, ex, outs):
        for k, s, p in outs:
            if k in ('normal', 'return'):
                y = s.ghost.get('yielded_from', ())
                ex.oblige(s, 'exit: delegates to itertools.groupby(source, key) and yields everything it yields, nothing else',
                          z3.And(z3.BoolVal(len(y) == 1), y[0] == gb(self.ins, self.key) if y else z3.BoolVal(False)))
            else:
                ex.oblige(s, 'exit: no other exit', False)


UNITS += [MapperInit, FilterInit, HeaderInit, TailerInit, GrouperInit, BatcherInit, UnbatcherInit, ShufflerInit, BufferInit,
          B_map, B_filter, B_shuffle, B_head, B_tail, B_groupby, B_batch, B_unbatch, B_buffer, B_parmap,
          StreamInit, StreamIter, StreamDrain, StreamCollect, GrouperIter]


# ================================================================ filter_exceptions / accumulate / peek
from pyvc.core import dyn_isinst
from pyvc.models import Nop


class FooUnit(Unit):
    """The predicate built by filter_exceptions: keep / drop / raise exception elements, pass everything else."""
    prop = 'C03'
    file = F
    qual = 'Stream.filter_exceptions.<locals>.foo'
    canaries = (
        ('drop checked before keep', 'if keep_exc_types is not None and isinstance(x, keep_exc_types):\n                    return True',
         'if keep_exc_types is not None and isinstance(x, keep_exc_types) and not (drop_exc_types is not None and isinstance(x, drop_exc_types)):\n                    return True', 'documented'),
        ('unlisted exceptions silently dropped', 'raise x', 'return False', 'documented'),
    )

    def setup(self, ex):
        st = St()
        self.x = z3.Const('x', Val)
        self.keep, self.drop = z3.Const('keep_exc_types', Val), z3.Const('drop_exc_types', Val)
        st.env['x'] = self.x
        st.cells['keep_exc_types'] = self.keep
        st.cells['drop_exc_types'] = self.drop
        return st

    def post(self, ex, outs):
        isexc = V.isinst(self.x, 'BaseException')
        kept = z3.And(self.keep != NONE, dyn_isinst(self.x, self.keep))
        dropped = z3.And(self.drop != NONE, dyn_isinst(self.x, self.drop))
        for k, s, p in outs:
            if k in ('normal', 'return'):
                ex.oblige(s, 'exit(return): documented meaning: non-exceptions kept; exceptions kept if in keep (checked first), dropped if in drop',
                          z3.And(ex.truth(s, p) == z3.Or(z3.Not(isexc), kept), z3.Or(z3.Not(isexc), kept, dropped)))
            elif k == 'raise':
                ex.oblige(s, 'exit(raise): documented meaning: an exception element neither kept nor dropped is raised itself',
                          z3.And(p == self.x, isexc, z3.Not(kept), z3.Not(dropped)))


class B_filter_exceptions(BuilderUnit):
    qual = 'Stream.filter_exceptions'
    delegates = 'filter'
    assumed_contracts = ('foo: unit C03:Stream.filter_exceptions.<locals>.foo',)

    def post_delegate(self, ex, s, helper):
        from pyvc.core import unbox_handle
        h = unbox_handle(ex, helper)
        ex.oblige(s, 'exit: the predicate handed to filter is the local function foo', z3.BoolVal(isinstance(h, Closure) and getattr(h.node, 'name', '') == 'foo'))


class AccumulatorCall(Unit):
    prop = 'C03'
    file = F
    qual = 'Stream.accumulate.<locals>.Accumulator.__call__'
    canaries = (
        ('state not updated', 'self._initializer = z', 'pass', 'scan step'),
        ('arguments swapped', 'z = self._func(z, x, **self._kwargs)', 'z = self._func(x, z, **self._kwargs)', 'scan step'),
    )

    def setup(self, ex):
        st = St()
        self.x, self.init = z3.Const('x', Val), z3.Const('acc', Val)
        self.NOTSET = z3.Const('NOTSET', Val)
        st.assume(V.is_ref(self.NOTSET))          # NOTSET = object(): a plain object, equality is identity
        self.f = UFunc('acc_f', 2, raises='Exception')
        self.kw = KwPack(z3.Const('acc_kwargs', Val))
        self.me = Rec(ex, 'self').init(st, _func=self.f, _initializer=self.init, _kwargs=self.kw)
        st.env['self'] = self.me
        st.env['x'] = self.x
        ex.globals['NOTSET'] = self.NOTSET
        return st

    def post(self, ex, outs):
        fz, ok, exc = self.f.app(ex, self.init, self.x, kw=self.kw.val)
        want = z3.If(self.init == self.NOTSET, self.x, fz)
        for k, s, p in outs:
            if k in ('normal', 'return'):
                ex.oblige(s, 'exit: scan step: returns x (first element, no initializer) or func(acc, x, **kwargs), and remembers it',
                          z3.And(box(ex, p) == want, box(ex, self.me.get(s, '_initializer')) == want))
            elif k == 'raise':
                ex.oblige(s, 'exit(raise): only func\'s own error; the accumulated state is unchanged',
                          z3.And(p == exc, z3.Not(ok), self.init != self.NOTSET, box(ex, self.me.get(s, '_initializer')) == self.init))


class B_accumulate(BuilderUnit):
    qual = 'Stream.accumulate'
    delegates = 'map'
    assumed_contracts = ('Accumulator.__call__: unit C03:...Accumulator.__call__; Accumulator.__init__ stores func/initializer/kwargs (checked here syntactically: not decided)',)

    def post_delegate(self, ex, s, helper):
        ctor = s.env.get('Accumulator')
        ex.oblige(s, 'exit: the function handed to map is a fresh Accumulator()', helper == ctor.term(ex, [], {}) if isinstance(ctor, ClassCtor) else z3.BoolVal(False))


class PeekerCall(Unit):
    prop = 'C03'
    file = F
    qual = 'Stream.peek.<locals>.Peeker.__call__'
    user_format_total = True       # precondition (module ASSUMPTIONS): the elements peek is asked to PRINT can be printed (str() of them does not raise)
    interval_kind = 'int'
    unreachable_ok = ('pass',)      # `except AttributeError: pass` around x.__traceback__ (an exception object always has it)
    trusted = ('print_func and the traceback/remote_exception formatting helpers return normally and have no effect on the stream',)
    canaries = (('swallows exception elements', '                    self._print_func(f\'{x}{self._suffix}\')\n                return x',
                 '                    self._print_func(f\'{x}{self._suffix}\')\n                return None', 'identity'),)

    def __init__(self):
        self.variant = self.interval_kind
        super().__init__()

    def setup(self, ex):
        st = St()
        self.x = z3.Const('x', Val)
        self.idx0 = z3.Int('idx0')
        if self.interval_kind == 'none':
            interval = NONE
        elif self.interval_kind == 'int':
            interval = z3.Int('interval')
            st.assume(interval >= 1)
        else:
            interval = z3.Real('interval')
            st.assume(interval > 0, interval < 1)
        self.me = Rec(ex, 'self').init(st, _idx=self.idx0, _print_func=Nop(), _interval=interval, _exc_types=z3.Const('exc_types', Val),
                                       _with_trace=z3.Bool('with_trace'), _prefix=z3.String('prefix'), _suffix=z3.String('suffix'))
        st.env['self'] = self.me
        st.env['x'] = self.x
        ex.globals['random'] = Module('random')
        ex.globals['random.random'] = Fn(lambda ex2, st2, a, k, n: (lambda r: [('ok', st2.fork().assume(r >= 0, r < 1), r)])(fresh('rnd', z3.RealSort())),
                                         trusted='random.random() returns a float in [0, 1)')
        ex.globals['remote_exception'] = Module('remote_exception')
        ex.globals['remote_exception.is_remote_exception'] = Fn(lambda ex2, st2, a, k, n: [('ok', st2, fresh('is_remote', z3.BoolSort()))])
        ex.globals['remote_exception.get_remote_traceback'] = Fn(lambda ex2, st2, a, k, n: [('ok', st2, fresh('tbtext', z3.StringSort()))])
        ex.globals['traceback'] = Module('traceback')
        ex.globals['traceback.format_tb'] = Fn(lambda ex2, st2, a, k, n: [('ok', st2, fresh('tblist'))])
        return st

    def on_call(self, ex, st, e, src):
        if src == "''.join":
            return ex.bind(ex.ev(e.args[0], st), lambda s, v: [('ok', s, fresh('joined', z3.StringSort()))])
        return None

    def post(self, ex, outs):
        for k, s, p in outs:
            if k in ('normal', 'return'):
                ex.oblige(s, 'exit: identity: returns its argument unchanged; the element counter advanced by one',
                          z3.And(box(ex, p) == self.x, self.me.get(s, '_idx') == self.idx0 + 1))
            else:
                ex.oblige(s, 'exit: never raises', False)


class PeekerCallNone(PeekerCall):
    interval_kind = 'none'
    canaries = ()


class PeekerCallFloat(PeekerCall):
    interval_kind = 'float'
    canaries = ()


class B_peek(BuilderUnit):
    qual = 'Stream.peek'
    delegates = 'map'
    # parameter normalisation of the message-formatting options is dropped (listed in evidence): it only rebinds
    # free variables read by Peeker's printing code, which the property does not observe
    ignore_stmts = (r'if interval is not None:.*', r'if exc_types is None:.*', r'if prefix:.*', r'if suffix:.*')

    def post_delegate(self, ex, s, helper):
        ctor = s.env.get('Peeker')
        ex.oblige(s, 'exit: the function handed to map is a fresh Peeker()', helper == ctor.term(ex, [], {}) if isinstance(ctor, ClassCtor) else z3.BoolVal(False))


UNITS += [FooUnit, B_filter_exceptions, AccumulatorCall, B_accumulate, PeekerCall, PeekerCallNone, PeekerCallFloat, B_peek]


class Composition(LemmaUnit):
    """Pipeline meaning = composition of operator meanings.  Every operator contract above is stated for an ARBITRARY
    input stream (the symbolic Source), Stream.<op> wraps exactly the previous streamlet, <Op>.__init__ stores it as
    `_instream`, and Stream.__iter__ iterates the last streamlet; so the induction over the builder sequence has the
    step below (stage contract + wiring => composed meaning), checked here on uninterpreted stage meanings."""
    prop = 'C03'
    qual = 'lemma(composition)'

    def lemmas(self):
        M1 = z3.Function('meaning_prefix', SeqV, SeqV)      # meaning of the pipeline built so far
        M2 = z3.Function('meaning_op', SeqV, SeqV)          # meaning of the operator appended by the builder
        src, mid, out = z3.Consts('src mid out', SeqV)
        yield ('induction step: (prefix yields M1(src)) and (new operator yields M2(its input)) and (its input is the prefix output) => pipeline yields M2(M1(src))',
               [mid == M1(src), out == M2(mid)], out == M2(M1(src)))
        # laziness composes additively: lookahead bounds of one-to-one stages add up
        a, b, c, k1, k2 = z3.Ints('pulled mid_len out_len k1 k2')
        yield ('laziness composes: pulled - mid <= k1 and mid - out <= k2 => pulled - out <= k1 + k2', [a - b <= k1, b - c <= k2], a - c <= k1 + k2)


UNITS += [Composition]
# buffer() is an operator too: its meaning is the identity on the stream (order, exactly once). Proved by the Buffer units shared with C05/C08.
from contracts.buffer import RunWorker, RunWorkerNoExtern, BufIter, BufStart, BufFinalize, BufFinalizeNoop      # noqa: E402
UNITS += [RunWorker, RunWorkerNoExtern, BufIter, BufStart, BufFinalize, BufFinalizeNoop]
# parmap() is an operator too: order, exactly-once and the bounded look-ahead are fifo_stream's contract (units shared with C01/C08)
from contracts.fifo import FeedUnit, FeedUnitNoPre, ConsumerUnit, ConsumerUnitNoPre      # noqa: E402
from contracts.c01 import ParmapperInit, ParmapperInitDefault, ParmapperIter, ParmapperIterProcess      # noqa: E402
UNITS += [FeedUnit, FeedUnitNoPre, ConsumerUnit, ConsumerUnitNoPre, ParmapperInit, ParmapperInitDefault, ParmapperIter, ParmapperIterProcess]
NOT_DECIDED = ('user functions passed to map/filter/accumulate are modelled as uninterpreted functions of their argument (statefulness other than Accumulator/Peeker is outside the model)',
               'unbatch of general iterables (only list/tuple elements are modelled)',
               'meaning of itertools.groupby, random.shuffle/randrange, functools.partial, list() (trusted stdlib contracts)')
ASSUMPTIONS = ('lists are modelled by value: a list that escapes (is yielded) is not mutated afterwards by the operator (checked syntactically by the unsupported-construct rule: unknown mutating methods make the unit undecided)',
               'stream elements have a total, side-effect free == and truthiness; elements that peek is asked to print have a total str()',
               'functions under contract are executed by CPython as pyvc\'s documented subset semantics says')

SCENARIOS = [('', 'replay/scenarios/c03_ops.py')]
THOROUGH_SCENARIOS = [('', 'replay/scenarios/c03_ops.py', (s,), 300) for s in (1, 2, 3, 4, 5)]

# peek's Peeker prints the remote traceback of exception elements: it relies on the contracts of is_remote_exception / get_remote_traceback
# (the latter is total exactly on what the former accepts: units in C15)
from contracts.c15 import IsRemoteUnit, GetTbUnit      # noqa: E402
UNITS += [IsRemoteUnit, GetTbUnit]
