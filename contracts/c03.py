"""C03 — stream pipelines equal their sequential meaning (one stream contract per operator)."""
import z3

from pyvc import vals as V
from pyvc.vals import Val, SeqV, NONE, fresh
from pyvc.unit import Unit, LoopSpec
from pyvc.models import (Source, UFunc, SpecFn, Rec, Deque, DequeCtor, seqof, snoc, Fn)
from pyvc.core import St, Module, box, as_seq, Unsupported

F = 'streamer/_streamer.py'


class StreamOp(Unit):
    """Common shape: `self._instream` is an arbitrary (possibly failing) source; ghost `out` collects yields."""
    prop = 'C03'
    file = F
    consumer_may_stop = True
    src_may_raise = 'BaseException'
    lookahead = 1            # at every yield: pulled - yielded <= lookahead (after the yield is counted)

    def mk_self(self, ex, st, **fields):
        self.src = Source(ex, 'src', may_raise=self.src_may_raise, fns=self.fns())
        self.src.init(st)
        me = Rec(ex, 'self', immutable=True).init(st, _instream=self.src, **fields)
        st.env['self'] = me
        st.ghost['out'] = V.EMPTY
        for f in self.fns():
            st.assume(*f.base_facts())
        return me

    def fns(self):
        return ()

    def seen(self, s):
        return self.src.seen(s)

    def out(self, s):
        return s.ghost['out']

    def live(self, s):
        return z3.And(z3.Not(self.src.done(s)), z3.Not(self.src.failed(s)))


# ---------------------------------------------------------------- map
class MapperIter(StreamOp):
    qual = 'Mapper.__iter__'
    canaries = (
        ('yield the element instead of func(element)', 'yield func(v)', 'yield v', 'invariant preserved'),
        ('apply func twice', 'yield func(v)', 'yield func(func(v))', 'invariant preserved'),
    )

    def fns(self):
        if not hasattr(self, '_fns'):
            self.f = UFunc('f', 1, raises='Exception', with_kw=False)
            self.smap = SpecFn('smap_f', lambda acc, x: z3.Concat(acc, z3.Unit(self.f.f(x))))
            self._fns = (self.smap,)
        return self._fns

    def setup(self, ex):
        st = St()
        self.fns()
        self.mk_self(ex, st, func=self.f)
        return st

    @property
    def loops(self):
        return {0: LoopSpec(inv=lambda s, ex: z3.And(self.live(s), self.out(s) == self.smap(self.seen(s)),
                                                     z3.Length(self.out(s)) == z3.Length(self.seen(s))))}

    def after_yield(self, ex, st, val, node):
        ex.oblige(st, f'line {node.lineno}: laziness: pulled - yielded <= 0 once the element is handed out',
                  z3.Length(self.seen(st)) <= z3.Length(self.out(st)))

    def post(self, ex, outs):
        for k, s, p in outs:
            if k in ('normal', 'return'):
                ex.oblige(s, 'exit(exhausted): out == map(f, input) and the source is exhausted',
                          z3.And(self.out(s) == self.smap(self.seen(s)), self.src.done(s)))
            elif k == 'raise':
                seen, out = self.seen(s), self.out(s)
                x = V.last(seen)
                from_src = z3.And(self.src.failed(s), p == s.ghost.get('src.error', p), out == self.smap(seen))
                from_f = z3.And(z3.Length(seen) > 0, z3.Not(self.f.ok(x)), p == self.f.exc(x),
                                z3.Concat(out, z3.Unit(self.f.f(x))) == self.smap(seen))
                stopped = z3.And(V.isinst(p, 'GeneratorExit'), z3.PrefixOf(out, self.smap(seen)),
                                 z3.Length(self.smap(seen)) - z3.Length(out) <= 1)
                ex.oblige(s, 'exit(raise): all earlier outputs were produced; the error is the source\'s or f\'s own, or the consumer stopped',
                          z3.Or(from_src, from_f, stopped))


# ---------------------------------------------------------------- filter
class FilterIter(StreamOp):
    qual = 'Filter.__iter__'
    canaries = (
        ('negated predicate', 'if func(v):', 'if not func(v):', 'invariant preserved'),
    )

    def fns(self):
        if not hasattr(self, '_fns'):
            self.f = UFunc('p', 1, raises='Exception', with_kw=False)
            self.sfil = SpecFn('sfilter_p', lambda acc, x: z3.If(V.truthy(self.f.f(x)), z3.Concat(acc, z3.Unit(x)), acc))
            self._fns = (self.sfil,)
        return self._fns

    def setup(self, ex):
        st = St()
        self.fns()
        self.mk_self(ex, st, func=self.f)
        return st

    @property
    def loops(self):
        return {0: LoopSpec(inv=lambda s, ex: z3.And(self.live(s), self.out(s) == self.sfil(self.seen(s))))}

    def after_yield(self, ex, st, val, node):
        ex.oblige(st, f'line {node.lineno}: the yielded element is the one just pulled (nothing buffered)',
                  val == V.last(self.seen(st)))

    def post(self, ex, outs):
        for k, s, p in outs:
            if k in ('normal', 'return'):
                ex.oblige(s, 'exit(exhausted): out == filter(p, input) and the source is exhausted',
                          z3.And(self.out(s) == self.sfil(self.seen(s)), self.src.done(s)))


# ---------------------------------------------------------------- head
class HeaderIter(StreamOp):
    qual = 'Header.__iter__'
    canaries = (
        ('off by one: n > nn', 'if n >= nn:', 'if n > nn:', 'out == input[:n]'),
        ('count not advanced', 'n += 1', 'n += 0', 'pulls at most n+1'),
    )

    def setup(self, ex):
        st = St()
        self.n = z3.Int('head_n')
        st.assume(self.n > 0)          # asserted by Header.__init__
        self.mk_self(ex, st, n=self.n)
        return st

    @property
    def loops(self):
        def inv(s, ex):
            return z3.And(self.live(s), s.env['nn'] == self.n, s.env['n'] == z3.Length(self.out(s)), self.out(s) == self.seen(s),
                          s.env['n'] <= self.n)
        return {0: LoopSpec(inv=inv)}

    def post(self, ex, outs):
        for k, s, p in outs:
            if k in ('normal', 'return'):
                seen, out = self.seen(s), self.out(s)
                ex.oblige(s, 'exit: out == input[:n]',
                          out == z3.SubSeq(seen, 0, z3.If(z3.Length(seen) < self.n, z3.Length(seen), self.n)))
                ex.oblige(s, 'exit: pulls at most n+1 elements (stops pulling after n+1)', z3.Length(seen) <= self.n + 1)
                ex.oblige(s, 'exit: either n outputs or the source is exhausted', z3.Or(z3.Length(out) == self.n, self.src.done(s)))


# ---------------------------------------------------------------- tail
class TailerIter(StreamOp):
    qual = 'Tailer.__iter__'
    canaries = (
        ('keeps n+1', 'deque(maxlen=self.n)', 'deque(maxlen=self.n + 1)', 'last n'),
        ('unbounded deque', 'deque(maxlen=self.n)', 'deque()', 'last n'),
    )

    def setup(self, ex):
        st = St()
        self.n = z3.Int('tail_n')
        st.assume(self.n > 0)
        self.mk_self(ex, st, n=self.n)
        ex.globals['deque'] = DequeCtor()
        return st

    def lastn(self, seq):
        ln = z3.Length(seq)
        return z3.If(ln <= self.n, seq, z3.SubSeq(seq, ln - self.n, self.n))

    @property
    def loops(self):
        def inv(s, ex):
            d = s.env['data']
            return z3.And(self.live(s), d.get(s, 'q') == self.lastn(self.seen(s)), self.out(s) == V.EMPTY)
        return {0: LoopSpec(inv=inv, keep=('data',))}

    def post(self, ex, outs):
        for k, s, p in outs:
            if k in ('normal', 'return'):
                ex.oblige(s, 'exit: out == last n elements of the input', self.out(s) == self.lastn(self.seen(s)))
                ex.oblige(s, 'exit: the source is exhausted', self.src.done(s))


# ---------------------------------------------------------------- batch
class BatcherIter(StreamOp):
    qual = 'Batcher.__iter__'
    canaries = (
        ('drops the last partial batch', '        if batch:\n            yield batch', '        if batch:\n            pass', 'flatten(out) == input'),
        ('batch of size+1', 'if len(batch) == batch_size:', 'if len(batch) == batch_size + 1:', 'has 1..n'),
        ('batch not reset', '                yield batch\n                batch = []', '                yield batch', 'invariant preserved'),
    )

    def fns(self):
        if not hasattr(self, '_fns'):
            self.bs = z3.Int('batch_size')
            self.sflat = SpecFn('sflatten', lambda acc, v: z3.Concat(acc, seqof(v)))
            self.allfull = SpecFn('allfull', lambda acc, v: z3.And(acc, z3.Length(seqof(v)) == self.bs),
                                  result_sort=z3.BoolSort(), empty=z3.BoolVal(True))
            self._fns = ()
        return self._fns

    def setup(self, ex):
        st = St()
        self.fns()
        st.assume(self.bs > 0)
        self.mk_self(ex, st, _batch_size=self.bs)
        st.assume(*self.sflat.base_facts(), *self.allfull.base_facts())
        return st

    def on_yield(self, ex, st, val, node):
        ex.oblige(st, f'line {node.lineno}: every batch yielded before this one is full', self.allfull(st.ghost['out']))
        st.ghost['out'] = snoc(st, st.ghost['out'], val, (self.sflat, self.allfull))
        n = z3.Length(seqof(val))
        ex.oblige(st, f'line {node.lineno}: yielded batch has 1..n elements', z3.And(n >= 1, n <= self.bs, V.is_lst(val)))
        ex.oblige(st, f'line {node.lineno}: look-ahead: nothing pulled beyond the yielded batches',
                  self.sflat(st.ghost['out']) == self.seen(st))

    @property
    def loops(self):
        def inv(s, ex):
            return z3.And(self.live(s), self.allfull(self.out(s)), z3.Concat(self.sflat(self.out(s)), s.env['batch']) == self.seen(s),
                          z3.Length(s.env['batch']) < self.bs, s.env['batch_size'] == self.bs)
        return {0: LoopSpec(inv=inv)}

    def post(self, ex, outs):
        for k, s, p in outs:
            if k in ('normal', 'return'):
                out = self.out(s)
                ex.oblige(s, 'exit: flatten(out) == input (partition of the whole input, in order)', self.sflat(out) == self.seen(s))
                ex.oblige(s, 'exit: the source is exhausted', self.src.done(s))

    def exit_covers(self, ex, outs):
        super().exit_covers(ex, outs)


# ---------------------------------------------------------------- unbatch
class UnbatcherIter(StreamOp):
    qual = 'Unbatcher.__iter__'
    canaries = (
        ('yields the batch itself', 'yield from x', 'yield x', 'invariant preserved'),
    )

    def fns(self):
        if not hasattr(self, '_fns'):
            self.sflat = SpecFn('sflatten', lambda acc, v: z3.Concat(acc, seqof(v)))
            self._fns = (self.sflat,)
        return self._fns

    def setup(self, ex):
        st = St()
        self.fns()
        self.mk_self(ex, st)
        # precondition of unbatch: input elements are lists/tuples (documented; general iterables are out of the model)
        self.src.elem_facts = lambda x: [z3.Or(V.is_lst(x), V.is_tup(x))]
        return st

    @property
    def loops(self):
        return {0: LoopSpec(inv=lambda s, ex: z3.And(self.live(s), self.out(s) == self.sflat(self.seen(s))))}

    def post(self, ex, outs):
        for k, s, p in outs:
            if k in ('normal', 'return'):
                ex.oblige(s, 'exit: out == concatenation of the input lists', self.out(s) == self.sflat(self.seen(s)))
                ex.oblige(s, 'exit: the source is exhausted', self.src.done(s))


UNITS = [MapperIter, FilterIter, HeaderIter, TailerIter, BatcherIter, UnbatcherIter]
