"""C13 forced schedules on the real Server object (in-process): thread A runs the LAST decref of a hosted value; at ONE chosen
point where A does not hold the server mutex inside decref (before an acquire / after a release; the point is argv[1], all
points are tried when absent) thread B re-wraps the same value (Server.create, the back end of managed()) -- exactly what a
second client's request returning managed_list(self.inner) does.  Afterwards the new proxy must be usable, the object
registered with count 1, and disposed of once that proxy goes.  (Legal schedules: A holds no lock at those moments.)"""
import gc, sys, threading
import multiprocessing.process as mpp
from mpservice.multiprocessing.server_process import Server, ServerProcess


class HookLock:
    def __init__(self, lock):
        self.lock, self.hook, self.n, self.at, self.inside = lock, None, 0, 0, 'decref'

    def acquire(self, *a, **k):
        return self.lock.acquire(*a, **k)

    def release(self):
        return self.lock.release()

    def boundary(self):
        if self.hook is not None and sys._getframe(2).f_code.co_name == self.inside:
            self.n += 1
            if self.n == self.at:
                h, self.hook = self.hook, None
                h()

    def __enter__(self):
        self.boundary()
        return self.lock.__enter__()

    def __exit__(self, *a):
        r = self.lock.__exit__(*a)
        self.boundary()
        return r


def run(at):
    reg = dict(ServerProcess._registry)
    srv = Server(reg, None, b'k' * 16, 'pickle')
    mpp.current_process()._manager_server = srv          # proxies created in this process take the in-server short-cut
    mpp.current_process().authkey = b'k' * 16
    srv.mutex = HookLock(srv.mutex)
    inner = [1, 2, 3]
    p1 = srv.create(None, 'ManagedList', inner)
    ident = p1._id
    made = {}


    def rewrap():
        made['p2'] = srv.create(None, 'ManagedList', inner)


    def hook():
        t = threading.Thread(target=rewrap)
        t.start()
        t.join(10)


    srv.mutex.hook = hook
    srv.mutex.at = at
    del p1            # finalizer -> Server.decref(None, ident): the last reference goes ... while B re-wraps the value
    gc.collect()
    if 'p2' not in made:
        return None      # decref has no such point: schedule impossible
    p2 = made.pop('p2')
    ok = srv.id_to_refcount.get(ident) == 1 and ident in srv.id_to_obj
    try:
        n = p2.__len__()
    except BaseException as e:      # noqa: BLE001
        print(f'a live proxy to the hosted value is unusable: {type(e).__name__} {e}; refcounts {dict(srv.id_to_refcount)}; registered: {ident in srv.id_to_obj}')
        return False
    if not ok or n != 3:
        print('inconsistent server state', dict(srv.id_to_refcount), ident in srv.id_to_obj, n)
        return False
    del p2
    gc.collect()
    if ident in srv.id_to_obj or ident in srv.id_to_refcount:
        print('object not disposed of after the last proxy went', dict(srv.id_to_refcount))
        return False
    return True


def run_dual(at):
    """the dual schedule: thread A re-wraps a hosted value (Server.create); at the chosen point where A does not hold the
    mutex inside create, thread B drops the last OTHER proxy of that value.  A's managed() call must still return a usable
    proxy (the value is referenced by the proxy being made)."""
    reg = dict(ServerProcess._registry)
    srv = Server(reg, None, b'k' * 16, 'pickle')
    mpp.current_process()._manager_server = srv
    mpp.current_process().authkey = b'k' * 16
    srv.mutex = HookLock(srv.mutex)
    srv.mutex.inside = 'create'
    inner = [1, 2, 3]
    held = {'p1': srv.create(None, 'ManagedList', inner)}
    ident = held['p1']._id
    fired = []

    def drop():
        held.pop('p1')
        gc.collect()

    def hook():
        fired.append(1)
        t = threading.Thread(target=drop)
        t.start()
        t.join(10)

    srv.mutex.hook = hook
    srv.mutex.at = at
    try:
        p2 = srv.create(None, 'ManagedList', inner)
    except BaseException as e:      # noqa: BLE001
        print(f'managed() of a hosted value failed because its last other proxy went at the same time: {type(e).__name__} {e}')
        return False
    if not fired:
        return None
    try:
        n = p2.__len__()
    except BaseException as e:      # noqa: BLE001
        print(f'the proxy managed() returned is unusable: {type(e).__name__} {e}; refcounts {dict(srv.id_to_refcount)}')
        return False
    if srv.id_to_refcount.get(ident) != 1 or n != 3:
        print('inconsistent server state', dict(srv.id_to_refcount), n)
        return False
    del p2
    gc.collect()
    if ident in srv.id_to_obj or ident in srv.id_to_refcount:
        print('object not disposed of after the last proxy went', dict(srv.id_to_refcount))
        return False
    return True


if __name__ == '__main__':
    points = [int(sys.argv[1])] if len(sys.argv) > 1 else range(1, 9)
    bad = [at for at in points if run(at) is False]
    bad2 = [at for at in points if run_dual(at) is False]
    if bad or bad2:
        print('failing interleaving point(s): inside decref', bad, '; inside create', bad2)
        sys.exit(1)
    print('OK')
