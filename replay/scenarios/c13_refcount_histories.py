"""C13 runtime battery (bounded, seeded): random histories over {create, pickle, unpickle once, pass to a child process that uses
the proxy and exits, store in / remove from a hosted list, return via managed(), delete proxy} checked after every step against a
reference-count model: server debug_info (ids and counts) == model, every live proxy usable, /dev/shm/<name> exists iff referenced."""
import gc, os, pickle, random, sys, time
from multiprocessing.managers import dispatch
from mpservice.multiprocessing import SpawnProcess
from mpservice.multiprocessing.server_process import ServerProcess, managed_list, MemoryBlock, managed_memoryblock

fails = []


class Owner:
    def __init__(self):
        self.inner = [[i] for i in range(3)]

    def view(self, i):
        return managed_list(self.inner[i])          # the same hosted value every time it is asked for

    def block(self, size):
        return managed_memoryblock(MemoryBlock(size))


ServerProcess.register('C13Owner', Owner)


def info(server):
    conn = server._Client(server._address, authkey=server._authkey)
    try:
        return {d['id']: d['refcount:'] for d in dispatch(conn, None, 'debug_info')}
    finally:
        conn.close()


def child(p, q):
    n = p.__len__()
    p2 = pickle.loads(pickle.dumps(p))      # copies made and dropped inside the child
    del p2
    if q is not None:
        q.append('child-was-here')
    return n


def run(seed, steps=45):
    r = random.Random(seed)
    with ServerProcess() as server:
        keeper = server.list()                 # always alive: used to flush the serving thread's last reply
        owner = server.C13Owner()
        fixed = {keeper._id, owner._id}
        live = {}            # name -> proxy (parent process)
        pickles = []         # (bytes, ident)
        stored = {}          # container ident -> list of idents stored in it (server-side proxies)
        shm = {}             # ident -> shared memory name
        views = set()        # idents of Owner.inner[i] lists that were ever handed out
        counter = [0]

        def new_name():
            counter[0] += 1
            return f'p{counter[0]}'

        def model():
            m = {}
            for p in live.values():
                m[p._id] = m.get(p._id, 0) + 1
            for _, ident in pickles:
                m[ident] = m.get(ident, 0) + 1
            # contents of containers count only while the container itself is referenced (dropped recursively otherwise)
            changed = True
            alive = set(m) | views      # a view's list object lives on inside the hosted Owner (with whatever was stored in it) even when no proxy to it is left
            while changed:
                changed = False
                for c, items in stored.items():
                    if c in alive:
                        for i in items:
                            if i not in alive:
                                alive.add(i)
                                changed = True
            for c, items in stored.items():
                if c in alive:
                    for i in items:
                        m[i] = m.get(i, 0) + 1
            return m

        def check(step, what):
            keeper.__len__()       # flush: the serving thread keeps its last reply (and a temp proxy in it) until the next request
            gc.collect()
            want = model()
            for attempt in range(200):      # up to 10 s: decrefs from an exiting child arrive asynchronously (loaded machines)
                got = {k: v for k, v in info(server).items() if k not in fixed}
                if got == want:
                    break
                time.sleep(0.05)    # decrefs from an exiting child arrive asynchronously
            if got != want:
                extra = {k: v for k, v in got.items() if want.get(k) != v}
                missing = {k: v for k, v in want.items() if got.get(k) != v}
                fails.append(f'seed {seed} step {step} ({what}): server counts {extra} vs model {missing}')
                return False
            for name, p in live.items():
                try:
                    p.name if p._id in shm else p.__len__()
                except Exception as e:      # noqa: BLE001
                    fails.append(f'seed {seed} step {step} ({what}): live proxy {name} unusable: {e!r}'[:300])
                    return False
            for ident, nm in shm.items():
                exists = os.path.exists('/dev/shm/' + nm.lstrip('/'))
                if exists != (ident in want):
                    fails.append(f'seed {seed} step {step} ({what}): shared memory {nm} exists={exists} but referenced={ident in want}')
                    return False
            return True

        p = q = c = x = got = item = proc = data = None
        for step in range(steps):
            p = q = c = x = got = item = proc = data = None     # (also after a `continue` below)
            ops = ['create', 'view', 'block']
            if live:
                ops += ['pickle', 'delete', 'delete', 'child', 'store', 'handoff']
            if pickles:
                ops += ['unpickle', 'unpickle']
            if any(stored.get(p._id) for p in live.values()):
                ops += ['remove']
            op = r.choice(ops)
            if op == 'create':
                live[new_name()] = server.list([step])
            elif op == 'view':
                p = owner.view(r.randrange(3))
                views.add(p._id)
                live[new_name()] = p
            elif op == 'block':
                p = owner.block(64) if r.random() < 0.5 else server.MemoryBlock(32)
                shm[p._id] = p.name
                live[new_name()] = p
            elif op == 'pickle':
                p = live[r.choice(sorted(live))]
                pickles.append((pickle.dumps(p), p._id))
            elif op == 'unpickle':
                data, ident = pickles.pop(r.randrange(len(pickles)))
                live[new_name()] = pickle.loads(data)
            elif op == 'delete':
                name = r.choice(sorted(live))
                del live[name]
            elif op == 'child':
                cands = [n for n in sorted(live) if live[n]._id not in shm]
                if not cands:
                    continue
                p = live[r.choice(cands)]
                q = live[r.choice(cands)]
                proc = SpawnProcess(target=child, args=(p, q))
                proc.start()
                proc.join()
                try:
                    proc.result()
                except Exception as e:      # noqa: BLE001
                    fails.append(f'seed {seed} step {step}: child could not use the proxy: {e!r}'[:300])
                    return
                del proc
            elif op == 'handoff':
                # the parent starts a child with its proxy and drops it at once: in between, only the pickle in transit refers to the object
                cands = [n for n in sorted(live) if live[n]._id not in shm]
                if not cands:
                    continue
                proc = SpawnProcess(target=child, args=(live.pop(r.choice(cands)), None))
                proc.start()
                gc.collect()
                proc.join()
                try:
                    proc.result()
                except Exception as e:      # noqa: BLE001
                    fails.append(f'seed {seed} step {step}: object destroyed while the pickled proxy was in transit to a starting child: {e!r}'[:300])
                    return
                del proc
            elif op == 'store':
                cands = [n for n in sorted(live) if live[n]._id not in shm]
                if not cands:
                    continue
                c = live[r.choice(cands)]
                x = live[r.choice(sorted(live))]
                if c._id == x._id:
                    continue
                # no cycles (a container stored inside something it contains would never be freed: outside the property)
                def reaches(a, b, seen=()):
                    return a == b or any(reaches(i, b, seen + (a,)) for i in stored.get(a, []) if i not in seen)
                if reaches(x._id, c._id):
                    continue
                c.append(x)
                stored.setdefault(c._id, []).append(x._id)
            elif op == 'remove':
                cands = [n for n in sorted(live) if stored.get(live[n]._id)]
                c = live[r.choice(cands)]
                # the stored proxies are the last len(stored) elements appended; remove the last stored one by scanning from the end
                n = c.__len__()
                for idx in range(n - 1, -1, -1):
                    item = c[idx]
                    if hasattr(item, '_id') and item._id == stored[c._id][-1]:
                        got = c.pop(idx)
                        stored[c._id].pop()
                        live[new_name()] = got
                        del item
                        break
                    del item
            if os.environ.get('C13_TRACE'):
                print(step, op, {n: pp._id[-5:] for n, pp in live.items()}, [i[-5:] for _, i in pickles], {k[-5:]: [i[-5:] for i in v] for k, v in stored.items()}, flush=True)
            p = q = c = x = got = item = proc = data = None     # no stray references from this driver
            if not check(step, op):
                return
        # end of history: drop everything
        p = q = c = x = got = item = proc = data = None
        if os.environ.get('C13_TRACE'):
            for k in list(live):
                i = live[k]._id[-5:]
                del live[k]
                gc.collect()
                print('  del', k, i, {a[-5:]: b for a, b in info(server).items()}, flush=True)
        live.clear()
        pickles_left = list(pickles)
        if not check('end', 'drop all proxies'):
            return
        for data, ident in pickles_left:
            p = pickle.loads(data)
            pickles.pop(0)
            del p
        check('end', 'unpickle and drop the remaining pickles')


if __name__ == '__main__':
    seeds = [int(a) for a in sys.argv[1:]] or [1, 2, 3]
    for seed in seeds:
        run(seed)
    if fails:
        print('\n'.join(fails[:20]))
        sys.exit(1)
    print('OK')
