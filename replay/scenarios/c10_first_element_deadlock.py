import threading, time, faulthandler
from mpservice.streamer import tee
faulthandler.dump_traceback_later(10, exit=True)
a, b = tee(range(100), 2, buffer_size=2)
fa, fb = a.streamlets[0], b.streamlets[0]
real = fa.instream_lock
delayed = []
class L:
    """the same lock; fork A is descheduled for 1 s just before its first attempt to take it"""
    def _delay(self):
        if threading.current_thread().name == 'A' and not delayed:
            delayed.append(1); time.sleep(1.0)
    def __enter__(self):
        self._delay(); return real.__enter__()
    def __exit__(self, *a): return real.__exit__(*a)
    def acquire(self, *a, **k):
        self._delay(); return real.acquire(*a, **k)
    def release(self): return real.release()
fa.instream_lock = fb.instream_lock = L()
out = {}
def run(name, s):
    out[name] = []
    for x in s: out[name].append(x)
ta = threading.Thread(target=run, args=('A', a), name='A'); tb = threading.Thread(target=run, args=('B', b), name='B')
ta.start(); time.sleep(0.1); tb.start()
ta.join(); tb.join()
print('done', len(out['A']), len(out['B']))
assert out['A'] == out['B'] == list(range(100))
