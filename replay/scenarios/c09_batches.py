"""C09 runtime battery: an instrumented Worker.call records what it receives, for b in {0, 1, 3}, with preprocess failures, incoming
exception values, bursts and trickles (timing with generous tolerances)."""
import sys, time, threading, faulthandler
from mpservice.mpserver import Server, ThreadServlet, SequentialServlet, Worker
faulthandler.dump_traceback_later(100, exit=True)
seen = []
fails = []


class W(Worker):
    def __init__(self, batch_size, batch_wait_time=None, **kw):
        super().__init__(batch_size=batch_size, batch_wait_time=batch_wait_time, **kw)

    def preprocess(self, x):
        if x % 7 == 3:
            raise ValueError(x)
        return x

    def call(self, x):
        seen.append((time.perf_counter(), x))
        if isinstance(x, list):
            return [v * 2 for v in x]
        return x * 2


def _reject(x):
    if x % 7 == 3:
        raise ValueError(x)
    return x


class WAttr(Worker):
    """the hook as an ATTRIBUTE holding a free-standing function, assigned after the base constructor ran (the documented alternative to a method)"""

    def __init__(self, batch_size, batch_wait_time=None, **kw):
        super().__init__(batch_size=batch_size, batch_wait_time=batch_wait_time, **kw)
        self.preprocess = _reject

    call = W.call


WORKER = W


def check(b, wait, n=40):
    seen.clear()
    server = Server(ThreadServlet(WORKER, batch_size=b, batch_wait_time=wait), capacity=64)
    with server:
        out = list(server.stream(range(n), return_exceptions=True))
        # a lone request is served without waiting for a full batch
        t0 = time.perf_counter()
        assert server.call(100, timeout=10) == 200
        lone = time.perf_counter() - t0
        # trickle: arrivals spaced at half the wait time must not keep a batch open beyond the wait time
        if b > 1 and wait:
            seen.clear()
            futs = []
            for k in range(6):
                futs.append(server._enqueue(200 + 7 * k, 10, False))
                time.sleep(wait / 2)
            for f in futs:
                f.result(10)
            for t, xs in seen:
                pass
            held = max(len(xs) for _, xs in seen)
            if held > 3:
                fails.append(f'b={b} wait={wait}: a trickle was held into one batch of {held} (deadline re-armed per element?)')
    want = [v * 2 if v % 7 != 3 else 'ValueError' for v in range(n)]
    got = [type(y).__name__ if isinstance(y, Exception) else y for y in out]
    if got != want:
        fails.append(f'b={b}: results {got} != {want}')
    flat = []
    for _, xs in seen if not (b > 1 and wait) else []:
        pass
    if lone > (wait or 0) + 1.0:
        fails.append(f'b={b} wait={wait}: a lone request took {lone:.2f}s')


def shapes(b, wait):
    """every call sees a non-empty list of <= b genuine inputs (b > 0) or a single element (b == 0); each accepted input exactly once"""
    seen.clear()
    server = Server(ThreadServlet(WORKER, batch_size=b, batch_wait_time=wait), capacity=64)
    with server:
        n = 50
        list(server.stream(range(n), return_exceptions=True))
    flat = []
    for _, xs in seen:
        if b == 0:
            if isinstance(xs, list):
                fails.append(f'b=0: call received a list {xs}')
            flat.append(xs)
        else:
            if not isinstance(xs, list) or not (1 <= len(xs) <= b):
                fails.append(f'b={b}: call received {xs!r}')
            flat.extend(xs if isinstance(xs, list) else [xs])
    if any(isinstance(v, BaseException) or v is None or v % 7 == 3 for v in flat):
        fails.append(f'b={b}: call received a non-genuine input: {flat}')
    if sorted(flat) != [v for v in range(50) if v % 7 != 3]:
        fails.append(f'b={b}: accepted inputs not seen exactly once: {sorted(flat)}')


for b, wait in ((0, None), (1, None), (3, 0.2), (3, 0), (5, 0.05)):
    shapes(b, wait)
    check(b, wait)
WORKER = WAttr
n0 = len(fails)
for b, wait in ((0, None), (1, None), (3, 0.05)):
    shapes(b, wait)
fails[n0:] = ['[preprocess given as an instance attribute] ' + f for f in fails[n0:]]
if fails:
    print('\n'.join(fails[:10])); sys.exit(1)
print('OK')
