import threading, time, faulthandler, multiprocessing, sys
from mpservice.mpserver import Server, ThreadServlet, ProcessServlet, SequentialServlet, EnsembleServlet, SwitchServlet, Worker
faulthandler.dump_traceback_later(60, exit=True)
class Good(Worker):
    def call(self, x): return x
class Bad(Worker):
    def __init__(self, **kw):
        super().__init__(**kw)
        if self.worker_index == 1:
            raise ValueError('init failed')
    def call(self, x): return x
class Sw(SwitchServlet):
    def switch(self, x): return 0
def mk(kind):
    return {
        'thread': lambda: ThreadServlet(Bad, num_threads=3),
        'process': lambda: ProcessServlet(Bad, cpus=[None, None]),
        'sequential': lambda: SequentialServlet(ThreadServlet(Good), ProcessServlet(Good), ThreadServlet(Bad, num_threads=2)),
        'ensemble': lambda: EnsembleServlet(ThreadServlet(Good), ThreadServlet(Bad, num_threads=2)),
        'switch': lambda: Sw(ProcessServlet(Good), ThreadServlet(Bad, num_threads=2)),
    }[kind]()
if __name__ == '__main__':
    for kind in sys.argv[1:] or ['thread', 'process', 'sequential', 'ensemble', 'switch']:
        server = Server(mk(kind))
        try:
            with server:
                print('entered?!')
            raise SystemExit('no error raised')
        except ValueError as e:
            print(kind, 'enter raised', repr(e))
        time.sleep(0.3)
        left = [t.name for t in threading.enumerate() if t is not threading.main_thread() and t.name != 'QueueFeederThread']
        print('   threads alive:', left, 'procs alive:', multiprocessing.active_children())
        assert not left and not multiprocessing.active_children()
    print('ALL OK')
