import os, signal, time, faulthandler, threading
from mpservice.multiprocessing import Process, wait
faulthandler.dump_traceback_later(15, exit=True)
def target():
    time.sleep(30)
if __name__ == '__main__':
    p = Process(target=target)
    p.start()
    time.sleep(1)
    os.kill(p.pid, signal.SIGKILL)
    time.sleep(1)
    print('exitcode', p.exitcode, 'done', p.done(), 'future done', p._future_.done())
    try:
        print('exception()', repr(p.exception(timeout=3)))
    except BaseException as e:
        print('exception() raised', repr(e))
    print('wait...')
    print(wait([p], timeout=3))
    print('wait no timeout...')
    print(wait([p]))
