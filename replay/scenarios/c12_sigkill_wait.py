"""C12 replay: kill the child with SIGKILL at different phases; wait/as_completed/exception/join must return and agree."""
import os, signal, time, faulthandler, sys
from mpservice.multiprocessing import Process, wait, as_completed
faulthandler.dump_traceback_later(40, exit=True)      # a hang is the symptom of the pinned-tree defect


def target(t):
    time.sleep(t)
    return 7


class Unpicklable(Exception):
    def __init__(self):
        super().__init__()
        self.f = lambda: 0


def abrupt(how):
    if how == 'os_exit':
        os._exit(3)
    if how == 'unpicklable_result':
        return lambda: 0
    raise Unpicklable()


if __name__ == '__main__':
    for sig in (signal.SIGKILL, signal.SIGSEGV):
        p = Process(target=target, args=(30,))
        p.start()
        time.sleep(1)
        os.kill(p.pid, sig)
        done, not_done = wait([p], timeout=10)
        assert done == {p} and not not_done, ('wait() did not complete', done, not_done)
        assert list(as_completed([p], timeout=10)) == [p]
        e = p.exception(timeout=10)
        assert isinstance(e, OSError), e
        try:
            p.join()
            raise SystemExit('join() did not raise')
        except OSError as e2:
            assert e2 is e or e2.args == e.args
        try:
            p.result()
            raise SystemExit('result() did not raise')
        except OSError:
            pass
        assert p.done() and p.exitcode == -sig
    # the child ends abruptly by itself (no signal): exit status without a report / unpicklable outcome
    for how in ('os_exit', 'unpicklable_result', 'unpicklable_exception'):
        p = Process(target=abrupt, args=(how,))
        p.start()
        done, not_done = wait([p], timeout=20)
        assert done == {p}, ('wait() did not complete', how)
        e = p.exception(timeout=10)
        assert isinstance(e, BaseException), (how, e)
        assert p.done()
    # the caller keeps (and reuses) its kwargs dict: the parent must still see the child's death
    kw = {'t': 30}
    p = Process(target=target, kwargs=kw)
    p.start(); time.sleep(1); os.kill(p.pid, signal.SIGKILL)
    done, _ = wait([p], timeout=10)
    assert done == {p} and isinstance(p.exception(timeout=5), OSError) and set(kw) == {'t'}, 'caller-held kwargs'
    # deliberate terminate: completes, no error
    p = Process(target=target, args=(30,))
    p.start(); time.sleep(1); p.terminate()
    done, _ = wait([p], timeout=10)
    assert done == {p} and p.exception() is None and p.result() is None
    # normal outcomes
    p = Process(target=target, args=(0.1,)); p.start()
    assert p.result() == 7 and p.exception() is None and p.done()
    print('OK')
